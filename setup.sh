#!/bin/bash
# Pre-warms the Go build cache (the checks rebuild from /repo's working tree on every run anyway).
set -e
cd "$(dirname "$(readlink -f "$0")")"
export GOFLAGS=-mod=mod GOPROXY=off GOSUMDB=off GOTOOLCHAIN=local
mkdir -p bin evidence
go build -tags verif -o bin/vcheck ./cmd/vcheck
go build -tags verif -race -o bin/vcheck-race ./cmd/vcheck
go build -tags verif -o bin/pprof github.com/google/pprof
echo setup ok
