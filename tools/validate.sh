#!/bin/bash
# validates MANIFEST.json and every evidence file against the schemas
python3-vt - <<'PY'
import json,jsonschema,glob
jsonschema.validate(json.load(open('/verif/MANIFEST.json')), json.load(open('/root/.vp/MANIFEST.schema.json')))
print('manifest ok')
sch=json.load(open('/root/.vp/EVIDENCE.schema.json'))
for f in sorted(glob.glob('/verif/evidence/*.json')):
    try:
        jsonschema.validate(json.load(open(f)), sch); print(f,'ok')
    except Exception as e:
        print(f,'INVALID',str(e)[:300])
PY
