#!/bin/bash
# evaluates every delivered seed under /tmp/seed/*/SEED/{a,b} not yet in the results file
res=/tmp/seed/results.jsonl
touch $res
for d in /tmp/seed/C*/SEED/[ab]; do
  [ -f "$d/meta.json" ] || continue
  [ "${FORCE:-}" = 1 ] || grep -q "\"seed\":\"$d\"" $res && continue
  id=$(echo $d | sed 's#/tmp/seed/\(C[0-9]*\)/.*#\1#')
  /verif/tools/seed_eval.sh $d $id >> $res
  tail -1 $res | cut -c1-420
done
