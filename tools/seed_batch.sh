#!/bin/bash
# evaluates every delivered seed under /tmp/seed/*/SEED/{a,b} not yet in the results file
base=${SEEDBASE:-/tmp/seed}
res=$base/results.jsonl
touch $res
for d in $base/C*/SEED/[ab]; do
  [ -f "$d/meta.json" ] || continue
  [ "${FORCE:-}" = 1 ] || grep -q "\"seed\":\"$d\"" $res && continue
  id=$(echo $d | sed 's#.*/\(C[0-9][0-9]\)/SEED/.*#\1#')
  "${VERIF_HOME:-/verif}"/tools/seed_eval.sh $d $id >> $res
  tail -1 $res | cut -c1-420
done
