NA = {}
add("C03", "exploration", "runtime reference-model monitor (frames-view sum) + snapshot/aliasing monitors over generated merge inputs",
    "Runs profile.Merge/Compact on thousands of generated profile lists built from a constructed universe of near-duplicate entities and compares the output, as a multiset keyed by semantic stack identity and label set, with an independent element-wise sum; also monitors validity, header rules, input snapshots, pointer disjointness, order independence and Compact idempotence. Held on the executions observed, not a proof.",
    "Trusts the frames-view reference (internal/ref) and the generator bounds (<=4 profiles, <=40 samples, depth <=6, <=4 inline lines).")
