#!/bin/bash
# runs every registered quick (or thorough) check and prints one line per check
tier="${1:-quick}"
cd "$(dirname "$(readlink -f "$0")")/.."
for id in $(python3 -c "import json;print(' '.join(c['property_id'] for c in json.load(open('MANIFEST.json'))['checks']))"); do
  s=$(date +%s.%N)
  out=$(./check $id $tier 2>&1); rc=$?
  e=$(date +%s.%N)
  printf "%s rc=%d %.1fs %s\n" $id $rc $(echo "$e - $s" | bc) "$(echo "$out" | grep -E "^C[0-9]+ (quick|thorough)" | tail -1 | cut -c1-140)"
  echo "$out" | grep -E "^(VIOLATION|NOTE|KNOWN-FINDING)" | cut -c1-200 | head -3
done
