#!/bin/bash
# tools/seed_eval.sh <seed-dir> [check-id...]
# Verifies a seeded change independently (patch applies, suite green with it, demo fails with it and
# passes without it) on a scratch worktree, then runs the given quick checks against that worktree.
# Prints a one-line JSON summary. Never touches /repo's working tree.
set -u
sd="$(readlink -f "$1")"; shift
export GOFLAGS=-mod=mod GOPROXY=off GOSUMDB=off GOTOOLCHAIN=local
w=$(mktemp -d /tmp/sv.XXXXXX)
git -C /repo worktree add -q --detach "$w/pprof" HEAD || exit 2
trap 'git -C /repo worktree remove --force "$w/pprof" >/dev/null 2>&1; rm -rf "$w"' EXIT
cd "$w/pprof"
demodir=$(python3 -c "import json,sys;print(json.load(open('$sd/meta.json')).get('demo_dir','').strip('/'))")
demo=$(ls "$sd"/*_test.go "$sd"/demo_test.go.txt 2>/dev/null | head -1)
tests=$(grep -ho '^func Test[A-Za-z0-9_]*' "$demo" 2>/dev/null | sed 's/func //' | paste -sd'|')
rundemo() { go test -vet=off -count=1 -run "^($tests)\$" "./$demodir" >"$w/demo.out" 2>&1; }
res_demo_clean=NA; res_demo_patched=NA; res_suite=NA; applies=no
if [ -n "$demo" ] && [ -n "$tests" ]; then
  cp "$demo" "$demodir/zz_seed_demo_test.go"
  if rundemo; then res_demo_clean=pass; else res_demo_clean=FAIL; fi
fi
if git apply "$sd/patch.diff" 2>"$w/apply.err"; then applies=yes; else cat "$w/apply.err" >&2; fi
if [ $applies = yes ]; then
  if [ -n "$demo" ] && [ -n "$tests" ]; then
    if rundemo; then res_demo_patched=PASS; else res_demo_patched=fail; fi
    rm -f "$demodir/zz_seed_demo_test.go"
  fi
  if go build ./... >"$w/build.out" 2>&1 && go test -vet=off -count=1 ./... >"$w/suite.out" 2>&1; then res_suite=pass; else res_suite=FAIL; fi
fi
checks=""
cd "${VERIF_HOME:-/verif}"
for id in "$@"; do
  out=$(VERIF_REPO="$w/pprof" VERIF_OUT_DIR="$w/out" ${SEEDTIER_ENV:-} ./check "$id" "${TIER:-quick}" 2>&1); rc=$?
  line=$(echo "$out" | grep -m1 "detail:" | cut -c1-260 | tr '"' "'" | tr '\\' '/')
  checks="$checks{\"check\":\"$id\",\"exit\":$rc,\"first\":\"$line\"},"
done
echo "{\"seed\":\"$sd\",\"applies\":\"$applies\",\"demo_without_patch\":\"$res_demo_clean\",\"demo_with_patch\":\"$res_demo_patched\",\"suite_with_patch\":\"$res_suite\",\"checks\":[${checks%,}]}"
