#!/usr/bin/env python3
"""Regenerates /verif/MANIFEST.json from the table below (keeps it schema-valid at all times)."""
import json, os, subprocess
V = os.path.dirname(os.path.dirname(os.path.abspath(__file__)))
props = [json.loads(l) for l in open(os.path.join(V, 'properties.jsonl'))]
ids = [p['id'] for p in props]

# id -> dict(category, text, note, technique, design_ref, thorough(bool))
CHECKS = {}
def add(id, category, technique, text, note, thorough=True):
    CHECKS[id] = dict(category=category, technique=technique, text=text, note=note, thorough=thorough)

exec(open(os.path.join(V, 'tools', 'manifest_table.py')).read())

hooks_commits = subprocess.run(['git', '-C', '/repo', 'log', '--format=%H', '--grep=^verif hooks'], capture_output=True, text=True).stdout.split()
m = {
 "version": 1,
 "setup_cmd": "cd /verif && ./setup.sh",
 "hooks": {
  "guard": "verif (Go build tag)",
  "enable": "go build -tags verif (done by /verif/check for the runner and for bin/pprof)",
  "baseline_off_cmd": "cd /repo && export GOFLAGS=-mod=mod GOPROXY=off GOSUMDB=off GOTOOLCHAIN=local && go test -vet=off -count=1 ./... && (cd browsertests && go test -vet=off -count=1 ./...)",
  "source_commits": hooks_commits,
  "add_only": True,
 },
 "engines": [
  {"name": "vcheck", "path": "cmd/vcheck", "serves_properties": sorted(CHECKS), "kind_free_text": "Go runner: deterministic seeded case lists sharded over worker processes; reference-model monitors, structural-invariant monitors, history checkers (porcupine), fault injectors (RLIMIT_FSIZE, strace kill points), Go race detector"},
 ],
 "checks": [],
 "notes": "All checks run the real code of /repo's working tree (module replace => /repo, build tag verif). See DESIGN.md.",
 "not_applicable": [],
}
for id in ids:
    if id in CHECKS:
        c = CHECKS[id]
        e = {
         "property_id": id,
         "quick_cmd": "./check %s quick" % id,
         "evidence_file": "evidence/%s.json" % id,
         "replay_cmd_template": "./check %s replay {path}" % id,
         "engine": "vcheck",
         "level_claimed": {"category": c['category'], "text": c['text'], "design_ref": "DESIGN.md section 6, " + id},
         "level_note": c['note'],
         "technique": c['technique'],
        }
        if c['thorough']:
            e["thorough_cmd"] = "./check %s thorough" % id
        m["checks"].append(e)
    else:
        m["not_applicable"].append({"property_id": id, "reason": NA.get(id, "check not built yet in this session; the design (DESIGN.md section 6) applies runtime monitoring to it")})
json.dump(m, open(os.path.join(V, 'MANIFEST.json'), 'w'), indent=1)
print("checks:", len(m["checks"]), "not_applicable:", len(m["not_applicable"]))
