#!/bin/bash
# tools/seed_matrix.sh [seed-id...] : for every seeded change, apply it on a scratch worktree of
# /repo, build the runner ONCE against that worktree and run
#   - the quick check of the change's own property at full size, and
#   - every other quick check at VERIF_SCALE=${CROSS_SCALE:-0.15} (cross-detection survey; a check
#     that needs more than ${CROSS_TIMEOUT:-150} s there is recorded as "t" = no verdict).
# One JSON line per seed is appended to seeded/matrix.jsonl:  {"seed":..,"results":{"C01":rc,..}}
# rc: 1 = violation reported, 0 = silent, 3 = no verdict (too few cases at that scale), "t" = timeout.
# Never touches /repo's working tree. PAR seeds run in parallel (default 3).
cd "$(dirname "$(readlink -f "$0")")/.."
V=$PWD
export GOFLAGS=-mod=mod GOPROXY=off GOSUMDB=off GOTOOLCHAIN=local TZ=UTC
unset PPROF_TOOLS PPROF_BINARY_PATH PPROF_TMPDIR BROWSER DISPLAY
ids=$(python3 -c "import json;print(' '.join(c['property_id'] for c in json.load(open('MANIFEST.json'))['checks']))")
seeds="$@"; [ -z "$seeds" ] && seeds=$(cd seeded && ls -d */ | tr -d / | while read d; do [ -f "$d/patch.diff" ] && echo "$d"; done)
one() {
  s=$1
  own=$(python3 -c "import json;print(json.load(open('$V/seeded/$s/meta.json'))['property'])")
  w=$(mktemp -d /tmp/sm.XXXXXX)
  git -C /repo worktree add -q --detach "$w/pprof" HEAD || return
  ( cd "$w/pprof" && git apply "$V/seeded/$s/patch.diff" ) 2>/dev/null || { echo "{\"seed\":\"$s\",\"error\":\"patch does not apply\"}"; git -C /repo worktree remove --force "$w/pprof"; rm -rf $w; return; }
  sed "s#=> /repo#=> $w/pprof#" "$V/go.mod" > "$w/go.mod"; cp "$V/go.sum" "$w/go.sum"
  mkdir -p "$w/bin" "$w/out"
  ( cd "$V" && go build -modfile="$w/go.mod" -tags verif -o "$w/bin/vcheck" ./cmd/vcheck && go build -modfile="$w/go.mod" -tags verif -o "$w/bin/pprof" github.com/google/pprof && go build -modfile="$w/go.mod" -tags verif -race -o "$w/bin/vcheck-race" ./cmd/vcheck ) >"$w/build.log" 2>&1 || { echo "{\"seed\":\"$s\",\"error\":\"does not build\"}"; git -C /repo worktree remove --force "$w/pprof"; rm -rf $w; return; }
  res=""
  for id in $ids; do
    if [ "$id" = "$own" ]; then
      ( cd "$V" && VERIF_REPO="$w/pprof" VERIF_DIR="$V" VERIF_OUT_DIR="$w/out" VERIF_BIN="$w/bin" timeout 3000 "$w/bin/vcheck" run $id quick ) >"$w/log" 2>&1; rc=$?
    else
      ( cd "$V" && VERIF_REPO="$w/pprof" VERIF_DIR="$V" VERIF_OUT_DIR="$w/out" VERIF_BIN="$w/bin" VERIF_SCALE=${CROSS_SCALE:-0.15} timeout ${CROSS_TIMEOUT:-150} "$w/bin/vcheck" run $id quick ) >"$w/log" 2>&1; rc=$?
      [ $rc = 124 ] && rc='"t"'
    fi
    res="$res\"$id\":$rc,"
  done
  echo "{\"seed\":\"$s\",\"own\":\"$own\",\"results\":{${res%,}}}"
  pkill -f "$w/bin/vcheck" 2>/dev/null
  git -C /repo worktree remove --force "$w/pprof" >/dev/null 2>&1; rm -rf "$w"
}
export -f one; export V ids
printf "%s\n" $seeds | xargs -P ${PAR:-3} -I{} bash -c 'one {}' >> seeded/matrix.jsonl
