#!/bin/bash
# tools/seed_matrix.sh [seed-id...] : for every seeded change, apply it on a scratch worktree of /repo and run
# ALL registered quick checks against it; writes one JSON line per seed to seeded/matrix.jsonl (in this /verif).
cd "$(dirname "$(readlink -f "$0")")/.."
V=$PWD
export GOFLAGS=-mod=mod GOPROXY=off GOSUMDB=off GOTOOLCHAIN=local
ids=$(python3 -c "import json;print(' '.join(c['property_id'] for c in json.load(open('MANIFEST.json'))['checks']))")
seeds="$@"; [ -z "$seeds" ] && seeds=$(cd seeded && ls -d */ | tr -d / | while read d; do [ -f "$d/patch.diff" ] && echo "$d"; done)
one() {
  s=$1
  w=$(mktemp -d /tmp/sm.XXXXXX)
  git -C /repo worktree add -q --detach "$w/pprof" HEAD || return
  ( cd "$w/pprof" && git apply "$V/seeded/$s/patch.diff" ) || { echo "{\"seed\":\"$s\",\"error\":\"patch does not apply\"}"; git -C /repo worktree remove --force "$w/pprof"; rm -rf $w; return; }
  res=""
  for id in $ids; do
    VERIF_REPO="$w/pprof" VERIF_OUT_DIR="$w/out" VERIF_BIN="$w/bin" "$V/check" $id quick >"$w/log" 2>&1; rc=$?
    res="$res\"$id\":$rc,"
  done
  echo "{\"seed\":\"$s\",\"results\":{${res%,}}}"
  git -C /repo worktree remove --force "$w/pprof" >/dev/null 2>&1; rm -rf "$w"
}
export -f one; export V ids
printf "%s\n" $seeds | xargs -P ${PAR:-3} -I{} bash -c 'one {}' >> seeded/matrix.jsonl
