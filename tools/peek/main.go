// peek prints sample outputs of every format for one generated profile (development aid).
package main

import (
	"fmt"
	"math/rand"
	"os"
	"strconv"

	"github.com/google/pprof/profile"
	"github.com/google/pprof/verif/internal/drv"
	"github.com/google/pprof/verif/internal/gen"
)

func main() {
	seed, _ := strconv.Atoi(os.Args[1])
	r := rand.New(rand.NewSource(int64(seed)))
	p := gen.Profile(r, gen.Opt{Types: [][2]string{{"samples", "count"}, {"v", "count"}}, Labels: true, NumLabels: true, Recursion: true, EmptyStacks: true, Unsym: true, ValueClass: 0, MaxSamples: 6, MaxDepth: 4})
	fmt.Println(p.String())
	for _, f := range os.Args[2:] {
		out, ui, res := drv.Report(map[string]*profile.Profile{"p": p}, []string{"p"}, map[string]bool{f: true}, map[string]string{"sample_index": "v"}, nil, nil, nil)
		fmt.Printf("=== %s err=%v panic=%v uierr=%v\n%s\n", f, res.Err, res.Panic, ui.Errs, out)
	}
}
