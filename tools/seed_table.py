#!/usr/bin/env python3
"""Regenerates the seeded-change tables of DESIGN.md section 13 between the markers
<!-- SEED-TABLE-BEGIN --> and <!-- SEED-TABLE-END --> from seeded/*/meta.json,
seeded/history.json (why a change was missed at first and what was strengthened) and the
matrix file given as argument (one JSON line per seed: all quick checks run against it)."""
import json, os, re, sys

V = os.path.dirname(os.path.dirname(os.path.abspath(__file__)))
matrix = {}
for path in sys.argv[1:]:
    for l in open(path):
        l = l.strip()
        if not l:
            continue
        d = json.loads(l)
        if 'results' in d:
            matrix[d['seed']] = d['results']
        elif 'error' in d:
            matrix[d['seed']] = {'error': d['error']}
hist = json.load(open(os.path.join(V, 'seeded', 'history.json')))


def short(s, n):
    s = re.sub(r'\s+', ' ', s.strip())
    s = s.replace('|', '/')
    if len(s) <= n:
        return s
    cut = s[:n]
    if ' ' in cut:
        cut = cut[:cut.rindex(' ')]
    return cut + ' ...'


rows = []
for d in sorted(os.listdir(os.path.join(V, 'seeded'))):
    mp = os.path.join(V, 'seeded', d, 'meta.json')
    if not os.path.exists(mp):
        continue
    m = json.load(open(mp))
    res = matrix.get(d)
    if res is None:
        caught = 'not run'
    elif 'error' in res:
        caught = res['error']
    else:
        own = m['property']
        ids = sorted(k for k, v in res.items() if v == 1)
        other = sorted(k for k, v in res.items() if v not in (0, 1, 3))  # 3 = too few cases at the survey scale: silent
        parts = [('**%s**' % k if k == own else k) for k in ids]
        caught = ' '.join(parts) if parts else '**none**'
        if other:
            caught += ' (no verdict: ' + ' '.join('%s=%s' % (k, res[k]) for k in other) + ')'
    note = hist.get(d, 'caught by the checks as they were when it arrived')
    rows.append((d, m['property'], m.get('round', 1), short(m['summary'], 230), short(m['needs_to_manifest'], 200), caught, note))

out = []
out.append('| seed | round | what the change does | needs to manifest | quick checks that report a violation (own property bold) | history |')
out.append('|---|---|---|---|---|---|')
for r in rows:
    out.append('| %s | %d | %s | %s | %s | %s |' % (r[0], r[2], r[3], r[4], r[5], short(r[6], 400)))
table = '\n'.join(out)

# summary numbers
total = len(rows)
own_caught = sum(1 for r in rows if ('**%s**' % r[1]) in r[5])
missed_first = sum(1 for r in rows if r[0] in hist and hist[r[0]].startswith('missed'))
summary = '%d seeded changes; %d reported by the check of their own property in the final matrix; %d of them were missed when they first arrived and led to a stronger check.' % (total, own_caught, missed_first)

p = os.path.join(V, 'DESIGN.md')
s = open(p).read()
b, e = '<!-- SEED-TABLE-BEGIN -->', '<!-- SEED-TABLE-END -->'
if b in s and e in s:
    s = s[:s.index(b) + len(b)] + '\n' + summary + '\n\n' + table + '\n' + s[s.index(e):]
    open(p, 'w').write(s)
    print(summary)
else:
    print(summary)
    print(table)
