#!/bin/bash
# tools/mutant.sh <patch|revert:<commit>> <check-id>... : apply a patch (or revert a commit) on a
# scratch worktree of /repo, run the suite compile check + given quick checks against it, clean up.
# Development/validation aid only; never touches /repo's working tree.
set -u
what="$1"; shift
export GOFLAGS=-mod=mod GOPROXY=off GOSUMDB=off GOTOOLCHAIN=local
d=$(mktemp -d /tmp/mut.XXXXXX)
git -C /repo worktree add -q --detach "$d/pprof" HEAD || exit 2
trap 'git -C /repo worktree remove --force "$d/pprof"; rm -rf "$d"' EXIT
cd "$d/pprof"
case "$what" in
  sed:*) IFS='@' read -r _ f expr <<< "${what/sed:/sed@}"; sed -i "$expr" "$f" && git diff --stat | tail -1; git diff --quiet && { echo "sed mutant changed nothing"; exit 2; } ;;
  py:*) python3 "${what#py:}" || { echo "py mutant failed"; exit 2; }; git diff --stat | tail -1 ;;
  revert:*) git revert --no-commit "${what#revert:}" >/dev/null || { echo "revert failed"; exit 2; } ;;
  *) git apply "$what" || patch -p1 -s < "$what" || { echo "patch failed"; exit 2; } ;;
esac
if [ "${SUITE:-0}" = 1 ]; then
  go test -vet=off -count=1 ./... 2>&1 | grep -v '^ok\|no test files' | head -20
  echo "suite done"
fi
cd /verif
for id in "$@"; do
  VERIF_REPO="$d/pprof" VERIF_OUT_DIR="$d/out" ./check "$id" "${TIER:-quick}" 2>&1 | tail -${TAIL:-4}
  echo "exit=${PIPESTATUS[0]} ($id)"
done
