// vcheck is the single runner binary behind ./check.
package main

import (
	_ "github.com/google/pprof/verif/checks/c01"
	_ "github.com/google/pprof/verif/checks/c02"
	_ "github.com/google/pprof/verif/checks/c03"
	_ "github.com/google/pprof/verif/checks/c04"
	_ "github.com/google/pprof/verif/checks/c05"
	_ "github.com/google/pprof/verif/checks/c06"
	_ "github.com/google/pprof/verif/checks/c07"
	_ "github.com/google/pprof/verif/checks/c08"
	_ "github.com/google/pprof/verif/checks/c09"
	_ "github.com/google/pprof/verif/checks/c10"
	_ "github.com/google/pprof/verif/checks/c11"
	_ "github.com/google/pprof/verif/checks/c12"
	_ "github.com/google/pprof/verif/checks/c13"
	_ "github.com/google/pprof/verif/checks/c14"
	_ "github.com/google/pprof/verif/checks/c15"
	_ "github.com/google/pprof/verif/checks/c16"
	_ "github.com/google/pprof/verif/checks/c17"
	_ "github.com/google/pprof/verif/checks/c18"
	_ "github.com/google/pprof/verif/checks/c19"
	_ "github.com/google/pprof/verif/checks/c20"
	"github.com/google/pprof/verif/internal/harness"
)

func main() { harness.Main() }
