// vcheck is the single runner binary behind ./check.
package main

import (
	_ "github.com/google/pprof/verif/checks/c03"
	"github.com/google/pprof/verif/internal/harness"
)

func main() { harness.Main() }
