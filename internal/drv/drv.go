// Package drv runs pprof's real driver (internal/driver.PProf) in-process with capturing
// plug-ins: flag set, fetcher, symbolizer, object tool, UI, writer and HTTP server.
package drv

import (
	"bytes"
	"fmt"
	"github.com/google/pprof/internal/symbolizer"
	"io"
	"net/http"
	"net/http/httptest"
	"os"
	"path/filepath"
	"regexp"
	"runtime/debug"
	"sort"
	"strings"
	"sync"
	"time"

	"github.com/google/pprof/internal/driver"
	"github.com/google/pprof/internal/plugin"
	"github.com/google/pprof/profile"
)

// Flags is a scripted plugin.FlagSet. Unspecified flags get pprof's documented defaults,
// not the "current" value the driver passes (which depends on earlier runs in this process).
type Flags struct {
	Bools   map[string]bool
	Ints    map[string]int
	Floats  map[string]float64
	Strs    map[string]string
	Lists   map[string][]string
	Args    []string
	extra   string
	Granted map[string]bool // names of flags the driver asked for
}

var hardBool = map[string]bool{"trim": true}
var hardInt = map[string]int{"nodecount": -1, "timeout": -1, "seconds": -1}
var hardFloat = map[string]float64{"nodefraction": 0.005, "edgefraction": 0.001, "divide_by": 1}
var hardStr = map[string]string{"unit": "minimum"}

func (f *Flags) note(n string) {
	if f.Granted == nil {
		f.Granted = map[string]bool{}
	}
	f.Granted[n] = true
}

// Bool implements plugin.FlagSet.
func (f *Flags) Bool(n string, d bool, c string) *bool {
	f.note(n)
	v, ok := f.Bools[n]
	if !ok {
		v = hardBool[n]
	}
	return &v
}

// Int implements plugin.FlagSet.
func (f *Flags) Int(n string, d int, c string) *int {
	f.note(n)
	v, ok := f.Ints[n]
	if !ok {
		if h, ok := hardInt[n]; ok {
			v = h
		} else {
			v = 0
		}
	}
	return &v
}

// Float64 implements plugin.FlagSet.
func (f *Flags) Float64(n string, d float64, c string) *float64 {
	f.note(n)
	v, ok := f.Floats[n]
	if !ok {
		v = hardFloat[n]
	}
	return &v
}

// String implements plugin.FlagSet.
func (f *Flags) String(n, d, c string) *string {
	f.note(n)
	v, ok := f.Strs[n]
	if !ok {
		v = hardStr[n]
	}
	return &v
}

// StringList implements plugin.FlagSet.
func (f *Flags) StringList(n, d, c string) *[]*string {
	f.note(n)
	out := []*string{}
	for _, s := range f.Lists[n] {
		s := s
		out = append(out, &s)
	}
	return &out
}

// ExtraUsage implements plugin.FlagSet.
func (f *Flags) ExtraUsage() string { return f.extra }

// AddExtraUsage implements plugin.FlagSet.
func (f *Flags) AddExtraUsage(eu string) { f.extra += eu }

// Parse implements plugin.FlagSet.
func (f *Flags) Parse(func()) []string { return f.Args }

// UI captures output and scripts input.
type UI struct {
	mu    sync.Mutex
	Lines []string // scripted input; io.EOF afterwards
	pos   int
	Out   []string
	Errs  []string
	// OnRead is called before each ReadLine with the index of the line about to be returned.
	OnRead func(i int)
	Term   bool
}

// ReadLine implements plugin.UI.
func (u *UI) ReadLine(prompt string) (string, error) {
	u.mu.Lock()
	i := u.pos
	u.pos++
	u.mu.Unlock()
	if u.OnRead != nil {
		u.OnRead(i)
	}
	if i >= len(u.Lines) {
		return "", io.EOF
	}
	return u.Lines[i], nil
}

// Print implements plugin.UI.
func (u *UI) Print(a ...interface{}) {
	u.mu.Lock()
	u.Out = append(u.Out, fmt.Sprint(a...))
	u.mu.Unlock()
}

// PrintErr implements plugin.UI.
func (u *UI) PrintErr(a ...interface{}) {
	u.mu.Lock()
	u.Errs = append(u.Errs, fmt.Sprint(a...))
	u.mu.Unlock()
}

// IsTerminal implements plugin.UI.
func (u *UI) IsTerminal() bool { return u.Term }

// WantBrowser implements plugin.UI.
func (u *UI) WantBrowser() bool { return false }

// SetAutoComplete implements plugin.UI.
func (u *UI) SetAutoComplete(func(string) string) {}

// Writer captures files.
type Writer struct {
	mu    sync.Mutex
	Files map[string]*bytes.Buffer
	Order []string
	// Fail makes Open fail for the given name.
	Fail map[string]error
}

type wc struct{ *bytes.Buffer }

func (wc) Close() error { return nil }

// Open implements plugin.Writer.
func (w *Writer) Open(name string) (io.WriteCloser, error) {
	w.mu.Lock()
	defer w.mu.Unlock()
	if err := w.Fail[name]; err != nil {
		return nil, err
	}
	if w.Files == nil {
		w.Files = map[string]*bytes.Buffer{}
	}
	b := &bytes.Buffer{}
	w.Files[name] = b
	w.Order = append(w.Order, name)
	return wc{b}, nil
}

// MapFetcher serves profiles by source name; every fetch returns a fresh copy.
type MapFetcher struct {
	Profiles map[string]*profile.Profile
	Errs     map[string]error
	// Exact: return the very pointer (no copy) - used by the pristine-profile monitor.
	Exact bool
	// Remote: report the source string as the URL the profile came from, as a fetcher for remote
	// profiles does (pprof then saves a local copy)
	Remote bool
}

// Fetch implements plugin.Fetcher.
func (m *MapFetcher) Fetch(s string, _, _ time.Duration) (*profile.Profile, string, error) {
	if err := m.Errs[s]; err != nil {
		return nil, "", err
	}
	p, ok := m.Profiles[s]
	if !ok {
		return nil, "", fmt.Errorf("no such source %s", s)
	}
	url := ""
	if m.Remote {
		url = s
	}
	if m.Exact {
		return p, url, nil
	}
	return p.Copy(), url, nil
}

// NopSym does not symbolize.
type NopSym struct{}

// Symbolize implements plugin.Symbolizer.
func (NopSym) Symbolize(string, plugin.MappingSources, *profile.Profile) error { return nil }

// StubObj is an ObjTool that finds nothing (avoids binutils lookups).
type StubObj struct{}

// Open implements plugin.ObjTool.
func (StubObj) Open(file string, start, limit, offset uint64, rs string) (plugin.ObjFile, error) {
	return nil, fmt.Errorf("stub objtool: no such file %s", file)
}

// Disasm implements plugin.ObjTool.
func (StubObj) Disasm(string, uint64, uint64, bool) ([]plugin.Inst, error) {
	return nil, fmt.Errorf("stub objtool: disasm not available")
}

// Session describes one PProf invocation.
type Session struct {
	Flags   *Flags
	Fetch   plugin.Fetcher
	Sym     plugin.Symbolizer
	Obj     plugin.ObjTool
	UI      *UI
	Writer  *Writer
	Server  func(args *plugin.HTTPServerArgs) error
	RoundTr http.RoundTripper
	// OSWriter leaves the Writer plug-in unset, so that pprof writes output files itself
	OSWriter bool
}

// Result of a run.
type Result struct {
	Err   error
	Panic string
}

// Run executes driver.PProf, recovering panics.
func (s *Session) Run() (res Result) {
	if s.UI == nil {
		s.UI = &UI{}
	}
	if s.Writer == nil {
		s.Writer = &Writer{}
	}
	if s.Sym == nil {
		s.Sym = NopSym{}
	}
	if s.Obj == nil {
		s.Obj = StubObj{}
	}
	o := &plugin.Options{Flagset: s.Flags, Fetch: s.Fetch, Sym: s.Sym, Obj: s.Obj, UI: s.UI, Writer: s.Writer, HTTPServer: s.Server, HTTPTransport: s.RoundTr}
	if s.OSWriter {
		o.Writer = nil
	}
	defer func() {
		if r := recover(); r != nil {
			res.Panic = fmt.Sprintf("%v\n%s", r, debug.Stack())
		}
	}()
	res.Err = driver.PProf(o)
	return res
}

// FakeObj is an object tool that "opens" every binary of a profile: it knows one symbol per
// function name (each covering the addresses the profile attributes to that name inside the
// mapping) and disassembles to one instruction per profile address, without file/line
// information (a stripped binary).
type FakeObj struct {
	Prof *profile.Profile
	// Symbolize makes SourceLine answer every address with one frame named after it (a binary
	// with symbols); otherwise it answers nothing
	Symbolize bool
}

type fakeObjFile struct {
	o     *FakeObj
	m     *profile.Mapping
	name  string
	start uint64
}

// Open implements plugin.ObjTool.
func (o *FakeObj) Open(file string, start, limit, offset uint64, rs string) (plugin.ObjFile, error) {
	if os.Getenv("FAKEOBJ_DEBUG") != "" {
		fmt.Fprintf(os.Stderr, "FakeObj.Open %q %x\n", file, start)
	}
	for _, m := range o.Prof.Mapping {
		if m.File == file && m.Start == start {
			return &fakeObjFile{o: o, m: m, name: file, start: start}, nil
		}
	}
	return nil, fmt.Errorf("fake objtool: no such file %s", file)
}

// Disasm implements plugin.ObjTool.
func (o *FakeObj) Disasm(file string, start, end uint64, intel bool) ([]plugin.Inst, error) {
	seen := map[uint64]bool{}
	var insts []plugin.Inst
	for _, l := range o.Prof.Location {
		if l.Mapping != nil && l.Mapping.File == file && l.Address >= start && l.Address < end && !seen[l.Address] {
			seen[l.Address] = true
			insts = append(insts, plugin.Inst{Addr: l.Address, Text: fmt.Sprintf("insn_%x", l.Address)})
		}
	}
	sort.Slice(insts, func(i, j int) bool { return insts[i].Addr < insts[j].Addr })
	return insts, nil
}

func (f *fakeObjFile) Name() string                        { return f.name }
func (f *fakeObjFile) ObjAddr(addr uint64) (uint64, error) { return addr, nil }
func (f *fakeObjFile) BuildID() string                     { return f.m.BuildID }
func (f *fakeObjFile) Close() error                        { return nil }
func (f *fakeObjFile) SourceLine(addr uint64) ([]plugin.Frame, error) {
	if !f.o.Symbolize {
		return nil, nil
	}
	return []plugin.Frame{{Func: fmt.Sprintf("sym_%s_%x", filepath.Base(f.name), addr), File: "f.c", Line: 1}}, nil
}

// Symbols implements plugin.ObjFile: one symbol per function name seen as outermost frame of a
// location of this mapping, spanning those locations' addresses.
func (f *fakeObjFile) Symbols(r *regexp.Regexp, addr uint64) ([]*plugin.Sym, error) {
	type span struct{ lo, hi uint64 }
	spans := map[string]*span{}
	for _, l := range f.o.Prof.Location {
		if l.Mapping != f.m || len(l.Line) == 0 {
			continue
		}
		fn := l.Line[len(l.Line)-1].Function
		if fn == nil || fn.Name == "" {
			continue
		}
		sp := spans[fn.Name]
		if sp == nil {
			sp = &span{l.Address, l.Address}
			spans[fn.Name] = sp
		}
		if l.Address < sp.lo {
			sp.lo = l.Address
		}
		if l.Address > sp.hi {
			sp.hi = l.Address
		}
	}
	var names []string
	for n := range spans {
		names = append(names, n)
	}
	sort.Strings(names)
	var out []*plugin.Sym
	// plus one symbol spanning the whole mapping, so unsymbolized addresses are listed too
	if all := "all_" + filepath.Base(f.name); r == nil || r.MatchString(all) || addr != 0 {
		out = append(out, &plugin.Sym{Name: []string{all}, File: f.name, Start: f.m.Start, End: f.m.Limit})
	}
	for _, n := range names {
		sp := spans[n]
		if (r == nil || r.MatchString(n)) || (addr != 0 && addr >= sp.lo && addr <= sp.hi) {
			out = append(out, &plugin.Sym{Name: []string{n}, File: f.name, Start: sp.lo, End: sp.hi + 1})
		}
	}
	return out, nil
}

// ReportObj is Report with an object tool.
func ReportObj(obj plugin.ObjTool, profs map[string]*profile.Profile, srcs []string, bools map[string]bool, strs map[string]string, ints map[string]int) (string, *UI, Result) {
	reportObj = obj
	defer func() { reportObj, reportSym = nil, false }()
	if m := strs["symbolize"]; m != "" && m != "none" {
		reportSym = true // the real symbolizer over obj
	}
	return Report(profs, srcs, bools, strs, ints, nil, nil)
}

var reportObj plugin.ObjTool
var reportSym bool

// Report runs a one-shot report and returns the bytes written to the output file.
// bools must contain the report format (e.g. "top": true). Granularity and sort are always
// given explicitly so nothing depends on earlier runs in this process.
func Report(profs map[string]*profile.Profile, srcs []string, bools map[string]bool, strs map[string]string, ints map[string]int, floats map[string]float64, lists map[string][]string) (string, *UI, Result) {
	b := map[string]bool{}
	for k, v := range bools {
		b[k] = v
	}
	gran := false
	for _, g := range []string{"functions", "filefunctions", "files", "lines", "addresses"} {
		if b[g] {
			gran = true
		}
	}
	if !gran {
		b["functions"] = true
	}
	if !b["cum"] && !b["flat"] {
		b["flat"] = true
	}
	st := map[string]string{"output": "out", "symbolize": "none"}
	for k, v := range strs {
		st[k] = v
	}
	s := &Session{Flags: &Flags{Bools: b, Strs: st, Ints: ints, Floats: floats, Lists: lists, Args: srcs}, Fetch: &MapFetcher{Profiles: profs}, Obj: reportObj}
	if reportSym {
		s.UI = &UI{}
		s.Sym = &symbolizer.Symbolizer{Obj: reportObj, UI: s.UI}
	}
	res := s.Run()
	out := ""
	if bf := s.Writer.Files["out"]; bf != nil {
		out = bf.String()
	}
	return out, s.UI, res
}

// ForceDefaults makes Report/StartWeb always name a granularity and a sort order, so that in a
// process that runs many sessions nothing depends on the previous one. A fresh child process
// sets it to false to exercise pprof's own defaults.
var ForceDefaults = true

// Web starts the web UI of one profile in-process and returns its handlers.
type Web struct {
	Handlers map[string]http.Handler
	UI       *UI
	done     chan struct{}
	Err      error
}

// StartWeb runs PProf with -http and a capturing HTTPServer hook. The hook blocks until Close.
func StartWeb(fetch plugin.Fetcher, srcs []string, bools map[string]bool, strs map[string]string, lists map[string][]string) (*Web, error) {
	w := &Web{done: make(chan struct{}), UI: &UI{}}
	ready := make(chan struct{})
	b := map[string]bool{"no_browser": true}
	for k, v := range bools {
		b[k] = v
	}
	gran := false
	for _, g := range []string{"functions", "filefunctions", "files", "lines", "addresses"} {
		if b[g] {
			gran = true
		}
	}
	if !gran && ForceDefaults {
		b["functions"] = true
	}
	if !b["cum"] && !b["flat"] && ForceDefaults {
		b["flat"] = true
	}
	st := map[string]string{"http": "localhost:0", "symbolize": "none"}
	for k, v := range strs {
		st[k] = v
	}
	s := &Session{Flags: &Flags{Bools: b, Strs: st, Lists: lists, Args: srcs}, Fetch: fetch, UI: w.UI,
		Server: func(args *plugin.HTTPServerArgs) error {
			w.Handlers = args.Handlers
			close(ready)
			<-w.done
			return nil
		}}
	errc := make(chan Result, 1)
	go func() { errc <- s.Run() }()
	select {
	case <-ready:
		return w, nil
	case r := <-errc:
		if r.Panic != "" {
			return nil, fmt.Errorf("panic: %s", r.Panic)
		}
		return nil, fmt.Errorf("web UI did not start: %v", r.Err)
	case <-time.After(60 * time.Second):
		return nil, fmt.Errorf("web UI did not start in 60s")
	}
}

// Close stops the web session.
func (w *Web) Close() { close(w.done) }

// Get invokes a handler directly, recovering panics.
func (w *Web) Get(url string) (code int, body string, panicked string) {
	path := url
	if i := strings.IndexAny(url, "?"); i >= 0 {
		path = url[:i]
	}
	h := w.Handlers[path]
	if h == nil {
		return 404, "404 page not found (no handler registered for this path)", ""
	}
	// the requests the web UI's own scripts send: POST to save a configuration, DELETE to remove one
	method := map[string]string{"/saveconfig": "POST", "/deleteconfig": "DELETE"}[path]
	if method == "" {
		method = "GET"
	}
	req, err := http.NewRequest(method, "http://localhost"+url, nil)
	if err != nil {
		return 400, "bad url: " + err.Error(), ""
	}
	req.RemoteAddr = "127.0.0.1:1"
	rec := httptest.NewRecorder()
	func() {
		defer func() {
			if r := recover(); r != nil {
				panicked = fmt.Sprintf("%v\n%s", r, debug.Stack())
			}
		}()
		h.ServeHTTP(rec, req)
	}()
	return rec.Code, rec.Body.String(), panicked
}

// IsolateEnv points HOME/XDG/PPROF_* into dir so nothing on the machine influences a session.
func IsolateEnv(dir string) {
	os.Setenv("HOME", dir)
	os.Setenv("XDG_CONFIG_HOME", dir+"/config")
	os.Setenv("PPROF_TMPDIR", dir+"/tmp")
	os.Setenv("PPROF_BINARY_PATH", dir+"/bin")
	os.Unsetenv("PPROF_TOOLS")
	os.Unsetenv("BROWSER")
	os.Unsetenv("DISPLAY")
	os.MkdirAll(dir+"/tmp", 0o755)
}

var tmpNameRx = regexp.MustCompile(`(profile|pprof)[0-9]{3,}`)

// NormalizeTmpNames replaces generated temporary file counters.
func NormalizeTmpNames(s string) string { return tmpNameRx.ReplaceAllString(s, "${1}NNN") }
