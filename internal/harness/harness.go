// Package harness is the runner shared by all property checks: it shards a
// deterministic case list over worker processes, collects one verdict per case,
// attributes worker crashes to the case that was running, matches known
// findings, and writes the evidence file.
package harness

import (
	"bufio"
	"bytes"
	"encoding/json"
	"fmt"
	"math/rand"
	"os"
	"os/exec"
	"path/filepath"
	"regexp"
	"runtime"
	"runtime/debug"
	"sort"
	"strconv"
	"strings"
	"sync"
	"sync/atomic"
	"syscall"
	"time"
)

// Verdict values.
const (
	Held         = "held"
	Violated     = "violated"
	Inconclusive = "inconclusive"
	Known        = "known"
)

// Result is the outcome of one case.
type Result struct {
	Case       int              `json:"case"`
	Verdict    string           `json:"verdict"`
	NonTrivial bool             `json:"nontrivial,omitempty"`
	Sig        string           `json:"sig,omitempty"`    // shape signature (distinctness)
	Sample     any              `json:"sample,omitempty"` // literal description of the case
	Detail     string           `json:"detail,omitempty"` // witness for violated / known / inconclusive
	KnownID    string           `json:"known_id,omitempty"`
	Stats      map[string]int64 `json:"stats,omitempty"`
	Sigs       []string         `json:"sigs,omitempty"` // additional distinct things observed
	Maxes      map[string]int64 `json:"maxes,omitempty"`
}

// Ctx is what a case gets.
type Ctx struct {
	ID    string
	Tier  string
	Seed  int64
	Index int
	Rng   *rand.Rand
	Tmp   string // private scratch directory, removed after the case
	res   *Result
}

// Stat adds n to a named counter reported in evidence.
func (c *Ctx) Stat(name string, n int64) {
	if c.res.Stats == nil {
		c.res.Stats = map[string]int64{}
	}
	c.res.Stats[name] += n
}

// Max records the maximum of a named measurement (reported in evidence).
func (c *Ctx) Max(name string, v int64) {
	if c.res.Maxes == nil {
		c.res.Maxes = map[string]int64{}
	}
	if old, ok := c.res.Maxes[name]; !ok || v > old {
		c.res.Maxes[name] = v
	}
}

// Seen records a distinct thing observed (counted across the run).
func (c *Ctx) Seen(sig string) { c.res.Sigs = append(c.res.Sigs, sig) }

// Part is a section of a check's case list.
type Part struct {
	Name  string
	Quick int
	Thor  int
	Run   func(c *Ctx) Result
}

// Check describes one property check.
type Check struct {
	ID          string
	Level       string
	Rule        string
	Assumptions []string
	Parts       []Part
	Race        bool // workers run from the -race build of the runner; race reports are violations
	Workers     int  // 0 = NumCPU
	CaseTimeout time.Duration
	// MinNonTrivial is the floor of distinct non-trivial cases below which the run is broken.
	MinNonTrivial func(tier string) int
	// Finish may look at aggregated counters and return a reason the run is inconclusive.
	Finish func(tier string, stats map[string]int64) string
	// Extra adds keys to coverage.
	Extra func(tier string, stats map[string]int64) map[string]any
	// CrashIsViolation: a worker process that dies is a violation (else broken run).
	CrashIsViolation bool
	// HangTries > 0: a case that exceeds CaseTimeout is re-run alone in fresh worker processes;
	// if it exceeds the timeout HangTries times out of HangTries it is reported as a violation
	// (a hang), with the goroutine dump of the last attempt. Otherwise a timeout is inconclusive.
	HangTries int
}

var registry = map[string]*Check{}

// Register adds a check.
func Register(c *Check) { registry[c.ID] = c }

// Children are extra sub-commands (session children etc.).
var Children = map[string]func(args []string) int{}

func (c *Check) total(tier string) int {
	n := 0
	for _, p := range c.Parts {
		n += p.n(tier)
	}
	return n
}

func (p Part) n(tier string) int {
	n := p.Quick
	if tier == "thorough" {
		n = p.Thor
	}
	// VERIF_SCALE is a development aid (never set by registered commands).
	if v := os.Getenv("VERIF_SCALE"); v != "" && n > 0 {
		if f, err := strconv.ParseFloat(v, 64); err == nil && f > 0 {
			n = int(float64(n) * f)
			if n < 1 {
				n = 1
			}
		}
	}
	return n
}

func (c *Check) locate(tier string, idx int) (Part, int) {
	for _, p := range c.Parts {
		if idx < p.n(tier) {
			return p, idx
		}
		idx -= p.n(tier)
	}
	panic("case index out of range")
}

func splitmix(x uint64) uint64 {
	x += 0x9e3779b97f4a7c15
	x = (x ^ (x >> 30)) * 0xbf58476d1ce4e5b9
	x = (x ^ (x >> 27)) * 0x94d049bb133111eb
	return x ^ (x >> 31)
}

func caseSeed(seed int64, id string, idx int) int64 {
	h := uint64(seed)
	for _, b := range []byte(id) {
		h = splitmix(h ^ uint64(b))
	}
	return int64(splitmix(h^uint64(idx)) >> 1)
}

// RunCase executes one case in this process.
func (c *Check) RunCase(tier string, seed int64, idx int) (res Result) {
	part, local := c.locate(tier, idx)
	tmp, _ := os.MkdirTemp("", "verif-"+c.ID+"-")
	defer os.RemoveAll(tmp)
	ctx := &Ctx{ID: c.ID, Tier: tier, Seed: seed, Index: local, Rng: rand.New(rand.NewSource(caseSeed(seed, c.ID+"/"+part.Name, local))), Tmp: tmp}
	res.Case = idx
	ctx.res = &res
	defer func() {
		if r := recover(); r != nil {
			st := res.Stats
			sg := res.Sigs
			res = Result{Case: idx, Verdict: Violated, Detail: fmt.Sprintf("panic in part %s: %v\n%s", part.Name, r, debug.Stack()), Stats: st, Sigs: sg}
		}
	}()
	out := part.Run(ctx)
	out.Case = idx
	if out.Stats == nil {
		out.Stats = res.Stats
	} else {
		for k, v := range res.Stats {
			out.Stats[k] += v
		}
	}
	out.Sigs = append(out.Sigs, res.Sigs...)
	if out.Maxes == nil {
		out.Maxes = res.Maxes
	}
	if out.Verdict == "" {
		out.Verdict = Held
	}
	if out.Stats == nil {
		out.Stats = map[string]int64{}
	}
	out.Stats["part."+part.Name]++
	return out
}

// Main is the entry point of the runner binary.
func Main() {
	if len(os.Args) < 2 {
		fmt.Fprintln(os.Stderr, "usage: vcheck run <ID> <quick|thorough> | replay <ID> <path> | worker ... | child <name> ...")
		os.Exit(2)
	}
	switch os.Args[1] {
	case "run":
		c := registry[os.Args[2]]
		if c == nil {
			fmt.Fprintln(os.Stderr, "unknown check", os.Args[2])
			os.Exit(2)
		}
		os.Exit(coordinate(c, os.Args[3]))
	case "worker":
		c := registry[os.Args[2]]
		seed, _ := strconv.ParseInt(os.Args[4], 10, 64)
		worker(c, os.Args[3], seed)
	case "case": // vcheck case <ID> <tier> <seed> <index>: run one case in this process and print its result
		c := registry[os.Args[2]]
		seed, _ := strconv.ParseInt(os.Args[4], 10, 64)
		idx, _ := strconv.Atoi(os.Args[5])
		r := c.RunCase(os.Args[3], seed, idx)
		b, _ := json.MarshalIndent(r, "", " ")
		fmt.Println(string(b))
	case "replay":
		c := registry[os.Args[2]]
		os.Exit(replay(c, os.Args[3]))
	case "child":
		f := Children[os.Args[2]]
		if f == nil {
			fmt.Fprintln(os.Stderr, "unknown child", os.Args[2])
			os.Exit(2)
		}
		os.Exit(f(os.Args[3:]))
	case "parts": // one line per check: level and parts with quick/thorough sizes
		var ids []string
		for id := range registry {
			ids = append(ids, id)
		}
		sort.Strings(ids)
		for _, id := range ids {
			c := registry[id]
			var ps []string
			for _, p := range c.Parts {
				ps = append(ps, fmt.Sprintf("%s %d/%d", p.Name, p.Quick, p.Thor))
			}
			fmt.Printf("| %s | %s | %s |\n", id, c.Level, strings.Join(ps, "; "))
		}
	case "list":
		var ids []string
		for id := range registry {
			ids = append(ids, id)
		}
		sort.Strings(ids)
		fmt.Println(strings.Join(ids, " "))
	default:
		os.Exit(2)
	}
}

func worker(c *Check, tier string, seed int64) {
	in := bufio.NewScanner(os.Stdin)
	// results travel on fd 3; anything the code under test prints to stdout goes to the log
	out := bufio.NewWriter(os.NewFile(3, "results"))
	os.Stdout = os.Stderr
	for in.Scan() {
		idx, err := strconv.Atoi(strings.TrimSpace(in.Text()))
		if err != nil {
			continue
		}
		fmt.Fprintf(os.Stderr, "START %d\n", idx)
		r := c.RunCase(tier, seed, idx)
		b, err := json.Marshal(r)
		if err != nil {
			r.Sample = fmt.Sprint(r.Sample)
			b, _ = json.Marshal(r)
		}
		out.Write(b)
		out.WriteByte('\n')
		out.Flush()
	}
}

// Self is the path of the running binary.
func Self() string {
	p, err := os.Executable()
	if err != nil {
		return os.Args[0]
	}
	return p
}

type replayFile struct {
	Property string `json:"property"`
	Tier     string `json:"tier"`
	Seed     int64  `json:"seed"`
	Case     int    `json:"case"`
	Result   Result `json:"result"`
}

func replay(c *Check, path string) int {
	b, err := os.ReadFile(path)
	if err != nil {
		fmt.Fprintln(os.Stderr, err)
		return 2
	}
	var rf replayFile
	if err := json.Unmarshal(b, &rf); err != nil {
		fmt.Fprintln(os.Stderr, err)
		return 2
	}
	if rf.Case < 0 {
		// a race-detector report is not tied to one case: show it; re-run the check to reproduce
		fmt.Println(rf.Result.Detail)
		fmt.Printf("VIOLATION property=%s replay=%s\n", c.ID, path)
		return 1
	}
	r := c.RunCase(rf.Tier, rf.Seed, rf.Case)
	out, _ := json.MarshalIndent(r, "", " ")
	fmt.Println(string(out))
	if r.Verdict == Violated {
		fmt.Printf("VIOLATION property=%s replay=%s\n", c.ID, path)
		return 1
	}
	return 0
}

func verifDir() string {
	if d := os.Getenv("VERIF_DIR"); d != "" {
		return d
	}
	return "/verif"
}

func outDir() string {
	if d := os.Getenv("VERIF_OUT_DIR"); d != "" {
		return d
	}
	return verifDir()
}

func coordinate(c *Check, tier string) int {
	start := time.Now()
	seed := int64(1)
	if s := os.Getenv("VERIF_SEED"); s != "" {
		if v, err := strconv.ParseInt(s, 10, 64); err == nil {
			seed = v
		}
	}
	total := c.total(tier)
	nw := c.Workers
	if nw == 0 {
		nw = runtime.NumCPU()
	}
	if nw > total {
		nw = total
	}
	timeout := c.CaseTimeout
	if timeout == 0 {
		timeout = 5 * time.Minute
	}
	known := loadKnown()

	jobs := make(chan int, total)
	for i := 0; i < total; i++ {
		jobs <- i
	}
	close(jobs)
	results := make(chan Result, 256)
	var wg sync.WaitGroup
	logdir, _ := os.MkdirTemp("", "verif-log-"+c.ID+"-")
	defer os.RemoveAll(logdir)
	for w := 0; w < nw; w++ {
		wg.Add(1)
		go func(w int) {
			defer wg.Done()
			runWorker(c, tier, seed, w, logdir, jobs, results, timeout)
		}(w)
	}
	go func() { wg.Wait(); close(results) }()

	agg := map[string]int64{}
	maxes := map[string]int64{}
	sigs := map[string]bool{}
	seen := map[string]bool{}
	var samples []any
	var viol []Result
	knownHits := map[string]int{}
	knownDetail := map[string]string{}
	var inconc []Result
	evals := 0
	for r := range results {
		evals++
		for k, v := range r.Stats {
			agg[k] += v
		}
		for _, s := range r.Sigs {
			seen[s] = true
		}
		for k, v := range r.Maxes {
			if old, ok := maxes[k]; !ok || v > old {
				maxes[k] = v
			}
		}
		switch r.Verdict {
		case Violated:
			viol = append(viol, r)
		case Inconclusive:
			inconc = append(inconc, r)
		case Known:
			if k, ok := known[r.KnownID]; ok && k.Property == c.ID && k.Status == "known" {
				knownHits[r.KnownID]++
				if knownDetail[r.KnownID] == "" {
					knownDetail[r.KnownID] = r.Detail
				}
			} else {
				r.Detail = "deviation claimed as known finding " + r.KnownID + " which is not listed as known: " + r.Detail
				viol = append(viol, r)
			}
		}
		if r.NonTrivial && r.Verdict != Inconclusive {
			sg := r.Sig
			if sg == "" {
				sg = fmt.Sprint(r.Case)
			}
			if !sigs[sg] {
				sigs[sg] = true
				if len(samples) < 4 && r.Sample != nil {
					samples = append(samples, r.Sample)
				}
			}
		}
	}
	raceReports := 0
	if c.Race {
		for sig, block := range collectRaces(logdir) {
			raceReports++
			viol = append(viol, Result{Case: -1, Verdict: Violated, Detail: "DATA RACE reported by the Go race detector (" + sig + "):\n" + block})
		}
		agg["race_reports_distinct"] = int64(raceReports)
	}
	sort.Slice(viol, func(i, j int) bool { return viol[i].Case < viol[j].Case })

	status := 0
	var notes []string
	if c.Finish != nil {
		if why := c.Finish(tier, agg); why != "" {
			notes = append(notes, "inconclusive: "+why)
			status = 3
		}
	}
	minNT := 2
	if c.MinNonTrivial != nil {
		minNT = c.MinNonTrivial(tier)
	}
	if len(sigs) < minNT {
		notes = append(notes, fmt.Sprintf("broken run: only %d distinct non-trivial cases (< %d)", len(sigs), minNT))
		status = 3
	}
	if len(samples) == 0 {
		samples = append(samples, "none")
	}
	ids := make([]string, 0, len(knownHits))
	for id := range knownHits {
		ids = append(ids, id)
	}
	sort.Strings(ids)
	for _, id := range ids {
		if l := known[id].Line; strings.HasPrefix(l, "KNOWN-FINDING: property="+c.ID+" ") {
			fmt.Printf("%s [%s; matched %d cases; e.g. %s]\n", l, id, knownHits[id], oneLine(knownDetail[id], 240))
		} else {
			fmt.Printf("KNOWN-FINDING: property=%s %s: %s (matched %d cases; e.g. %s)\n", c.ID, id, known[id].What, knownHits[id], oneLine(knownDetail[id], 300))
		}
	}
	rdir := filepath.Join(outDir(), "replays")
	for i, v := range viol {
		if i >= 5 {
			break
		}
		os.MkdirAll(rdir, 0o755)
		path := filepath.Join(rdir, fmt.Sprintf("%s-%s-seed%d-case%d.json", c.ID, tier, seed, v.Case))
		b, _ := json.MarshalIndent(replayFile{Property: c.ID, Tier: tier, Seed: seed, Case: v.Case, Result: v}, "", " ")
		os.WriteFile(path, b, 0o644)
		fmt.Printf("VIOLATION property=%s replay=%s\n", c.ID, path)
		fmt.Printf("  detail: %s\n", oneLine(v.Detail, 700))
	}
	if len(viol) > 0 {
		status = 1
	}
	cov := map[string]any{
		"evaluations":         evals,
		"distinct_nontrivial": len(sigs),
		"rule":                c.Rule,
		"samples":             samples,
		"counters":            agg,
		"maxima":              maxes,
		"distinct_observed":   len(seen),
		"inconclusive_cases":  len(inconc),
		"known_finding_hits":  knownHits,
		"workers":             nw,
	}
	if len(inconc) > 0 {
		var ids []int
		for i, r := range inconc {
			if i < 10 {
				ids = append(ids, r.Case)
			}
		}
		cov["inconclusive_case_ids"] = ids
		cov["inconclusive_example"] = oneLine(inconc[0].Detail, 400)
	}
	if len(notes) > 0 {
		cov["notes"] = notes
	}
	if c.Extra != nil {
		for k, v := range c.Extra(tier, agg) {
			cov[k] = v
		}
	}
	ev := map[string]any{
		"property_id": c.ID,
		"tier":        tier,
		"seed":        seed,
		"level":       c.Level,
		"coverage":    cov,
		"assumptions": c.Assumptions,
		"wall_s":      time.Since(start).Seconds(),
		"violations":  len(viol),
	}
	edir := filepath.Join(outDir(), "evidence")
	os.MkdirAll(edir, 0o755)
	b, _ := json.MarshalIndent(ev, "", " ")
	if err := os.WriteFile(filepath.Join(edir, c.ID+".json"), append(b, '\n'), 0o644); err != nil {
		fmt.Fprintln(os.Stderr, "cannot write evidence:", err)
		return 2
	}
	fmt.Printf("%s %s seed=%d: %d cases, %d distinct non-trivial, %d violations, %d inconclusive, %d known-finding hits, %.1fs\n",
		c.ID, tier, seed, evals, len(sigs), len(viol), len(inconc), len(knownHits), time.Since(start).Seconds())
	for _, n := range notes {
		fmt.Println("NOTE:", n)
	}
	return status
}

func oneLine(s string, max int) string {
	s = strings.ReplaceAll(s, "\n", " | ")
	if len(s) > max {
		s = s[:max] + "…"
	}
	return s
}

var hangEstablished atomic.Bool

func runWorker(c *Check, tier string, seed int64, w int, logdir string, jobs <-chan int, results chan<- Result, timeout time.Duration) {
	type proc struct {
		cmd    *exec.Cmd
		stdin  *bufio.Writer
		stdout *bufio.Reader
		errf   string
		closer func()
	}
	startProc := func() (*proc, error) {
		exe := Self()
		if c.Race {
			exe = filepath.Join(os.Getenv("VERIF_BIN"), "vcheck-race")
		}
		cmd := exec.Command(exe, "worker", c.ID, tier, strconv.FormatInt(seed, 10))
		errf := filepath.Join(logdir, fmt.Sprintf("w%d.err", w))
		ef, err := os.Create(errf)
		if err != nil {
			return nil, err
		}
		cmd.Stderr = ef
		inp, _ := cmd.StdinPipe()
		outp, outw, err := os.Pipe()
		if err != nil {
			ef.Close()
			return nil, err
		}
		cmd.Stdout = ef
		cmd.ExtraFiles = []*os.File{outw}
		// every scratch directory of the worker lives under the run's log directory, which the
		// coordinator removes at the end even if a worker dies
		wtmp := filepath.Join(logdir, fmt.Sprintf("tmp-w%d", w))
		os.MkdirAll(wtmp, 0o755)
		cmd.Env = append(os.Environ(), "VERIF_WORKER="+strconv.Itoa(w), "TMPDIR="+wtmp)
		if c.Race {
			cmd.Env = append(cmd.Env, "GORACE=halt_on_error=0 log_path="+filepath.Join(logdir, "race"))
		}
		if err := cmd.Start(); err != nil {
			ef.Close()
			outw.Close()
			outp.Close()
			return nil, err
		}
		outw.Close()
		return &proc{cmd: cmd, stdin: bufio.NewWriter(inp), stdout: bufio.NewReaderSize(outp, 1<<20), errf: errf, closer: func() { inp.Close(); ef.Close(); outp.Close() }}, nil
	}
	var p *proc
	stop := func() {
		if p != nil {
			p.closer()
			p.cmd.Process.Kill()
			p.cmd.Wait()
			p = nil
		}
	}
	defer stop()
	// attempt runs one case on the current worker (starting one if needed).
	attempt := func(idx int, quit bool) (r Result, timedOut bool) {
		if p == nil {
			var err error
			if p, err = startProc(); err != nil {
				return Result{Case: idx, Verdict: Inconclusive, Detail: "cannot start worker: " + err.Error()}, false
			}
		}
		fmt.Fprintf(p.stdin, "%d\n", idx)
		p.stdin.Flush()
		type rd struct {
			line []byte
			err  error
		}
		ch := make(chan rd, 1)
		go func(r *bufio.Reader) {
			line, err := r.ReadBytes('\n')
			ch <- rd{line, err}
		}(p.stdout)
		select {
		case got := <-ch:
			if got.err != nil {
				// worker died
				p.cmd.Wait()
				tail := tailFile(p.errf, 6000)
				stop()
				v := Inconclusive
				if c.CrashIsViolation || strings.Contains(tail, "panic:") || strings.Contains(tail, "fatal error:") || strings.Contains(tail, "DATA RACE") {
					v = Violated
				}
				return Result{Case: idx, Verdict: v, Detail: "worker process died while running this case; stderr tail:\n" + tail}, false
			}
			var r Result
			if err := json.Unmarshal(got.line, &r); err != nil {
				return Result{Case: idx, Verdict: Inconclusive, Detail: "bad worker reply: " + err.Error()}, false
			}
			return r, false
		case <-time.After(timeout):
			n := 2000
			if quit {
				// ask the Go runtime for a goroutine dump before killing the worker
				p.cmd.Process.Signal(syscall.SIGQUIT)
				time.Sleep(2 * time.Second)
				n = 12000
			} else {
				p.cmd.Process.Signal(os.Interrupt)
			}
			tail := tailFile(p.errf, n)
			if quit {
				if b, err := os.ReadFile(p.errf); err == nil {
					if i := bytes.LastIndex(b, []byte("SIGQUIT: quit")); i >= 0 {
						tail = dumpSummary(string(b[i:]))
					}
				}
			}
			stop()
			return Result{Case: idx, Verdict: Inconclusive, Detail: fmt.Sprintf("watchdog: case did not finish in %v (inconclusive, not a violation); stderr tail:\n%s", timeout, tail)}, true
		}
	}
	for idx := range jobs {
		if hangEstablished.Load() {
			// one confirmed hang decides the run; the remaining cases are not worth 3 timeouts each
			results <- Result{Case: idx, Verdict: Inconclusive, Detail: "not run: a hang had already been established in this run"}
			continue
		}
		r, timedOut := attempt(idx, false)
		if timedOut && c.HangTries > 1 {
			hung := 1
			for hung < c.HangTries {
				stop() // fresh process for every further attempt
				r2, to := attempt(idx, hung == c.HangTries-1)
				if !to {
					r = r2
					break
				}
				hung++
				r = r2
			}
			if hung == c.HangTries {
				hangEstablished.Store(true)
				r = Result{Case: idx, Verdict: Violated, Detail: fmt.Sprintf("hang: the case did not finish within %v in %d of %d fresh worker processes; goroutine dump of the last attempt:\n%s", timeout, hung, c.HangTries, r.Detail)}
			}
		}
		results <- r
	}
}

// dumpSummary keeps the goroutines of a SIGQUIT dump that are inside the code under test.
func dumpSummary(dump string) string {
	var keep []string
	for _, blk := range strings.Split(dump, "\n\n") {
		if !strings.HasPrefix(blk, "goroutine ") || !strings.Contains(blk, "github.com/google/pprof/") {
			continue
		}
		inTarget := false
		for _, l := range strings.Split(blk, "\n") {
			if strings.HasPrefix(l, "github.com/google/pprof/") && !strings.HasPrefix(l, "github.com/google/pprof/verif/") {
				inTarget = true
			}
		}
		if inTarget && len(keep) < 4 {
			keep = append(keep, Trunc(blk, 1500))
		}
	}
	if len(keep) == 0 {
		return Trunc(dump, 6000)
	}
	return "SIGQUIT dump, goroutines inside pprof code:\n" + strings.Join(keep, "\n\n")
}

func tailFile(path string, n int) string {
	b, err := os.ReadFile(path)
	if err != nil {
		return ""
	}
	if len(b) > n {
		b = b[len(b)-n:]
	}
	return string(b)
}

var raceFrameRx = regexp.MustCompile(`(?m)^  ([A-Za-z0-9_./*()\[\]-]+)\(`)

// collectRaces reads the race detector's log files and de-duplicates the reports by the
// functions on top of the two stacks (line numbers stripped).
func collectRaces(logdir string) map[string]string {
	out := map[string]string{}
	files, _ := filepath.Glob(filepath.Join(logdir, "race.*"))
	for _, f := range files {
		b, err := os.ReadFile(f)
		if err != nil {
			continue
		}
		for _, block := range strings.Split(string(b), "==================") {
			if !strings.Contains(block, "WARNING: DATA RACE") {
				continue
			}
			var tops []string
			for _, part := range strings.Split(block, "\n\n") {
				if m := raceFrameRx.FindStringSubmatch(part); m != nil && (strings.Contains(part, "by goroutine") || strings.Contains(part, "by main goroutine")) {
					tops = append(tops, m[1])
				}
			}
			sort.Strings(tops)
			sig := strings.Join(tops, " <-> ")
			if _, ok := out[sig]; !ok {
				if len(block) > 6000 {
					block = block[:6000]
				}
				out[sig] = block
			}
		}
	}
	return out
}

// KnownFinding is one entry of known_findings.json.
type KnownFinding struct {
	Property string `json:"property"`
	ID       string `json:"id"`
	Status   string `json:"status"` // "known" or "fixed"
	Commit   string `json:"commit,omitempty"`
	Site     string `json:"site,omitempty"`
	What     string `json:"what"`
	Line     string `json:"line,omitempty"`
}

func loadKnown() map[string]KnownFinding {
	m := map[string]KnownFinding{}
	b, err := os.ReadFile(filepath.Join(verifDir(), "known_findings.json"))
	if err != nil {
		return m
	}
	var f struct {
		Findings []KnownFinding `json:"findings"`
	}
	if err := json.Unmarshal(b, &f); err != nil {
		fmt.Fprintln(os.Stderr, "known_findings.json:", err)
		return m
	}
	for _, k := range f.Findings {
		m[k.ID] = k
	}
	return m
}

// Helpers for checks -------------------------------------------------------

// Violation builds a violated result.
func Violation(format string, a ...any) Result {
	return Result{Verdict: Violated, Detail: fmt.Sprintf(format, a...)}
}

// Trunc shortens a string for samples/details.
func Trunc(s string, n int) string {
	if len(s) > n {
		return s[:n] + "…"
	}
	return s
}
