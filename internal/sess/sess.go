// Package sess runs one pprof session (interactive or web) in a fresh child process, so that
// every session starts from pristine global state, and returns a per-command transcript.
package sess

import (
	"bytes"
	"encoding/base64"
	"encoding/json"
	"fmt"
	"github.com/google/pprof/internal/binutils"
	"github.com/google/pprof/internal/plugin"
	"io"
	"os"
	"os/exec"
	"path/filepath"
	"strings"
	"sync"
	"syscall"
	"time"
	"unicode/utf8"

	"github.com/google/pprof/profile"
	"github.com/google/pprof/verif/internal/drv"
	"github.com/google/pprof/verif/internal/harness"
	"github.com/google/pprof/verif/internal/mon"
)

// Spec describes a session.
type Spec struct {
	Profile  []byte            // serialized profile (uncompressed proto)
	Mode     string            // "interactive" or "web"
	Lines    []string          // interactive input lines
	Requests []string          // web request URLs (path?query)
	Bools    map[string]bool   // command-line flags
	Strs     map[string]string // command-line flags
	Dir      string            // private scratch directory (HOME, XDG_CONFIG_HOME, tmp, cwd)
	Settings string            // initial contents of settings.json ("" = none)
	// Concurrency > 1: web requests are issued by that many client goroutines.
	Concurrency int
	// OSWriter: output files are written by pprof itself into the session directory (instead of
	// being captured by a Writer plug-in)
	OSWriter bool
	// RealObj: the object tool is pprof's own binutils wrapper (addr2line, nm, objdump from /usr/bin)
	RealObj bool
	// Path is the child's PATH (default: an empty directory, so that no viewer or tool is found)
	Path string
	// LineDelayMs: wait that long before handing pprof each interactive line after the first
	LineDelayMs int
	// Tools overrides the tool directories used with RealObj ("objdump:/dir,nm:/usr/bin,...")
	Tools string
}

// Segment is what one interactive line / one request produced.
type Segment struct {
	Input  string
	Stdout string
	UIOut  []string
	UIErr  []string
	Files  map[string]string // files written through the Writer plug-in or into the cwd
	Code   int               // web: HTTP status
	Body   string            // web: response body
	Panic  string
}

// Result is the transcript of a session.
type Result struct {
	Segments         []Segment
	Greeting         Segment
	Err              string
	Panic            string
	Reads            int  // number of ReadLine calls (interactive)
	ProfileUnchanged bool // the loaded profile object never changed between commands
	ProfileChangedAt string
	SettingsAfter    string
	Overlaps         int // web, concurrent: number of request pairs whose executions really overlapped
}

// Run executes the spec in a fresh child process of the runner binary.
func Run(spec Spec, timeout time.Duration) (*Result, error) {
	b, _ := json.Marshal(spec)
	os.MkdirAll(filepath.Join(spec.Dir, "tmp"), 0o755)
	cmd := exec.Command(harness.Self(), "child", "session")
	cmd.Stdin = bytes.NewReader(b)
	var out, errb bytes.Buffer
	cmd.Stdout, cmd.Stderr = &out, &errb
	cmd.Env = append(os.Environ(), "HOME="+spec.Dir, "XDG_CONFIG_HOME="+filepath.Join(spec.Dir, "config"), "PPROF_TMPDIR="+filepath.Join(spec.Dir, "tmp"), "PPROF_BINARY_PATH="+filepath.Join(spec.Dir, "bin"), "TZ=UTC", "TMPDIR="+filepath.Join(spec.Dir, "tmp"),
		// no external viewers (sensible-browser etc.) or tools: commands that need them must report an error
		"PATH="+pathOf(spec))
	cmd.Dir = spec.Dir
	if err := cmd.Start(); err != nil {
		return nil, err
	}
	done := make(chan error, 1)
	go func() { done <- cmd.Wait() }()
	select {
	case err := <-done:
		// the result is written to fd 3-like channel: the last line of stdout starting with the marker
		idx := bytes.LastIndex(out.Bytes(), []byte(marker))
		if idx < 0 {
			return nil, fmt.Errorf("child died without a result (exit: %v); stderr tail: %s", err, tail(errb.String(), 3000))
		}
		var r Result
		if e := json.Unmarshal(out.Bytes()[idx+len(marker):], &r); e != nil {
			return nil, fmt.Errorf("child result unparseable: %v", e)
		}
		return &r, nil
	case <-time.After(timeout):
		cmd.Process.Signal(syscall.SIGQUIT) // goroutine dump on stderr
		select {
		case <-done:
		case <-time.After(3 * time.Second):
			cmd.Process.Kill()
		}
		return nil, fmt.Errorf("TIMEOUT after %v; stderr: %s", timeout, tail(errb.String(), 20000))
	}
}

func tail(s string, n int) string {
	if len(s) > n {
		return s[len(s)-n:]
	}
	return s
}

const marker = "\n@@SESSION-RESULT@@"

// FileText is how file contents travel in a transcript: text as it is, anything that is not
// valid UTF-8 as "b64:" + base64 (JSON strings cannot carry arbitrary bytes).
func FileText(b []byte) string {
	if utf8.Valid(b) {
		return string(b)
	}
	return "b64:" + base64.StdEncoding.EncodeToString(b)
}

// FileBytes undoes FileText.
func FileBytes(s string) []byte {
	if strings.HasPrefix(s, "b64:") {
		if b, err := base64.StdEncoding.DecodeString(s[4:]); err == nil {
			return b
		}
	}
	return []byte(s)
}

func listFiles(dir string, seen map[string]string) map[string]string {
	out := map[string]string{}
	filepath.Walk(dir, func(path string, info os.FileInfo, err error) error {
		if err != nil || info.IsDir() || strings.Contains(path, "/seg/") || strings.Contains(path, "/config/") {
			return nil
		}
		b, _ := os.ReadFile(path)
		if len(b) > 1<<16 {
			b = b[:1<<16]
		}
		// every listed file is given a fixed modification time far in the past: a later write of
		// the same bytes (even within the file system's timestamp granularity) moves it away from it
		listed := time.Unix(1000000000, 0)
		stamp := fmt.Sprint(info.Size(), ":") + string(b)
		if old, ok := seen[path]; ok && old == stamp && info.ModTime().Equal(listed) {
			return nil // neither new nor written since it was last listed
		}
		seen[path] = stamp
		os.Chtimes(path, listed, listed)
		rel, _ := filepath.Rel(dir, path)
		out[rel] = FileText(b)
		return nil
	})
	return out
}

// the child's PATH is empty: tools are named by directory
const realTools = "addr2line:/usr/bin,nm:/usr/bin,objdump:/usr/bin,llvm-symbolizer:/nonexistent"

func pathOf(spec Spec) string {
	if spec.Path != "" {
		return spec.Path
	}
	return filepath.Join(spec.Dir, "nopath")
}

func toolsOf(spec Spec) string {
	if spec.Tools != "" {
		return spec.Tools
	}
	return realTools
}

func realObj(spec Spec) plugin.ObjTool {
	if !spec.RealObj {
		return nil
	}
	bu := &binutils.Binutils{}
	bu.SetTools(toolsOf(spec))
	return bu
}

// Child is the entry point inside the child process.
func Child(args []string) int {
	in, _ := io.ReadAll(os.Stdin)
	var spec Spec
	if err := json.Unmarshal(in, &spec); err != nil {
		fmt.Fprintln(os.Stderr, "bad spec:", err)
		return 2
	}
	realStdout := os.Stdout
	res := &Result{ProfileUnchanged: true}
	emit := func() {
		b, _ := json.Marshal(res)
		realStdout.WriteString(marker)
		realStdout.Write(b)
	}
	drv.IsolateEnv(spec.Dir)
	drv.ForceDefaults = false
	os.Chdir(spec.Dir)
	if spec.Settings != "" {
		os.MkdirAll(filepath.Join(spec.Dir, "config", "pprof"), 0o755)
		os.WriteFile(filepath.Join(spec.Dir, "config", "pprof", "settings.json"), []byte(spec.Settings), 0o644)
	}
	p, err := profile.ParseUncompressed(spec.Profile)
	if err != nil {
		fmt.Fprintln(os.Stderr, "bad profile:", err)
		return 2
	}
	fp0 := mon.Fingerprint(p)
	fetch := &drv.MapFetcher{Profiles: map[string]*profile.Profile{"p": p}, Exact: true}
	bools := map[string]bool{}
	for k, v := range spec.Bools {
		bools[k] = v
	}
	strs := map[string]string{"symbolize": "none"}
	for k, v := range spec.Strs {
		strs[k] = v
	}
	if spec.RealObj {
		strs["tools"] = toolsOf(spec) // the driver configures the object tool from this flag
	}
	segDir := filepath.Join(spec.Dir, "seg")
	os.MkdirAll(segDir, 0o755)
	seenFiles := map[string]string{}
	switch spec.Mode {
	case "interactive":
		ui := &drv.UI{Lines: spec.Lines}
		w := &drv.Writer{}
		var cur *os.File
		var uiOutPos, uiErrPos, filePos int
		closeSeg := func(i int) {
			seg := Segment{}
			if i >= 0 && i < len(spec.Lines) {
				seg.Input = spec.Lines[i]
			}
			if cur != nil {
				cur.Close()
				b, _ := os.ReadFile(cur.Name())
				seg.Stdout = string(b)
			}
			seg.UIOut = append([]string(nil), ui.Out[uiOutPos:]...)
			seg.UIErr = append([]string(nil), ui.Errs[uiErrPos:]...)
			uiOutPos, uiErrPos = len(ui.Out), len(ui.Errs)
			seg.Files = listFiles(spec.Dir, seenFiles)
			for _, name := range w.Order[filePos:] {
				seg.Files["writer:"+name] = FileText(w.Files[name].Bytes())
			}
			filePos = len(w.Order)
			if fp := mon.Fingerprint(p); fp != fp0 && res.ProfileUnchanged {
				res.ProfileUnchanged = false
				res.ProfileChangedAt = fmt.Sprintf("after line %d (%q)", i, seg.Input)
			}
			if i < 0 {
				res.Greeting = seg
			} else {
				res.Segments = append(res.Segments, seg)
			}
		}
		ui.OnRead = func(i int) {
			res.Reads++
			if i > 0 && spec.LineDelayMs > 0 {
				time.Sleep(time.Duration(spec.LineDelayMs) * time.Millisecond)
			}
			if i == 0 {
				// pprof owns the fetched profile while loading it (drop_frames, mapping clean-up);
				// the pristine state is the one at the first prompt
				fp0 = mon.Fingerprint(p)
			}
			closeSeg(i - 1)
			f, err := os.Create(filepath.Join(segDir, fmt.Sprintf("out%04d", i)))
			if err == nil {
				cur = f
				os.Stdout = f
			}
		}
		gran := false
		for _, g := range []string{"functions", "filefunctions", "files", "lines", "addresses"} {
			if bools[g] {
				gran = true
			}
		}
		_ = gran
		s := &drv.Session{Flags: &drv.Flags{Bools: bools, Strs: strs, Args: []string{"p"}}, Fetch: fetch, UI: ui, Writer: w, OSWriter: spec.OSWriter, Obj: realObj(spec)}
		r := s.Run()
		os.Stdout = realStdout
		if r.Err != nil {
			res.Err = r.Err.Error()
		}
		res.Panic = r.Panic
		// the EOF read closed the last segment already (OnRead with i == len(lines)); drop the trailing empty one
		if cur != nil {
			cur.Close()
		}
	case "web":
		strs["http"] = "localhost:0"
		bools["no_browser"] = true
		web, err := drv.StartWeb(fetch, []string{"p"}, bools, strs, nil)
		if err != nil {
			res.Err = err.Error()
			emit()
			return 0
		}
		fp0 = mon.Fingerprint(p) // pristine state = after loading
		if spec.Concurrency > 1 {
			res.Segments = make([]Segment, len(spec.Requests))
			type stamp struct{ call, ret int64 }
			stamps := make([]stamp, len(spec.Requests))
			var clock int64
			var mu sync.Mutex
			tick := func() int64 { mu.Lock(); clock++; v := clock; mu.Unlock(); return v }
			jobs := make(chan int, len(spec.Requests))
			for i := range spec.Requests {
				jobs <- i
			}
			close(jobs)
			var wg sync.WaitGroup
			for k := 0; k < spec.Concurrency; k++ {
				wg.Add(1)
				go func() {
					defer wg.Done()
					for i := range jobs {
						stamps[i].call = tick()
						code, body, pn, answered := getWithin(web, spec.Requests[i])
						stamps[i].ret = tick()
						if !answered {
							code, body = NoAnswer, "no answer"
						}
						res.Segments[i] = Segment{Input: spec.Requests[i], Code: code, Body: body, Panic: pn}
					}
				}()
			}
			wg.Wait()
			for i := range stamps {
				for j := i + 1; j < len(stamps); j++ {
					if stamps[i].call < stamps[j].ret && stamps[j].call < stamps[i].ret {
						res.Overlaps++
					}
				}
			}
			if fp := mon.Fingerprint(p); fp != fp0 {
				res.ProfileUnchanged = false
				res.ProfileChangedAt = "during the concurrent requests"
			}
			web.Close()
			break
		}
		for i, u := range spec.Requests {
			code, body, pn, answered := getWithin(web, u)
			if !answered {
				// the handler never returned: the server is stuck, the rest of the history is not sent
				res.Segments = append(res.Segments, Segment{Input: u, Code: NoAnswer, Body: "no answer"})
				for _, v := range spec.Requests[i+1:] {
					res.Segments = append(res.Segments, Segment{Input: v, Code: NotSent, Body: "not sent"})
				}
				emit()
				return 0
			}
			seg := Segment{Input: u, Code: code, Body: body, Panic: pn, UIErr: append([]string(nil), web.UI.Errs...)}
			web.UI.Errs = nil
			if fp := mon.Fingerprint(p); fp != fp0 && res.ProfileUnchanged {
				res.ProfileUnchanged = false
				res.ProfileChangedAt = "after request " + u
			}
			res.Segments = append(res.Segments, seg)
		}
		web.Close()
	}
	if b, err := os.ReadFile(filepath.Join(spec.Dir, "config", "pprof", "settings.json")); err == nil {
		res.SettingsAfter = string(b)
	}
	emit()
	return 0
}

func init() { harness.Children["session"] = Child }

// NoAnswer is the status recorded for a web request whose handler did not return within
// answerLimit; NotSent marks the requests of a sequential history after such a request. Callers
// must not turn a single NoAnswer into a verdict (see checks/c10: three fresh sessions).
const (
	NoAnswer = -1
	NotSent  = -2
)

var answerLimit = 25 * time.Second

func getWithin(web *drv.Web, u string) (code int, body, pn string, answered bool) {
	type ans struct {
		code     int
		body, pn string
	}
	ch := make(chan ans, 1)
	go func() {
		c, b, p := web.Get(u)
		ch <- ans{c, b, p}
	}()
	select {
	case a := <-ch:
		return a.code, a.body, a.pn, true
	case <-time.After(answerLimit):
		return 0, "", "", false
	}
}
