package ref

import (
	"fmt"
	"path/filepath"
	"sort"
	"strconv"
	"strings"

	"github.com/google/pprof/profile"
)

// NodeKey is the identity of a report entry: the attributes that survive the chosen granularity.
type NodeKey struct {
	Name  string
	File  string
	Line  int64
	Col   int64
	Addr  uint64
	Obj   string
	Start int64
}

// Printable is the entry's display name as documented (address, function, file:line[:col] |
// file | [binary] | <unknown>).
func (k NodeKey) Printable() string {
	var parts []string
	if k.Addr != 0 {
		parts = append(parts, fmt.Sprintf("%016x", k.Addr))
	}
	if k.Name != "" {
		parts = append(parts, k.Name)
	}
	switch {
	case k.Line != 0:
		s := fmt.Sprintf("%s:%d", k.File, k.Line)
		if k.Col != 0 {
			s += fmt.Sprintf(":%d", k.Col)
		}
		parts = append(parts, s)
	case k.File != "":
		parts = append(parts, k.File)
	case k.Name != "":
	case k.Obj != "":
		parts = append(parts, "["+filepath.Base(k.Obj)+"]")
	default:
		parts = append(parts, "<unknown>")
	}
	return strings.Join(parts, " ")
}

// ROpts are the report options the reference understands.
type ROpts struct {
	Gran      string // functions (default), filefunctions, files, lines, addresses
	NoInlines bool
	Columns   bool
	Index     int  // sample value index
	Mean      bool // divide by sum of Value[0]
	ObjNames  bool // callgrind / raw keep the binary name in the identity
	TagRoot   []string
	TagLeaf   []string
}

// KeyedSample is a sample projected to entry keys, root first.
type KeyedSample struct {
	Keys    []NodeKey
	Inlined []bool // Keys[i] is an inlined frame (not the outermost line of its location)
	W, D    int64  // value and mean divisor
}

// Entry is one report entry.
type Entry struct {
	Key                        NodeKey
	Flat, Cum, FlatDiv, CumDiv int64
}

// FlatV is flat with the mean quotient applied.
func (e *Entry) FlatV() int64 {
	if e.FlatDiv == 0 {
		return e.Flat
	}
	return e.Flat / e.FlatDiv
}

// CumV is cum with the mean quotient applied.
func (e *Entry) CumV() int64 {
	if e.CumDiv == 0 {
		return e.Cum
	}
	return e.Cum / e.CumDiv
}

// EdgeW is an edge weight.
type EdgeW struct{ W, D int64 }

// V is the weight with the mean quotient applied.
func (e EdgeW) V() int64 {
	if e.D == 0 {
		return e.W
	}
	return e.W / e.D
}

// Rep is the reference report.
type Rep struct {
	Samples []KeyedSample
	Entries map[NodeKey]*Entry
	Edges   map[[2]NodeKey]*EdgeW
	Total   int64
}

func labelFrameName(s *profile.Sample, k string) string {
	var values []string
	values = append(values, s.Label[k]...)
	nums, units := s.NumLabel[k], s.NumUnit[k]
	if len(nums) != len(units) && len(units) != 0 {
		return strings.Join(values, ",")
	}
	for _, n := range nums {
		values = append(values, strconv.FormatInt(n, 10)) // generator uses unitless numeric labels here
	}
	return strings.Join(values, ",")
}

// KeySample projects one sample to entry keys (root first).
func KeySample(s *profile.Sample, o ROpts) KeyedSample {
	gran := o.Gran
	if gran == "" {
		gran = "functions"
	}
	function, filename, linenumber, address := false, false, false, false
	columns := o.Columns
	inlines := !o.NoInlines
	noAgg := false
	switch gran {
	case "addresses":
		if inlines {
			noAgg = true
		}
		function, filename, linenumber, address = true, true, true, true
	case "lines":
		function, filename, linenumber = true, true, true
	case "files":
		filename = true
	case "functions":
		function = true
	case "filefunctions":
		function, filename = true, true
	}
	if noAgg {
		columns = true
	}
	ks := KeyedSample{W: s.Value[o.Index]}
	if o.Mean {
		ks.D = s.Value[0]
	}
	mk := func(name, file string, start, line, col int64, addr uint64, obj string, hasFunc bool) NodeKey {
		if !hasFunc {
			k := NodeKey{Obj: obj}
			if address {
				k.Addr = addr
			}
			return k
		}
		k := NodeKey{}
		if function {
			k.Name = name
		} else {
			start = 0
		}
		if filename && file != "" {
			k.File = filepath.Clean(file)
		}
		if linenumber {
			k.Line = line
			if columns {
				k.Col = col
			}
		}
		if address {
			k.Addr = addr
		}
		if o.ObjNames || (k.Name == "" && k.File == "") {
			k.Obj = obj
			k.Start = start
		}
		return k
	}
	add := func(k NodeKey, inl bool) {
		ks.Keys = append(ks.Keys, k)
		ks.Inlined = append(ks.Inlined, inl)
	}
	// tagroot pseudo frames (root side): keys in order
	for _, k := range o.TagRoot {
		add(mk(labelFrameName(s, k), k, 0, 0, 0, 0, "", true), false)
	}
	for i := len(s.Location) - 1; i >= 0; i-- {
		l := s.Location[i]
		obj := ""
		if l.Mapping != nil {
			obj = l.Mapping.File
		}
		if len(l.Line) == 0 {
			add(mk("", "", 0, 0, 0, l.Address, obj, false), false)
			continue
		}
		lines := l.Line
		if !inlines {
			lines = lines[len(lines)-1:]
		}
		for j := len(lines) - 1; j >= 0; j-- {
			ln := lines[j]
			f := ln.Function
			add(mk(f.Name, f.Filename, f.StartLine, ln.Line, ln.Column, l.Address, obj, true), j != len(lines)-1)
		}
	}
	for _, k := range o.TagLeaf {
		add(mk(labelFrameName(s, k), k, 0, 0, 0, 0, "", true), false)
	}
	return ks
}

// Report computes the untrimmed reference report in graph (not call-tree) form.
func Report(p *profile.Profile, o ROpts) *Rep {
	r := &Rep{Entries: map[NodeKey]*Entry{}, Edges: map[[2]NodeKey]*EdgeW{}}
	var total, div int64
	for _, s := range p.Sample {
		ks := KeySample(s, o)
		r.Samples = append(r.Samples, ks)
		total += Abs64(ks.W)
		div += ks.D
		if ks.W == 0 && ks.D == 0 {
			continue
		}
		seen := map[NodeKey]bool{}
		seenE := map[[2]NodeKey]bool{}
		get := func(k NodeKey) *Entry {
			e := r.Entries[k]
			if e == nil {
				e = &Entry{Key: k}
				r.Entries[k] = e
			}
			return e
		}
		for i, k := range ks.Keys {
			e := get(k)
			if !seen[k] {
				seen[k] = true
				e.Cum += ks.W
				e.CumDiv += ks.D
			}
			if i > 0 && ks.Keys[i-1] != k {
				ek := [2]NodeKey{ks.Keys[i-1], k}
				if !seenE[ek] {
					seenE[ek] = true
					ew := r.Edges[ek]
					if ew == nil {
						ew = &EdgeW{}
						r.Edges[ek] = ew
					}
					ew.W += ks.W
					ew.D += ks.D
				}
			}
			if i == len(ks.Keys)-1 {
				e.Flat += ks.W
				e.FlatDiv += ks.D
			}
		}
	}
	if div != 0 {
		total /= div
	}
	r.Total = total
	return r
}

// Shown reports whether an entry exists in reports at all (entries whose flat and cum are both
// zero are not listed).
func (e *Entry) Shown() bool { return e.Flat != 0 || e.Cum != 0 }

// Row is one (name, flat, cum) line.
type Row struct {
	Name      string
	Flat, Cum int64
}

// Rows lists shown entries as a sorted multiset of rows.
func (r *Rep) Rows() []Row {
	var out []Row
	for _, e := range r.Entries {
		if e.Shown() {
			out = append(out, Row{e.Key.Printable(), e.FlatV(), e.CumV()})
		}
	}
	SortRows(out)
	return out
}

// SortRows sorts rows canonically.
func SortRows(out []Row) {
	sort.Slice(out, func(i, j int) bool {
		if out[i].Name != out[j].Name {
			return out[i].Name < out[j].Name
		}
		if out[i].Flat != out[j].Flat {
			return out[i].Flat < out[j].Flat
		}
		return out[i].Cum < out[j].Cum
	})
}

// EdgeRow is one (src, dst, weight) line.
type EdgeRow struct {
	Src, Dst string
	W        int64
}

// EdgeRows lists edges between shown entries as a sorted multiset.
func (r *Rep) EdgeRows() []EdgeRow {
	var out []EdgeRow
	for k, w := range r.Edges {
		if !r.Entries[k[0]].Shown() || !r.Entries[k[1]].Shown() {
			continue
		}
		out = append(out, EdgeRow{k[0].Printable(), k[1].Printable(), w.V()})
	}
	SortEdgeRows(out)
	return out
}

// SortEdgeRows sorts edge rows canonically.
func SortEdgeRows(out []EdgeRow) {
	sort.Slice(out, func(i, j int) bool {
		if out[i].Src != out[j].Src {
			return out[i].Src < out[j].Src
		}
		if out[i].Dst != out[j].Dst {
			return out[i].Dst < out[j].Dst
		}
		return out[i].W < out[j].W
	})
}

// TreeNode is a node of the reference call tree.
type TreeNode struct {
	Key                        NodeKey
	Path                       string
	Parent                     *TreeNode
	Flat, Cum, FlatDiv, CumDiv int64
}

// Tree computes the reference call tree: one node per distinct root-to-frame path.
func Tree(p *profile.Profile, o ROpts) []*TreeNode {
	nodes := map[string]*TreeNode{}
	var order []*TreeNode
	for _, s := range p.Sample {
		ks := KeySample(s, o)
		if ks.W == 0 && ks.D == 0 {
			continue
		}
		path := ""
		var parent *TreeNode
		for i, k := range ks.Keys {
			path += fmt.Sprintf("/%#v", k)
			n := nodes[path]
			if n == nil {
				n = &TreeNode{Key: k, Path: path, Parent: parent}
				nodes[path] = n
				order = append(order, n)
			}
			n.Cum += ks.W
			n.CumDiv += ks.D
			if i == len(ks.Keys)-1 {
				n.Flat += ks.W
				n.FlatDiv += ks.D
			}
			parent = n
		}
	}
	return order
}
