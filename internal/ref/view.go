// Package ref is the reference model: a "frames view" of a profile that keeps
// only semantic attributes (never ids or pointers) and short reference
// functions over it, written from the property statements and pprof's
// documentation rather than from pprof's code.
package ref

import (
	"fmt"
	"sort"
	"strings"

	"github.com/google/pprof/profile"
)

// Frame is one (possibly inlined) frame of a stack.
type Frame struct {
	// binary identity
	HasMap         bool
	MapFile, Build string
	MapOff, MapSz  uint64
	Rel            uint64 // address relative to mapping start (absolute if no mapping)
	Addr           uint64
	Folded         bool
	// symbol
	HasFunc                bool
	Name, Sys, File        string
	Start, Line, Col       int64
	Inlined                bool // not the last line of its location
	InlinePos, InlineCount int
	LocIdx                 int // index of the location within the sample (leaf=0)
	NoLines                bool
}

// Rec is one sample in the frames view. Frames are leaf first (as in the profile).
type Rec struct {
	Frames   []Frame
	Labels   map[string][]string
	NumLabel map[string][]int64
	NumUnit  map[string][]string
	Values   []int64
}

// View expands every sample of p. Within a location, Line[0] is the innermost
// (leaf-most) inlined frame and the last Line is the outermost caller.
// A location without lines yields one frame with NoLines set.
func View(p *profile.Profile) []Rec {
	out := make([]Rec, 0, len(p.Sample))
	for _, s := range p.Sample {
		out = append(out, RecOf(s))
	}
	return out
}

// RecOf expands one sample.
func RecOf(s *profile.Sample) Rec {
	r := Rec{Labels: s.Label, NumLabel: s.NumLabel, NumUnit: s.NumUnit, Values: append([]int64(nil), s.Value...)}
	for li, l := range s.Location {
		base := Frame{Addr: l.Address, Rel: l.Address, Folded: l.IsFolded, LocIdx: li}
		if m := l.Mapping; m != nil {
			base.HasMap = true
			base.MapFile, base.Build, base.MapOff = m.File, m.BuildID, m.Offset
			base.MapSz = m.Limit - m.Start
			base.Rel = l.Address - m.Start
		}
		if len(l.Line) == 0 {
			f := base
			f.NoLines = true
			f.InlineCount = 0
			r.Frames = append(r.Frames, f)
			continue
		}
		for i, ln := range l.Line {
			f := base
			f.InlinePos, f.InlineCount = i, len(l.Line)
			f.Inlined = i < len(l.Line)-1
			f.Line, f.Col = ln.Line, ln.Column
			if fn := ln.Function; fn != nil {
				f.HasFunc = true
				f.Name, f.Sys, f.File, f.Start = fn.Name, fn.SystemName, fn.Filename, fn.StartLine
			}
			r.Frames = append(r.Frames, f)
		}
	}
	return r
}

// LabelKey canonicalises the label set of a record.
func (r Rec) LabelKey() string {
	var ls []string
	for k, v := range r.Labels {
		ls = append(ls, fmt.Sprintf("S%q=%q", k, v))
	}
	for k, v := range r.NumLabel {
		u := r.NumUnit[k]
		// units compare as a list padded with "" to the value count
		uu := make([]string, len(v))
		copy(uu, u)
		ls = append(ls, fmt.Sprintf("N%q=%v%q", k, v, uu))
	}
	sort.Strings(ls)
	return strings.Join(ls, ",")
}

// MergeFrameKey is the identity of a frame for merging purposes.
func (f Frame) MergeFrameKey() string {
	var sb strings.Builder
	if f.HasMap {
		id := f.Build
		if id == "" {
			id = f.MapFile
		}
		size := (f.MapSz + 0xfff) &^ 0xfff
		fmt.Fprintf(&sb, "M%q/%x/%x+%x", id, size, f.MapOff, f.Rel)
	} else {
		fmt.Fprintf(&sb, "nomap@%x", f.Addr)
	}
	fmt.Fprintf(&sb, " fold=%v pos=%d/%d", f.Folded, f.InlinePos, f.InlineCount)
	if f.HasFunc {
		fmt.Fprintf(&sb, " (%q %q %q %d)", f.Name, f.Sys, f.File, f.Start)
	}
	fmt.Fprintf(&sb, " %d:%d", f.Line, f.Col)
	return sb.String()
}

// StackKey is the identity of the whole stack of a record for merging.
func (r Rec) StackKey() string {
	parts := make([]string, len(r.Frames))
	for i, f := range r.Frames {
		parts[i] = fmt.Sprintf("L%d[%s]", f.LocIdx, f.MergeFrameKey())
	}
	return strings.Join(parts, ";")
}

// Abs64 is |v| (MinInt64 stays negative, like pprof's).
func Abs64(v int64) int64 {
	if v < 0 {
		return -v
	}
	return v
}
