package ref

import (
	"fmt"
	"reflect"
	"sort"
	"strings"

	"github.com/google/pprof/profile"
)

// Vec is a value vector.
type Vec []int64

// SumView is the multiset of samples of the given profiles keyed by (semantic stack, labels),
// values summed per key, all-zero keys dropped. It also returns the number of samples read.
func SumView(ps ...*profile.Profile) (map[string]Vec, int) {
	m := map[string]Vec{}
	n := 0
	for _, p := range ps {
		for _, rec := range View(p) {
			n++
			k := rec.StackKey() + " || " + rec.LabelKey()
			v := m[k]
			if v == nil {
				v = make(Vec, len(rec.Values))
			}
			for i, x := range rec.Values {
				v[i] += x
			}
			m[k] = v
		}
	}
	for k, v := range m {
		zero := true
		for _, x := range v {
			if x != 0 {
				zero = false
			}
		}
		if zero {
			delete(m, k)
		}
	}
	return m, n
}

// DiffSum lists up to six differences between two SumViews.
func DiffSum(want, got map[string]Vec) string {
	var d []string
	for k, v := range want {
		if g, ok := got[k]; !ok {
			d = append(d, fmt.Sprintf("missing %s = %v", k, v))
		} else if !reflect.DeepEqual(v, g) {
			d = append(d, fmt.Sprintf("wrong value for %s: want %v got %v", k, v, g))
		}
	}
	for k, v := range got {
		if _, ok := want[k]; !ok {
			d = append(d, fmt.Sprintf("extra %s = %v", k, v))
		}
	}
	sort.Strings(d)
	if len(d) > 6 {
		d = d[:6]
	}
	return strings.Join(d, "\n")
}
