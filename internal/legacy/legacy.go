// Package legacy holds printers of every legacy profile format pprof accepts, driven by an
// arbitrary model, together with the expectation the documentation prescribes for the parsed
// result. Used by C14 (conversion values) and as input source for C01/C02.
package legacy

import (
	"bytes"
	"encoding/binary"
	"fmt"
	"math"
	"math/rand"
	"strings"

	"github.com/google/pprof/profile"
)

// Doc is a printed legacy document with its expectation.
type Doc struct {
	Kind    string
	Bytes   []byte
	Records int
	// Check compares a successfully parsed profile with the model; "" = as documented.
	Check func(p *profile.Profile) string
	// Features observed in this document (for coverage counters).
	Features []string
}

type mp struct {
	start, end, off uint64
	file            string
	exec            bool
}

// mappings of different files, first one at the conventional 0x400000 with offset 0 (so that no
// heuristic - hugepage removal, main-binary offset fix-up - applies); printMaps may list one
// mapping in adjacent pieces, which the documented adjacent-merge puts together again
var stdMaps = []mp{
	{0x200000, 0x300000, 0, "/lib/ld-2.15.so", true}, // the loader, below the main binary
	{0x400000, 0x500000, 0, "/bin/main", true},
	{0x600000, 0x601000, 0x1000, "/bin/main.data", false},
	{0x7f0000100000, 0x7f0000200000, 0, "/lib/liba.so", true},
	{0x7f0000400000, 0x7f0000500000, 0x2000, "/lib/libb.so.1", true},
	// a small object right below libb, inside the range [start-offset, start) that libb's file
	// offset spans: its addresses are its own, whatever the listing order
	{0x7f00003ff000, 0x7f0000400000, 0, "/lib/libtiny.so", true},
}

func pickAddr(r *rand.Rand, withMaps bool) uint64 {
	if !withMaps || r.Intn(6) == 0 {
		return uint64(0x1000 + r.Intn(8)*0x10 + r.Intn(2))
	}
	var ex []mp
	for _, m := range stdMaps {
		if m.exec {
			ex = append(ex, m)
		}
	}
	m := ex[r.Intn(len(ex))]
	a := m.start + 0x100 + uint64(r.Intn(0x100))*4
	if m.start == 0x400000 && r.Intn(2) == 0 {
		a += hugeLen // beyond the part that printMaps may list as a huge page
	}
	return a
}

// hugeLen is the size of the leading part of the main binary that printMaps may list as a separate
// '/anon_hugepage' entry (text remapped onto huge pages): documented to be dropped, with the main
// mapping put back to 0x400000 / offset 0.
const hugeLen = 0x20000

func printMaps(r *rand.Rand, sb *strings.Builder, sentinel string) string {
	form := "proc"
	sb.WriteString(sentinel + "\n")
	if r.Intn(2) == 0 {
		form = "brief"
	}
	// a quarter of the maps are not listed in address order (the pieces of one mapping stay together)
	order := append([]mp(nil), stdMaps...)
	shuffled := r.Intn(4) == 0
	if shuffled {
		r.Shuffle(len(order), func(i, j int) { order[i], order[j] = order[j], order[i] })
		form += "+unsorted"
	}
	// the huge-page heuristic is documented for a map that begins with the huge-page entry followed
	// by the main binary: the loader is then listed last
	huge := form == "proc" && !shuffled && r.Intn(4) == 0
	if huge {
		order = append(append([]mp(nil), order[1:]...), order[0])
	}
	for _, m := range order {
		// an executable mapping may be listed in 2-4 adjacent pieces with consecutive offsets
		// (text remapped onto huge pages, ...): documented to be merged back into one mapping
		pieces := []mp{m}
		if m.exec && r.Intn(3) == 0 && !(huge && m.start == 0x400000) {
			k := 2 + r.Intn(3)
			step := ((m.end - m.start) / uint64(k)) &^ 0xfff
			pieces = nil
			for i := 0; i < k; i++ {
				pc := mp{start: m.start + uint64(i)*step, end: m.start + uint64(i+1)*step, off: m.off + uint64(i)*step, file: m.file, exec: true}
				if i == k-1 {
					pc.end = m.end
				}
				pieces = append(pieces, pc)
			}
			form += fmt.Sprintf("+split%d", k)
		} else if m.exec && m.off == 0 && m.start != 0x400000 && strings.HasPrefix(form, "proc") && r.Intn(5) == 0 {
			// text remapped anonymously in front of the rest of the file's mapping: the first piece
			// has no name and no offset, the second names the file at whatever offset it has there
			// (documented: adjacent pieces are one mapping unless both carry offsets that disagree)
			cut := uint64(1+r.Intn(8)) * 0x1000
			pieces = []mp{{start: m.start, end: m.start + cut, off: 0, file: "", exec: true},
				{start: m.start + cut, end: m.end, off: []uint64{cut, 0x201000, 0x5000}[r.Intn(3)], file: m.file, exec: true}}
			form += "+anonfirst"
		} else if m.start == 0x400000 && huge {
			pieces = []mp{{start: m.start, end: m.start + hugeLen, off: 0, file: "/anon_hugepage" + []string{"", " (deleted)"}[r.Intn(2)], exec: true},
				{start: m.start + hugeLen, end: m.end, off: hugeLen, file: m.file, exec: true}}
			form += "+hugepage"
		}
		for _, m := range pieces {
			if strings.HasPrefix(form, "proc") {
				perm := "r-xp"
				if !m.exec {
					perm = "rw-p"
				}
				fmt.Fprintf(sb, "%08x-%08x %s %08x 00:00 0 %s\n", m.start, m.end, perm, m.off, m.file)
			} else if m.exec {
				fmt.Fprintf(sb, "  %08x-%08x: %s\n", m.start, m.end, m.file)
			}
		}
	}
	return form
}

func checkMaps(p *profile.Profile, form string) string {
	for _, l := range p.Location {
		var want *mp
		for i := range stdMaps {
			m := &stdMaps[i]
			if m.exec && l.Address >= m.start && l.Address < m.end {
				want = m
			}
		}
		if want == nil {
			if l.Mapping != nil && l.Mapping.File != "" {
				return fmt.Sprintf("location %#x lies in no executable mapping of the memory map but is assigned to %q", l.Address, l.Mapping.File)
			}
			continue
		}
		if l.Mapping == nil {
			return fmt.Sprintf("location %#x has no mapping; memory map has %s", l.Address, want.file)
		}
		if l.Mapping.File != want.file || l.Mapping.Start != want.start || l.Mapping.Limit != want.end {
			return fmt.Sprintf("location %#x assigned to mapping %q [%#x,%#x), memory map says %q [%#x,%#x)", l.Address, l.Mapping.File, l.Mapping.Start, l.Mapping.Limit, want.file, want.start, want.end)
		}
		if strings.HasPrefix(form, "proc") && l.Mapping.Offset != want.off {
			return fmt.Sprintf("mapping %q offset %#x, memory map says %#x", want.file, l.Mapping.Offset, want.off)
		}
	}
	return ""
}

func addrsOf(s *profile.Sample) []uint64 {
	a := []uint64{}
	for _, l := range s.Location {
		a = append(a, l.Address)
	}
	return a
}

func minus1(a []uint64) []uint64 {
	o := []uint64{}
	for _, x := range a {
		o = append(o, x-1)
	}
	return o
}

func types(p *profile.Profile) string {
	var s []string
	for _, t := range p.SampleType {
		s = append(s, t.Type+"/"+t.Unit)
	}
	return strings.Join(s, ",")
}

// ScaleRef is the documented unsampling: count and size divided by 1-exp(-avg/rate).
func ScaleRef(count, size, rate int64) (int64, int64) {
	if count == 0 || size == 0 {
		return 0, 0
	}
	if rate <= 1 {
		return count, size
	}
	avg := float64(size) / float64(count)
	sc := 1 / (1 - math.Exp(-avg/float64(rate)))
	return int64(float64(count) * sc), int64(float64(size) * sc)
}

func noise(r *rand.Rand, sb *strings.Builder) {
	switch r.Intn(6) {
	case 0:
		sb.WriteString("# comment\n")
	case 1:
		sb.WriteString("\n")
	case 2:
		sb.WriteString("   \n# another\n")
	}
}

// Heap prints heap / heap_v2 / heapz_v2 / heapprofile / growth / fragmentation documents.
func Heap(r *rand.Rand) *Doc {
	kind := []string{"heap_v2", "heapz_v2", "heap", "heapprofile", "growthz", "fragmentationz", "growth", "fragmentation"}[r.Intn(8)]
	special := strings.HasPrefix(kind, "growth") || strings.HasPrefix(kind, "fragmentation")
	rate := int64([]int{0, 1, 2, 512, 524288, 1000003, 4096}[r.Intn(7)])
	withMaps := r.Intn(2) == 0
	type hrec struct {
		ic, ib, ac, ab int64
		addrs          []uint64
	}
	n := r.Intn(8)
	var recs []hrec
	var tic, tib, tac, tab int64
	for i := 0; i < n; i++ {
		rc := hrec{}
		rc.ic = int64(r.Intn(4))
		if r.Intn(4) == 0 {
			rc.ic = int64(r.Intn(100000)) // many objects ...
		}
		if rc.ic > 0 {
			per := int64(1 + r.Intn(5000))
			if r.Intn(3) == 0 {
				per = int64(1 + r.Intn(40)) // ... and small ones: the unsampling factor is far from 1 unless the rate is <= 1
			}
			rc.ib = rc.ic * per
			if rc.ic > 1 && r.Intn(3) == 0 {
				rc.ib += int64(r.Intn(int(rc.ic))) // the mean object size is not a whole number
			}
		}
		rc.ac = rc.ic + int64(r.Intn(3))
		if rc.ac > 0 {
			rc.ab = rc.ib + (rc.ac-rc.ic)*int64(1+r.Intn(3000))
			if rc.ab == 0 {
				rc.ab = rc.ac
			}
			// totals that coincide in one of the two figures only: as many objects allocated as in
			// use but more bytes, or more objects but the same bytes
			switch r.Intn(6) {
			case 0:
				if rc.ac == rc.ic {
					rc.ab = rc.ib + int64(1+r.Intn(100))
				}
			case 1:
				if rc.ib > 0 {
					rc.ab = rc.ib
				}
			}
		}
		for j, d := 0, r.Intn(5); j < d; j++ {
			rc.addrs = append(rc.addrs, pickAddr(r, withMaps))
		}
		recs = append(recs, rc)
		tic += rc.ic
		tib += rc.ib
		tac += rc.ac
		tab += rc.ab
	}
	allocCols := r.Intn(2) == 0
	var sb strings.Builder
	hdrRate := ""
	if !special && (kind != "heapprofile" || r.Intn(2) == 0) {
		hdrRate = fmt.Sprintf("/%d", rate)
	}
	hac, hab := tac, tab
	if !allocCols {
		hac, hab = 0, 0
	}
	fmt.Fprintf(&sb, "heap profile: %d: %d [%d: %d] @ %s%s\n", tic, tib, hac, hab, kind, hdrRate)
	for _, rc := range recs {
		noise(r, &sb)
		ac, ab := rc.ac, rc.ab
		if !allocCols {
			ac, ab = 0, 0
		}
		fmt.Fprintf(&sb, "%d: %d [%d: %d] @", rc.ic, rc.ib, ac, ab)
		for _, a := range rc.addrs {
			fmt.Fprintf(&sb, " 0x%x", a)
		}
		sb.WriteString("\n")
	}
	form := ""
	if withMaps {
		sb.WriteString("\n")
		form = printMaps(r, &sb, "MAPPED_LIBRARIES:")
	}
	doc := sb.String()
	hasAlloc := false
	period := rate
	sampling := "v2"
	switch {
	case special:
		period, sampling = 1, ""
	default:
		hasAlloc = (fmt.Sprint(hac) != fmt.Sprint(tic) && hac != 0) || (fmt.Sprint(hab) != fmt.Sprint(tib) && hab != 0)
		switch kind {
		case "heap":
			period = rate / 2
		case "heapprofile":
			period, sampling = 1, ""
		}
		if hdrRate == "" {
			period = 1 // only heapprofile may omit the rate
		}
	}
	d := &Doc{Kind: "heap:" + kind, Bytes: []byte(doc), Records: len(recs), Features: []string{"heap." + kind, fmt.Sprintf("heap.alloc=%v", hasAlloc), "maps=" + form}}
	d.Check = func(p *profile.Profile) string {
		if p.Period != period {
			return fmt.Sprintf("period %d want %d", p.Period, period)
		}
		wantTypes := "objects/count,space/bytes"
		if hasAlloc {
			wantTypes = "alloc_objects/count,alloc_space/bytes,inuse_objects/count,inuse_space/bytes"
		}
		if types(p) != wantTypes {
			return fmt.Sprintf("sample types %s want %s", types(p), wantTypes)
		}
		if len(p.Sample) != len(recs) {
			return fmt.Sprintf("%d samples for %d records", len(p.Sample), len(recs))
		}
		for i, rc := range recs {
			s := p.Sample[i]
			var want []int64
			var bs int64
			add := func(c, b int64) {
				if c != 0 {
					bs = b / c
					if sampling == "v2" {
						c, b = ScaleRef(c, b, period)
					}
				}
				want = append(want, c, b)
			}
			if hasAlloc {
				ac, ab := rc.ac, rc.ab
				if !allocCols {
					ac, ab = 0, 0
				}
				add(ac, ab)
			}
			add(rc.ic, rc.ib)
			if fmt.Sprint(s.Value) != fmt.Sprint(want) {
				return fmt.Sprintf("record %d: values %v want %v", i, s.Value, want)
			}
			if fmt.Sprint(s.NumLabel["bytes"]) != fmt.Sprint([]int64{bs}) || len(s.NumLabel) != 1 || len(s.Label) != 0 {
				return fmt.Sprintf("record %d: labels %v %v want bytes=[%d]", i, s.NumLabel, s.Label, bs)
			}
			if got, wa := addrsOf(s), minus1(rc.addrs); fmt.Sprint(got) != fmt.Sprint(wa) {
				return fmt.Sprintf("record %d: addresses %x want %x", i, got, wa)
			}
		}
		if withMaps {
			return checkMaps(p, form)
		}
		return ""
	}
	return d
}

// Count prints Go count profiles (goroutine, threadcreate, ...).
func Count(r *rand.Rand) *Doc {
	typ := []string{"goroutine", "threadcreate", "xyz"}[r.Intn(3)]
	withMaps := r.Intn(3) == 0
	var sb strings.Builder
	if r.Intn(3) == 0 {
		sb.WriteString([]string{"# leading comment\n\n", "   # indented leading comment\n \t \n", "\t\n"}[r.Intn(3)])
	}
	type rec struct {
		n     int64
		addrs []uint64
	}
	var recs []rec
	n := r.Intn(7)
	fmt.Fprintf(&sb, "%s profile: total %d\n", typ, n)
	for i := 0; i < n; i++ {
		rc := rec{n: int64(r.Intn(100))}
		for j, d := 0, 1+r.Intn(4); j < d; j++ {
			rc.addrs = append(rc.addrs, pickAddr(r, withMaps))
		}
		recs = append(recs, rc)
		fmt.Fprintf(&sb, "%d @", rc.n)
		for _, a := range rc.addrs {
			fmt.Fprintf(&sb, " 0x%x", a)
		}
		sb.WriteString("\n")
		if r.Intn(4) == 0 {
			sb.WriteString([]string{"#\tsymbolized line ignored\n\n", "  #\tindented, ignored too\n", "   \t\n"}[r.Intn(3)])
		}
	}
	form := ""
	if withMaps {
		sb.WriteString("\n")
		form = printMaps(r, &sb, "--- Memory map: ---")
	}
	d := &Doc{Kind: "count:" + typ, Bytes: []byte(sb.String()), Records: len(recs), Features: []string{"count", "maps=" + form}}
	d.Check = func(p *profile.Profile) string {
		if len(p.Sample) != len(recs) {
			return fmt.Sprintf("%d samples for %d records", len(p.Sample), len(recs))
		}
		if types(p) != typ+"/count" || p.Period != 1 || p.PeriodType == nil || p.PeriodType.Type != typ {
			return fmt.Sprintf("types %s period %d", types(p), p.Period)
		}
		for i, rc := range recs {
			if p.Sample[i].Value[0] != rc.n || fmt.Sprint(addrsOf(p.Sample[i])) != fmt.Sprint(minus1(rc.addrs)) {
				return fmt.Sprintf("record %d: got %v %x want %d %x", i, p.Sample[i].Value, addrsOf(p.Sample[i]), rc.n, minus1(rc.addrs))
			}
		}
		if withMaps {
			return checkMaps(p, form)
		}
		return ""
	}
	return d
}

// Contention prints contentionz / mutex / contention documents.
func Contention(r *rand.Rand) *Doc {
	hdr := []string{"--- contentionz 1 ---", "--- mutex:", "--- contention:"}[r.Intn(3)]
	withMaps := r.Intn(3) == 0
	var sb strings.Builder
	sb.WriteString(hdr + "\n")
	cpuHz, period, ms := int64(0), int64(1), int64(0)
	feat := []string{"contention"}
	if r.Intn(2) == 0 {
		cpuHz = int64(1+r.Intn(4)) * 1000000000
		fmt.Fprintf(&sb, "cycles/second = %d\n", cpuHz)
		feat = append(feat, "contention.cycles")
	}
	if r.Intn(2) == 0 {
		period = int64(r.Intn(5))
		fmt.Fprintf(&sb, "sampling period = %d\n", period)
		feat = append(feat, "contention.period")
	}
	if r.Intn(2) == 0 {
		ms = int64(r.Intn(1000))
		fmt.Fprintf(&sb, "ms since reset = %d\n", ms)
		feat = append(feat, "contention.ms")
	}
	type rec struct {
		cyc, cnt int64
		addrs    []uint64
	}
	var recs []rec
	for i, n := 0, r.Intn(6); i < n; i++ {
		rc := rec{cyc: int64(r.Intn(1 << 30)), cnt: int64(r.Intn(50))}
		for j, d := 0, 1+r.Intn(4); j < d; j++ {
			rc.addrs = append(rc.addrs, pickAddr(r, withMaps))
		}
		recs = append(recs, rc)
		fmt.Fprintf(&sb, "%d %d @", rc.cyc, rc.cnt)
		for _, a := range rc.addrs {
			fmt.Fprintf(&sb, " 0x%x", a)
		}
		sb.WriteString("\n")
	}
	form := ""
	if withMaps {
		form = printMaps(r, &sb, "--- Memory map: ---")
	}
	d := &Doc{Kind: "contention", Bytes: []byte(sb.String()), Records: len(recs), Features: append(feat, "maps="+form)}
	d.Check = func(p *profile.Profile) string {
		if len(p.Sample) != len(recs) || p.Period != period || p.DurationNanos != ms*1000000 {
			return fmt.Sprintf("header: period=%d (want %d) duration=%d (want %d) samples=%d (want %d)", p.Period, period, p.DurationNanos, ms*1000000, len(p.Sample), len(recs))
		}
		if types(p) != "contentions/count,delay/nanoseconds" {
			return "types " + types(p)
		}
		for i, rc := range recs {
			v1, v2 := rc.cyc, rc.cnt
			if period > 0 {
				if cpuHz > 0 {
					v1 = int64(float64(v1) * float64(period) / (float64(cpuHz) / 1e9))
				}
				v2 = v2 * period
			}
			if fmt.Sprint(p.Sample[i].Value) != fmt.Sprint([]int64{v2, v1}) || fmt.Sprint(addrsOf(p.Sample[i])) != fmt.Sprint(minus1(rc.addrs)) {
				return fmt.Sprintf("record %d: got %v %x want %v %x", i, p.Sample[i].Value, addrsOf(p.Sample[i]), []int64{v2, v1}, minus1(rc.addrs))
			}
		}
		if withMaps {
			return checkMaps(p, form)
		}
		return ""
	}
	return d
}

// Thread prints threadz documents.
func Thread(r *rand.Rand) *Doc {
	var sb strings.Builder
	// the "--- threadz N ---" banner is optional: a document may start with the first thread
	if r.Intn(4) > 0 {
		if r.Intn(3) == 0 {
			sb.WriteString([]string{"\n# c\n", "  \t\n   # indented comment\n", " \n"}[r.Intn(3)])
		}
		sb.WriteString("--- threadz 1 ---\n\n")
	}
	type th struct {
		addrs []uint64
		same  bool
	}
	var ths []th
	n := 1 + r.Intn(7)
	feat := []string{"threadz"}
	for i := 0; i < n; i++ {
		x := th{}
		if i > 0 && r.Intn(4) == 0 {
			x.same = true
			feat = append(feat, "threadz.same")
		} else {
			for j, d := 0, 1+r.Intn(4); j < d; j++ {
				x.addrs = append(x.addrs, pickAddr(r, true))
			}
			if r.Intn(4) == 0 {
				// the leaf listed twice (documented: the duplicate is removed)
				x.addrs = append([]uint64{x.addrs[0]}, x.addrs...)
				feat = append(feat, "threadz.dupleaf")
			}
			if r.Intn(4) == 0 {
				// another thread sitting in exactly the same stack as an earlier one
				for _, y := range ths {
					if !y.same {
						x.addrs = append([]uint64(nil), y.addrs...)
						feat = append(feat, "threadz.repeated")
						break
					}
				}
			}
		}
		ths = append(ths, x)
		fmt.Fprintf(&sb, "--- Thread %x (name: t%d/%d) stack: ---\n", 0x7f0000000000+i, i, 100+i)
		if x.same {
			sb.WriteString("  [same as previous thread]\n")
			continue
		}
		for j, a := range x.addrs {
			if j == 0 {
				fmt.Fprintf(&sb, "  PC:  0x%08x: fn%d(arg *)\n", a, j)
			} else {
				fmt.Fprintf(&sb, "  0x%08x: fn%d\n", a, j)
			}
		}
	}
	form := printMaps(r, &sb, "--- Memory map: ---")
	d := &Doc{Kind: "threadz", Bytes: []byte(sb.String()), Records: n, Features: append(feat, "maps="+form)}
	d.Check = func(p *profile.Profile) string {
		type es struct {
			addrs []uint64
			v     int64
		}
		var exp []es
		for _, x := range ths {
			if x.same {
				if len(exp) > 0 {
					exp[len(exp)-1].v++
				}
				continue
			}
			a := []uint64{}
			for j, ad := range x.addrs {
				if j > 0 {
					ad--
				}
				a = append(a, ad)
			}
			if len(a) > 1 && a[0] == a[1]+1 {
				a = append(a[:1], a[2:]...)
			}
			exp = append(exp, es{a, 1})
		}
		if len(p.Sample) != len(exp) {
			return fmt.Sprintf("%d samples want %d", len(p.Sample), len(exp))
		}
		if types(p) != "thread/count" || p.Period != 1 {
			return "types " + types(p)
		}
		for i, e := range exp {
			s := p.Sample[i]
			if s.Value[0] != e.v || fmt.Sprint(addrsOf(s)) != fmt.Sprint(e.addrs) {
				return fmt.Sprintf("sample %d: got %v %x want %d %x", i, s.Value, addrsOf(s), e.v, e.addrs)
			}
		}
		return checkMaps(p, form)
	}
	return d
}

// CPU prints binary CPU profiles (both word sizes and endiannesses).
func CPU(r *rand.Rand) *Doc {
	var order binary.ByteOrder = binary.LittleEndian
	oname := "le"
	if r.Intn(2) == 0 {
		order, oname = binary.BigEndian, "be"
	}
	w64 := r.Intn(2) == 0
	var b bytes.Buffer
	put := func(v uint64) {
		if w64 {
			binary.Write(&b, order, v)
		} else {
			binary.Write(&b, order, uint32(v))
		}
	}
	period := uint64(1 + r.Intn(10000))
	for _, v := range []uint64{0, 3, 0, period, 0} {
		put(v)
	}
	type rec struct {
		count uint64
		addrs []uint64
	}
	var recs []rec
	n := 1 + r.Intn(40)
	sig := uint64(0x7000 + r.Intn(4))
	useSig := r.Intn(2) == 0
	feat := []string{"cpu." + oname, fmt.Sprintf("cpu.w64=%v", w64)}
	// a bigger profile in which all but a few samples (within the documented margin of 1/32) carry
	// the signal-handler frame in second position; the few others keep their own second frame
	outliers := 0
	if useSig && r.Intn(3) == 0 {
		n = 32 + r.Intn(90)
		outliers = r.Intn(n/32 + 1)
		feat = append(feat, fmt.Sprintf("cpu.sig.outliers=%d", outliers))
	}
	for i := 0; i < n; i++ {
		rc := rec{count: uint64(1 + r.Intn(5))}
		d := 1 + r.Intn(5)
		if outliers > 0 || n >= 32 && useSig {
			d = 2 + r.Intn(4)
		}
		for j := 0; j < d; j++ {
			rc.addrs = append(rc.addrs, uint64(0x1000+r.Intn(64)*4))
		}
		if useSig && d > 1 && !(n >= 32 && i < outliers) {
			rc.addrs[1] = sig + 1
		}
		if r.Intn(5) == 0 && d > 1 && !useSig {
			rc.addrs[1] = rc.addrs[0]
		}
		recs = append(recs, rc)
		put(rc.count)
		put(uint64(len(rc.addrs)))
		for _, a := range rc.addrs {
			put(a)
		}
	}
	put(0)
	put(1)
	put(0)
	d := &Doc{Kind: "cpu", Bytes: b.Bytes(), Records: len(recs), Features: feat}
	d.Check = func(p *profile.Profile) string {
		if len(p.Sample) != len(recs) || p.Period != int64(period)*1000 {
			return fmt.Sprintf("%d samples want %d; period %d want %d", len(p.Sample), len(recs), p.Period, int64(period)*1000)
		}
		if types(p) != "samples/count,cpu/nanoseconds" {
			return "types " + types(p)
		}
		exp := make([][]uint64, len(recs))
		for i, rc := range recs {
			for j, a := range rc.addrs {
				if j > 0 {
					a--
				}
				exp[i] = append(exp[i], a)
			}
		}
		margin := len(recs) / 32
		for iter := 0; iter < 2; iter++ {
			cnt := map[uint64]int{}
			for _, e := range exp {
				if len(e) > 1 {
					cnt[e[1]]++
				}
			}
			for a, c := range cnt {
				if c >= len(recs)-margin {
					for i, e := range exp {
						if len(e) > 1 && e[1] == a {
							exp[i] = append(append([]uint64{}, e[:1]...), e[2:]...)
						}
					}
					break
				}
			}
		}
		for i, e := range exp {
			if len(e) > 1 && e[0] == e[1]+1 {
				exp[i] = append(append([]uint64{}, e[:1]...), e[2:]...)
			}
		}
		for i, rc := range recs {
			if fmt.Sprint(addrsOf(p.Sample[i])) != fmt.Sprint(exp[i]) || p.Sample[i].Value[0] != int64(rc.count) || p.Sample[i].Value[1] != int64(rc.count)*int64(period)*1000 {
				return fmt.Sprintf("record %d: got %x %v want %x count %d", i, addrsOf(p.Sample[i]), p.Sample[i].Value, exp[i], rc.count)
			}
		}
		return ""
	}
	return d
}

// Java prints Java heapz / contentionz documents.
func Java(r *rand.Rand) *Doc {
	kind := []string{"heap", "contention"}[r.Intn(2)]
	var sb strings.Builder
	period := int64(0)
	if kind == "heap" {
		sb.WriteString("--- heapz 1 ---\nformat = java\nresolution = bytes\n")
	} else {
		sb.WriteString("--- contentionz 1 ---\nformat = java\nresolution = microseconds\n")
		if r.Intn(2) == 0 {
			period = int64(1 + r.Intn(200))
			fmt.Fprintf(&sb, "sampling period = %d\n", period)
		}
		fmt.Fprintf(&sb, "ms since reset = %d\n", r.Intn(100000))
	}
	type rec struct {
		a, b  int64
		addrs []uint64
	}
	var recs []rec
	for i, n := 0, r.Intn(6); i < n; i++ {
		rc := rec{a: int64(1 + r.Intn(100000)), b: int64(1 + r.Intn(50))}
		for j, d := 0, 1+r.Intn(5); j < d; j++ {
			rc.addrs = append(rc.addrs, uint64(3+r.Intn(12)))
		}
		recs = append(recs, rc)
		fmt.Fprintf(&sb, "%13d %5d @", rc.a, rc.b)
		for _, ad := range rc.addrs {
			fmt.Fprintf(&sb, " 0x%08x", ad)
		}
		sb.WriteString("\n")
	}
	sb.WriteString("\n")
	for _, q := range r.Perm(12) {
		ad := uint64(3 + q)
		switch ad % 4 {
		case 0:
			fmt.Fprintf(&sb, " 0x%08x com.example.function%03d (Source%03d.java:%d)\n", ad, ad, ad, 100+ad)
		case 1:
			fmt.Fprintf(&sb, " 0x%08x com.example.function%03d (/usr/lib/libx%d.so)\n", ad, ad, ad)
		case 2:
			fmt.Fprintf(&sb, " 0x%08x GC\n", ad)
		case 3:
			fmt.Fprintf(&sb, " 0x%08x com.example.function%03d (Unknown Source)\n", ad, ad)
		}
	}
	text := sb.String()
	if r.Intn(3) == 0 {
		text = strings.TrimSuffix(text, "\n") // a document cut off right after its last character
	}
	d := &Doc{Kind: "java:" + kind, Bytes: []byte(text), Records: len(recs), Features: []string{"java." + kind}}
	d.Check = func(p *profile.Profile) string {
		if len(p.Sample) != len(recs) {
			return fmt.Sprintf("%d samples want %d", len(p.Sample), len(recs))
		}
		for i, rc := range recs {
			s := p.Sample[i]
			v0, v1 := rc.b, rc.a
			if kind == "heap" {
				bs := v1 / v0
				v0, v1 = ScaleRef(v0, v1, 524288)
				if fmt.Sprint(s.NumLabel["bytes"]) != fmt.Sprint([]int64{bs}) {
					return fmt.Sprintf("record %d: bytes label %v want %d", i, s.NumLabel, bs)
				}
			} else if period != 0 {
				v0, v1 = v0*period, v1*period
			}
			if fmt.Sprint(s.Value) != fmt.Sprint([]int64{v0, v1}) {
				return fmt.Sprintf("record %d: values %v want [%d %d]", i, s.Value, v0, v1)
			}
			if len(s.Location) != len(rc.addrs) {
				return fmt.Sprintf("record %d: depth %d want %d", i, len(s.Location), len(rc.addrs))
			}
			for j, l := range s.Location {
				ad := rc.addrs[j]
				wantFn := fmt.Sprintf("com.example.function%03d", ad)
				if ad%4 == 2 {
					wantFn = "GC"
				}
				if len(l.Line) != 1 || l.Line[0].Function == nil || l.Line[0].Function.Name != wantFn || l.Address != 0 {
					return fmt.Sprintf("record %d frame %d (id %#x): %+v want function %s", i, j, ad, l.Line, wantFn)
				}
				if ad%4 == 0 && (l.Line[0].Line != int64(100+ad) || l.Line[0].Function.Filename != fmt.Sprintf("Source%03d.java", ad)) {
					return fmt.Sprintf("record %d frame %d: file/line %q:%d", i, j, l.Line[0].Function.Filename, l.Line[0].Line)
				}
			}
		}
		return ""
	}
	return d
}

var printers = []func(*rand.Rand) *Doc{Heap, Heap, Count, Contention, Thread, CPU, Java}

// Random prints a document of a random family.
func Random(r *rand.Rand) *Doc { return printers[r.Intn(len(printers))](r) }

// RandomDoc returns just bytes and kind.
func RandomDoc(r *rand.Rand) ([]byte, string) {
	d := Random(r)
	return d.Bytes, d.Kind
}
