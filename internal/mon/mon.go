// Package mon holds monitors: an independent validity checker, a
// pointer-disjointness walker, and a structural fingerprint (deep snapshot).
package mon

import (
	"fmt"
	"reflect"
	"sort"
	"strings"

	"github.com/google/pprof/profile"
)

// Valid is an independent implementation of the validity contract: every sample
// has one value per sample type; every location, function and mapping referenced
// exists exactly once in the tables, with a non-zero id; ids are unique.
func Valid(p *profile.Profile) error {
	if p == nil {
		return fmt.Errorf("nil profile")
	}
	if len(p.SampleType) == 0 && len(p.Sample) != 0 {
		return fmt.Errorf("samples without sample types")
	}
	for i, st := range p.SampleType {
		if st == nil {
			return fmt.Errorf("nil sample type %d", i)
		}
	}
	maps := map[*profile.Mapping]bool{}
	mid := map[uint64]bool{}
	for i, m := range p.Mapping {
		if m == nil {
			return fmt.Errorf("nil mapping %d", i)
		}
		if m.ID == 0 {
			return fmt.Errorf("mapping %d has id 0", i)
		}
		if mid[m.ID] {
			return fmt.Errorf("duplicate mapping id %d", m.ID)
		}
		mid[m.ID] = true
		maps[m] = true
	}
	fns := map[*profile.Function]bool{}
	fid := map[uint64]bool{}
	for i, f := range p.Function {
		if f == nil {
			return fmt.Errorf("nil function %d", i)
		}
		if f.ID == 0 {
			return fmt.Errorf("function %d has id 0", i)
		}
		if fid[f.ID] {
			return fmt.Errorf("duplicate function id %d", f.ID)
		}
		fid[f.ID] = true
		fns[f] = true
	}
	locs := map[*profile.Location]bool{}
	lid := map[uint64]bool{}
	for i, l := range p.Location {
		if l == nil {
			return fmt.Errorf("nil location %d", i)
		}
		if l.ID == 0 {
			return fmt.Errorf("location %d has id 0", i)
		}
		if lid[l.ID] {
			return fmt.Errorf("duplicate location id %d", l.ID)
		}
		lid[l.ID] = true
		locs[l] = true
		if l.Mapping != nil && !maps[l.Mapping] {
			return fmt.Errorf("location %d refers to a mapping (id %d) that is not in the mapping table", l.ID, l.Mapping.ID)
		}
		for j, ln := range l.Line {
			if ln.Function == nil {
				return fmt.Errorf("location %d line %d has no function", l.ID, j)
			}
			if !fns[ln.Function] {
				return fmt.Errorf("location %d line %d refers to a function (id %d) that is not in the function table", l.ID, j, ln.Function.ID)
			}
		}
	}
	for i, s := range p.Sample {
		if s == nil {
			return fmt.Errorf("nil sample %d", i)
		}
		if len(s.Value) != len(p.SampleType) {
			return fmt.Errorf("sample %d has %d values for %d sample types", i, len(s.Value), len(p.SampleType))
		}
		for j, l := range s.Location {
			if l == nil {
				return fmt.Errorf("sample %d location %d is nil", i, j)
			}
			if !locs[l] {
				return fmt.Errorf("sample %d location %d (id %d) is not in the location table", i, j, l.ID)
			}
		}
	}
	return nil
}

// Fingerprint is a deterministic dump of every exported field of the profile, with
// cross references rendered by table position. Two profiles with equal fingerprints
// are deeply equal in everything observable through the exported API.
func Fingerprint(p *profile.Profile) string {
	var sb strings.Builder
	mi := map[*profile.Mapping]int{}
	for i, m := range p.Mapping {
		mi[m] = i
	}
	fi := map[*profile.Function]int{}
	for i, f := range p.Function {
		fi[f] = i
	}
	li := map[*profile.Location]int{}
	for i, l := range p.Location {
		li[l] = i
	}
	for _, st := range p.SampleType {
		if st == nil {
			sb.WriteString("ST nil\n")
			continue
		}
		fmt.Fprintf(&sb, "ST %q %q\n", st.Type, st.Unit)
	}
	fmt.Fprintf(&sb, "DST %q\n", p.DefaultSampleType)
	for _, s := range p.Sample {
		sb.WriteString("S ")
		fmt.Fprintf(&sb, "%v L[", s.Value)
		for _, l := range s.Location {
			if idx, ok := li[l]; ok {
				fmt.Fprintf(&sb, "%d ", idx)
			} else {
				fmt.Fprintf(&sb, "?%p ", l)
			}
		}
		sb.WriteString("] ")
		sb.WriteString(labelDump(s))
		sb.WriteString("\n")
	}
	for _, m := range p.Mapping {
		fmt.Fprintf(&sb, "M %d %x %x %x %q %q %v %v %v %v %q\n", m.ID, m.Start, m.Limit, m.Offset, m.File, m.BuildID, m.HasFunctions, m.HasFilenames, m.HasLineNumbers, m.HasInlineFrames, m.KernelRelocationSymbol)
	}
	for _, l := range p.Location {
		mx := -1
		if l.Mapping != nil {
			if idx, ok := mi[l.Mapping]; ok {
				mx = idx
			} else {
				mx = -2
			}
		}
		fmt.Fprintf(&sb, "L %d m%d %x %v", l.ID, mx, l.Address, l.IsFolded)
		for _, ln := range l.Line {
			fx := -1
			if ln.Function != nil {
				if idx, ok := fi[ln.Function]; ok {
					fx = idx
				} else {
					fx = -2
				}
			}
			fmt.Fprintf(&sb, " (f%d %d %d)", fx, ln.Line, ln.Column)
		}
		sb.WriteString("\n")
	}
	for _, f := range p.Function {
		fmt.Fprintf(&sb, "F %d %q %q %q %d\n", f.ID, f.Name, f.SystemName, f.Filename, f.StartLine)
	}
	fmt.Fprintf(&sb, "H drop=%q keep=%q t=%d d=%d", p.DropFrames, p.KeepFrames, p.TimeNanos, p.DurationNanos)
	if p.PeriodType != nil {
		fmt.Fprintf(&sb, " pt=%q/%q", p.PeriodType.Type, p.PeriodType.Unit)
	} else {
		sb.WriteString(" pt=nil")
	}
	fmt.Fprintf(&sb, " period=%d comments=%q doc=%q\n", p.Period, p.Comments, p.DocURL)
	return sb.String()
}

func labelDump(s *profile.Sample) string {
	var ls []string
	for k, v := range s.Label {
		ls = append(ls, fmt.Sprintf("S%q=%q", k, v))
	}
	for k, v := range s.NumLabel {
		ls = append(ls, fmt.Sprintf("N%q=%v%q", k, v, s.NumUnit[k]))
	}
	for k, v := range s.NumUnit {
		if _, ok := s.NumLabel[k]; !ok {
			ls = append(ls, fmt.Sprintf("U%q=%q", k, v))
		}
	}
	sort.Strings(ls)
	return strings.Join(ls, ",")
}

// Shared reports memory shared between two values: pointers, maps and non-empty
// slice backing arrays reachable from both (unexported fields included).
func Shared(a, b any) []string {
	pa := map[uintptr]string{}
	collect(reflect.ValueOf(a), "a", pa, map[uintptr]bool{})
	pb := map[uintptr]string{}
	collect(reflect.ValueOf(b), "b", pb, map[uintptr]bool{})
	var out []string
	for ptr, path := range pa {
		if other, ok := pb[ptr]; ok {
			out = append(out, path+" == "+other)
		}
	}
	sort.Strings(out)
	return out
}

func collect(v reflect.Value, path string, out map[uintptr]string, seen map[uintptr]bool) {
	if !v.IsValid() {
		return
	}
	switch v.Kind() {
	case reflect.Ptr:
		if v.IsNil() {
			return
		}
		ptr := v.Pointer()
		if seen[ptr] {
			return
		}
		seen[ptr] = true
		if _, ok := out[ptr]; !ok {
			out[ptr] = path
		}
		collect(v.Elem(), path, out, seen)
	case reflect.Interface:
		if !v.IsNil() {
			collect(v.Elem(), path, out, seen)
		}
	case reflect.Struct:
		for i := 0; i < v.NumField(); i++ {
			collect(v.Field(i), path+"."+v.Type().Field(i).Name, out, seen)
		}
	case reflect.Slice:
		if v.IsNil() || v.Cap() == 0 {
			return
		}
		ptr := v.Pointer()
		key := ptr
		if !seen[key] {
			if v.Len() > 0 {
				if _, ok := out[ptr]; !ok {
					out[ptr] = path + "[]"
				}
			}
		}
		for i := 0; i < v.Len(); i++ {
			collect(v.Index(i), fmt.Sprintf("%s[%d]", path, i), out, seen)
		}
	case reflect.Array:
		for i := 0; i < v.Len(); i++ {
			collect(v.Index(i), fmt.Sprintf("%s[%d]", path, i), out, seen)
		}
	case reflect.Map:
		if v.IsNil() {
			return
		}
		ptr := v.Pointer()
		if seen[ptr] {
			return
		}
		seen[ptr] = true
		if _, ok := out[ptr]; !ok {
			out[ptr] = path + "{}"
		}
		iter := v.MapRange()
		for iter.Next() {
			collect(iter.Value(), fmt.Sprintf("%s{%v}", path, iter.Key()), out, seen)
		}
	}
}
