// Package gen holds the seeded, structure-aware generators of valid profiles.
package gen

import (
	"fmt"
	"math"
	"math/rand"
	"sort"
	"strings"

	"github.com/google/pprof/profile"
)

// Alphabets of names.
const (
	Plain = iota
	Cpp
	GoNames
	Java
	Meta  // metacharacters of DOT / callgrind / HTML / regexp
	Mixed // any of the above per name
)

var plainNames = []string{"main", "a", "b", "c", "d", "e", "f", "g", "run", "work", "leaf", "root", "x1", "x2"}
var cppNames = []string{"ns::f(int)", "std::vector<int>::push_back(int const&)", "(anonymous namespace)::g()", "A::operator()(int)", "tmpl<a::b>::h", "ns::f(char)", "foo::bar", "foo::baz<T>(T)"}
var goNames = []string{"main.main", "runtime.mallocgc", "pkg/path.Func", "pkg/path.(*T).M", "pkg.(*T).M", "net/http.(*conn).serve", "a/b.c", "main.f.func1"}
var javaNames = []string{"java.lang.Object.wait", "com.x.Y.z(int)", "pkg.Class.<init>", "pkg.Class.name(a.b.c, x.y.z)"}

// MetaNames are hostile strings for escaping checks.
var MetaNames = []string{`we"ird`, `back\slash`, `trail\`, "new\nline", `<script>alert(1)</script>`, `a&b`, `{x|y}`, `semi;colon`, `\l\N\G`, `"><img src=x>`, "tab\there", `ünï·cødé`, `per%cent`, `</script>`, "cr\rx", `q'uote`, `[b]r(a)c*k+`, `a.b.c`, `\"`, `x\\"y`}

// Name draws a name from the alphabet.
func Name(r *rand.Rand, alpha int) string {
	if alpha == Mixed {
		alpha = r.Intn(5)
	}
	switch alpha {
	case Cpp:
		return cppNames[r.Intn(len(cppNames))]
	case GoNames:
		return goNames[r.Intn(len(goNames))]
	case Java:
		return javaNames[r.Intn(len(javaNames))]
	case Meta:
		return MetaNames[r.Intn(len(MetaNames))]
	}
	return plainNames[r.Intn(len(plainNames))]
}

// Opt are the generator knobs.
type Opt struct {
	MinTypes, MaxTypes int // number of sample types (default 1..3)
	Types              [][2]string
	MaxSamples         int // default 12
	MinSamples         int
	MaxDepth           int // default 6
	MaxFuncs           int // default 8
	MaxLocs            int // default 10
	MaxInline          int // max lines per location (default 3)
	MaxMappings        int // default 3
	Alphabet           int
	NameFn             func(r *rand.Rand) string
	FileFn             func(r *rand.Rand) string
	IDMode             int  // 0 random, 1 dense in order, 2 shuffled dense, 3 sparse, 4 huge
	Labels             bool // string labels
	NumLabels          bool
	LabelKeys          []string
	LabelVals          []string
	NumUnits           []string
	EmptyStacks        bool
	Unsym              bool // some locations without lines
	NoMapping          bool // some locations without mapping
	Folded             bool
	ValueClass         int // 0: -2..2 ties; 1: 0..5; 2: up to 2^31 signed; 3: extreme int64; 4: 1..1000 positive
	Header             bool
	Recursion          bool // bias towards repeated locations in a stack
	UnusedEntities     bool
	SameFile           bool // all functions share few files
	Columns            bool
}

func (o *Opt) defaults() {
	if o.MaxTypes == 0 {
		o.MaxTypes = 3
	}
	if o.MinTypes == 0 {
		o.MinTypes = 1
	}
	if o.MaxSamples == 0 {
		o.MaxSamples = 12
	}
	if o.MaxDepth == 0 {
		o.MaxDepth = 6
	}
	if o.MaxFuncs == 0 {
		o.MaxFuncs = 8
	}
	if o.MaxLocs == 0 {
		o.MaxLocs = 10
	}
	if o.MaxInline == 0 {
		o.MaxInline = 3
	}
	if o.MaxMappings == 0 {
		o.MaxMappings = 3
	}
}

var typePool = [][2]string{{"samples", "count"}, {"cpu", "nanoseconds"}, {"alloc_space", "bytes"}, {"objects", "count"}, {"delay", "ms"}, {"weird", "frobs"}}
var filePool = []string{"a.go", "dir/b.go", "/abs/c.cc", "same.go", "dir/shared.go", ""}

// IDs returns n distinct non-zero ids in the given mode.
func IDs(r *rand.Rand, n, mode int) []uint64 {
	if mode == 0 {
		mode = 1 + r.Intn(4)
	}
	ids := make([]uint64, n)
	switch mode {
	case 1:
		for i := range ids {
			ids[i] = uint64(i + 1)
		}
	case 2:
		for i, p := range r.Perm(n) {
			ids[i] = uint64(p + 1)
		}
	case 3:
		seen := map[uint64]bool{}
		for i := range ids {
			for {
				v := uint64(1 + r.Intn(4*n+8))
				if r.Intn(4) == 0 {
					v = uint64(n) + uint64(r.Intn(3)) // around len boundary
				}
				if v != 0 && !seen[v] {
					seen[v] = true
					ids[i] = v
					break
				}
			}
		}
	default:
		seen := map[uint64]bool{}
		pool := []uint64{1 << 32, 1 << 63, math.MaxUint64, math.MaxUint64 - 1, 1<<63 - 1, 1 << 40, 7}
		for i := range ids {
			for {
				v := pool[r.Intn(len(pool))] - uint64(r.Intn(50))
				if v != 0 && !seen[v] {
					seen[v] = true
					ids[i] = v
					break
				}
			}
		}
	}
	return ids
}

// Value draws a sample value.
func Value(r *rand.Rand, class int) int64 {
	switch class {
	case 0:
		return int64(r.Intn(5) - 2)
	case 1:
		return int64(r.Intn(6))
	case 2:
		switch r.Intn(4) {
		case 0:
			return int64(r.Intn(5) - 2)
		case 1:
			return int64(r.Intn(2000) - 1000)
		default:
			return int64(r.Int63n(1<<32) - 1<<31)
		}
	case 3:
		pool := []int64{0, 1, -1, math.MaxInt64, math.MinInt64, math.MaxInt64 - 1, math.MinInt64 + 1, 1 << 53, -(1 << 53), 1<<31 - 1, -(1 << 31)}
		if r.Intn(3) == 0 {
			return int64(r.Uint64())
		}
		return pool[r.Intn(len(pool))]
	default:
		return int64(1 + r.Intn(1000))
	}
}

// Profile generates a valid profile.
func Profile(r *rand.Rand, o Opt) *profile.Profile {
	o.defaults()
	p := &profile.Profile{}
	nt := o.MinTypes + r.Intn(o.MaxTypes-o.MinTypes+1)
	if o.Types != nil {
		for _, t := range o.Types {
			p.SampleType = append(p.SampleType, &profile.ValueType{Type: t[0], Unit: t[1]})
		}
		nt = len(o.Types)
	} else {
		perm := r.Perm(len(typePool))
		for i := 0; i < nt; i++ {
			t := typePool[perm[i%len(perm)]]
			name := t[0]
			if i >= len(perm) {
				name = fmt.Sprintf("%s%d", name, i)
			}
			p.SampleType = append(p.SampleType, &profile.ValueType{Type: name, Unit: t[1]})
		}
	}
	if o.Header {
		p.PeriodType = &profile.ValueType{Type: "cpu", Unit: "nanoseconds"}
		p.Period = int64(r.Intn(4))
		p.TimeNanos = int64(r.Intn(3)) * 1e9
		p.DurationNanos = int64(r.Intn(5)) * 1e8
		for i, n := 0, r.Intn(3); i < n; i++ {
			p.Comments = append(p.Comments, []string{"c1", "c2", "c1"}[r.Intn(3)])
		}
		if r.Intn(3) == 0 {
			p.DefaultSampleType = p.SampleType[r.Intn(nt)].Type
		}
		if r.Intn(4) == 0 {
			p.DocURL = "http://example.com/doc"
		}
	} else {
		p.PeriodType = &profile.ValueType{Type: "cpu", Unit: "nanoseconds"}
		p.Period = 1
	}
	// mappings
	nm := r.Intn(o.MaxMappings + 1)
	if nm == 0 && !o.NoMapping {
		nm = 1
	}
	mids := IDs(r, nm, o.IDMode)
	for i := 0; i < nm; i++ {
		start := uint64(0x400000 + i*0x100000)
		m := &profile.Mapping{ID: mids[i], Start: start, Limit: start + 0x10000, Offset: uint64(r.Intn(2)) * 0x1000,
			File: []string{"/bin/prog", "/lib/libx.so", "/lib/liby.so.1", ""}[r.Intn(4)], BuildID: []string{"", "abcdef", "12"}[r.Intn(3)]}
		if o.Alphabet == Meta && r.Intn(2) == 0 {
			m.File = "/bin/" + MetaNames[r.Intn(len(MetaNames))]
		}
		p.Mapping = append(p.Mapping, m)
	}
	// functions
	nf := 1 + r.Intn(o.MaxFuncs)
	fids := IDs(r, nf, o.IDMode)
	for i := 0; i < nf; i++ {
		var name string
		if o.NameFn != nil {
			name = o.NameFn(r)
		} else {
			name = Name(r, o.Alphabet)
		}
		file := filePool[r.Intn(len(filePool))]
		if o.FileFn != nil {
			file = o.FileFn(r)
		} else if o.SameFile {
			file = []string{"same.go", "dir/shared.go"}[r.Intn(2)]
		} else if o.Alphabet == Meta && r.Intn(2) == 0 {
			file = "dir/" + MetaNames[r.Intn(len(MetaNames))]
		}
		f := &profile.Function{ID: fids[i], Name: name, SystemName: name, Filename: file, StartLine: int64(r.Intn(3)) * 10}
		if r.Intn(4) == 0 {
			f.SystemName = "_Z" + name
		}
		p.Function = append(p.Function, f)
	}
	// locations
	nl := 1 + r.Intn(o.MaxLocs)
	lids := IDs(r, nl, o.IDMode)
	for i := 0; i < nl; i++ {
		l := &profile.Location{ID: lids[i]}
		if nm > 0 && !(o.NoMapping && r.Intn(4) == 0) {
			l.Mapping = p.Mapping[r.Intn(nm)]
			l.Address = l.Mapping.Start + uint64(r.Intn(16))*0x10
		} else {
			l.Address = 0x900000 + uint64(r.Intn(16))*0x10
		}
		nlines := 1 + r.Intn(o.MaxInline)
		if o.Unsym && r.Intn(5) == 0 {
			nlines = 0
		}
		for j := 0; j < nlines; j++ {
			ln := profile.Line{Function: p.Function[r.Intn(nf)], Line: int64(r.Intn(4)) * 5}
			if o.Columns {
				ln.Column = int64(r.Intn(3))
			}
			l.Line = append(l.Line, ln)
		}
		if o.Folded && r.Intn(6) == 0 {
			l.IsFolded = true
		}
		p.Location = append(p.Location, l)
	}
	// samples
	ns := o.MinSamples + r.Intn(o.MaxSamples-o.MinSamples+1)
	keys := o.LabelKeys
	if keys == nil {
		keys = []string{"k1", "k2", "tag"}
	}
	vals := o.LabelVals
	if vals == nil {
		vals = []string{"v1", "v2", "x", "tag1"}
	}
	units := o.NumUnits
	if units == nil {
		units = []string{"", "bytes", "kb", "ms", "frobs"}
	}
	for i := 0; i < ns; i++ {
		s := &profile.Sample{}
		for j := 0; j < nt; j++ {
			s.Value = append(s.Value, Value(r, o.ValueClass))
		}
		depth := 1 + r.Intn(o.MaxDepth)
		if o.EmptyStacks && r.Intn(8) == 0 {
			depth = 0
		}
		for j := 0; j < depth; j++ {
			if o.Recursion && j > 0 && r.Intn(4) == 0 {
				s.Location = append(s.Location, s.Location[r.Intn(j)])
			} else {
				s.Location = append(s.Location, p.Location[r.Intn(nl)])
			}
		}
		if o.Labels && r.Intn(2) == 0 {
			s.Label = map[string][]string{}
			for k, n := 0, 1+r.Intn(2); k < n; k++ {
				key := keys[r.Intn(len(keys))]
				for q, nv := 0, 1+r.Intn(2); q < nv; q++ {
					s.Label[key] = append(s.Label[key], vals[r.Intn(len(vals))])
				}
			}
		}
		if o.NumLabels && r.Intn(2) == 0 {
			s.NumLabel = map[string][]int64{}
			s.NumUnit = map[string][]string{}
			for k, n := 0, 1+r.Intn(2); k < n; k++ {
				key := []string{"bytes", "request", "n", "alignment"}[r.Intn(4)]
				if _, ok := s.NumLabel[key]; ok {
					continue
				}
				for q, nv := 0, 1+r.Intn(2); q < nv; q++ {
					s.NumLabel[key] = append(s.NumLabel[key], int64(1+r.Intn(4))<<uint(r.Intn(3)*5))
					s.NumUnit[key] = append(s.NumUnit[key], units[r.Intn(len(units))])
				}
			}
		}
		p.Sample = append(p.Sample, s)
	}
	if !o.UnusedEntities {
		// keep as is: unused entities are legal; most checks do not care.
	}
	return p
}

// Shape returns a structural signature of a profile (for counting distinct cases).
func Shape(p *profile.Profile) string {
	var depth []int
	rec, inl, unsym, empty, neg, zero, lab, nlab := 0, 0, 0, 0, 0, 0, 0, 0
	for _, s := range p.Sample {
		depth = append(depth, len(s.Location))
		if len(s.Location) == 0 {
			empty++
		}
		seen := map[*profile.Location]bool{}
		for _, l := range s.Location {
			if seen[l] {
				rec++
			}
			seen[l] = true
			if len(l.Line) > 1 {
				inl++
			}
			if len(l.Line) == 0 {
				unsym++
			}
		}
		for _, v := range s.Value {
			if v < 0 {
				neg++
			}
			if v == 0 {
				zero++
			}
		}
		lab += len(s.Label)
		nlab += len(s.NumLabel)
	}
	sort.Ints(depth)
	return fmt.Sprintf("t%d d%v r%d i%d u%d e%d n%d z%d l%d nl%d m%d f%d L%d", len(p.SampleType), depth, b3(rec), b3(inl), b3(unsym), b3(empty), b3(neg), b3(zero), b3(lab), b3(nlab), len(p.Mapping), len(p.Function), len(p.Location))
}

func b3(n int) int {
	if n > 2 {
		return 3
	}
	return n
}

// Describe renders a compact literal description of a profile for evidence samples.
func Describe(p *profile.Profile) string {
	var sb strings.Builder
	for i, st := range p.SampleType {
		if i > 0 {
			sb.WriteString(",")
		}
		fmt.Fprintf(&sb, "%s/%s", st.Type, st.Unit)
	}
	sb.WriteString(" :: ")
	for i, s := range p.Sample {
		if i >= 6 {
			fmt.Fprintf(&sb, " …(+%d samples)", len(p.Sample)-i)
			break
		}
		if i > 0 {
			sb.WriteString(" ; ")
		}
		fmt.Fprintf(&sb, "%v", s.Value)
		for _, l := range s.Location {
			sb.WriteString(" ")
			if len(l.Line) == 0 {
				fmt.Fprintf(&sb, "@%x", l.Address)
			}
			for j, ln := range l.Line {
				if j > 0 {
					sb.WriteString("+")
				}
				fmt.Fprintf(&sb, "%s:%d", ln.Function.Name, ln.Line)
			}
		}
		if len(s.Label) > 0 {
			fmt.Fprintf(&sb, " %v", s.Label)
		}
		if len(s.NumLabel) > 0 {
			fmt.Fprintf(&sb, " %v%v", s.NumLabel, s.NumUnit)
		}
	}
	out := sb.String()
	if len(out) > 600 {
		out = out[:600] + "…"
	}
	return out
}
