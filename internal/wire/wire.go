// Package wire is an independent protobuf wire-format decoder/encoder and a
// neutral text view of profile.proto messages. It is written from
// proto/profile.proto and shares no code with pprof's profile/proto.go.
package wire

import (
	"fmt"
	"sort"
	"strings"

	"github.com/google/pprof/profile"
)

// Field is one decoded field.
type Field struct {
	Num  int
	WT   int
	V    uint64 // varint / fixed value
	Data []byte // length-delimited payload
}

// Uvarint decodes a base-128 varint; n<=0 on error.
func Uvarint(b []byte) (uint64, int) {
	var x uint64
	for i := 0; i < len(b) && i < 10; i++ {
		x |= uint64(b[i]&0x7f) << (7 * uint(i))
		if b[i]&0x80 == 0 {
			return x, i + 1
		}
	}
	return 0, -1
}

// PutUvarint appends a varint.
func PutUvarint(b []byte, v uint64) []byte {
	for v >= 0x80 {
		b = append(b, byte(v)|0x80)
		v >>= 7
	}
	return append(b, byte(v))
}

// Decode splits a message into fields (wire types 0, 1, 2, 5).
func Decode(b []byte) ([]Field, error) {
	var out []Field
	for len(b) > 0 {
		k, n := Uvarint(b)
		if n <= 0 {
			return nil, fmt.Errorf("bad key")
		}
		b = b[n:]
		f := Field{Num: int(k >> 3), WT: int(k & 7)}
		switch f.WT {
		case 0:
			v, n := Uvarint(b)
			if n <= 0 {
				return nil, fmt.Errorf("bad varint")
			}
			f.V = v
			b = b[n:]
		case 1:
			if len(b) < 8 {
				return nil, fmt.Errorf("short fixed64")
			}
			for i := 0; i < 8; i++ {
				f.V |= uint64(b[i]) << (8 * uint(i))
			}
			b = b[8:]
		case 5:
			if len(b) < 4 {
				return nil, fmt.Errorf("short fixed32")
			}
			for i := 0; i < 4; i++ {
				f.V |= uint64(b[i]) << (8 * uint(i))
			}
			b = b[4:]
		case 2:
			l, n := Uvarint(b)
			if n <= 0 || uint64(len(b)-n) < l {
				return nil, fmt.Errorf("bad length")
			}
			f.Data = b[n : n+int(l)]
			b = b[n+int(l):]
		default:
			return nil, fmt.Errorf("unsupported wire type %d", f.WT)
		}
		out = append(out, f)
	}
	return out, nil
}

// Encode serialises fields.
func Encode(fs []Field) []byte {
	var b []byte
	for _, f := range fs {
		b = PutUvarint(b, uint64(f.Num)<<3|uint64(f.WT))
		switch f.WT {
		case 0:
			b = PutUvarint(b, f.V)
		case 1:
			for i := 0; i < 8; i++ {
				b = append(b, byte(f.V>>(8*uint(i))))
			}
		case 5:
			for i := 0; i < 4; i++ {
				b = append(b, byte(f.V>>(8*uint(i))))
			}
		case 2:
			b = PutUvarint(b, uint64(len(f.Data)))
			b = append(b, f.Data...)
		}
	}
	return b
}

// RepeatedU64 collects a repeated varint field in packed or unpacked form.
func RepeatedU64(fs []Field, num int) []uint64 {
	var out []uint64
	for _, f := range fs {
		if f.Num != num {
			continue
		}
		if f.WT == 0 {
			out = append(out, f.V)
		} else if f.WT == 2 {
			b := f.Data
			for len(b) > 0 {
				v, n := Uvarint(b)
				if n <= 0 {
					break
				}
				b = b[n:]
				out = append(out, v)
			}
		}
	}
	return out
}

// Scalar returns the last varint value of field num (0 if absent).
func Scalar(fs []Field, num int) uint64 {
	var v uint64
	for _, f := range fs {
		if f.Num == num && f.WT == 0 {
			v = f.V
		}
	}
	return v
}

// ViewBytes renders the neutral view of an encoded Profile message, using only the
// field numbers of profile.proto. Labels that carry neither string, number nor unit
// are skipped (normalisation N: such a label cannot be represented).
func ViewBytes(b []byte) (string, error) {
	top, err := Decode(b)
	if err != nil {
		return "", err
	}
	var strs []string
	for _, f := range top {
		if f.Num == 6 {
			strs = append(strs, string(f.Data))
		}
	}
	if len(strs) > 0 && strs[0] != "" {
		return "", fmt.Errorf("string table does not start with the empty string")
	}
	str := func(i uint64) string {
		if i >= uint64(len(strs)) {
			return fmt.Sprintf("<bad string index %d>", i)
		}
		return strs[i]
	}
	var sb strings.Builder
	vt := func(d []byte) string {
		fs, _ := Decode(d)
		return fmt.Sprintf("%q/%q", str(Scalar(fs, 1)), str(Scalar(fs, 2)))
	}
	// records are rendered grouped by field number (the order of different fields on the wire
	// carries no meaning in protobuf; only the order within one repeated field does)
	var grouped []Field
	for num := 1; num <= 5; num++ {
		for _, f := range top {
			if f.Num == num {
				grouped = append(grouped, f)
			}
		}
	}
	for _, f := range grouped {
		switch f.Num {
		case 1:
			fmt.Fprintf(&sb, "ST %s\n", vt(f.Data))
		case 2:
			fs, err := Decode(f.Data)
			if err != nil {
				return "", err
			}
			fmt.Fprintf(&sb, "S loc=%v val=%v", RepeatedU64(fs, 1), toI64(RepeatedU64(fs, 2)))
			var labs []string
			for _, lf := range fs {
				if lf.Num == 3 {
					l, _ := Decode(lf.Data)
					if Scalar(l, 2) == 0 && Scalar(l, 3) == 0 && Scalar(l, 4) == 0 {
						continue
					}
					labs = append(labs, fmt.Sprintf("{%q s=%q n=%d u=%q}", str(Scalar(l, 1)), str(Scalar(l, 2)), int64(Scalar(l, 3)), str(Scalar(l, 4))))
				}
			}
			fmt.Fprintf(&sb, " lab=%v\n", labs)
		case 3:
			fs, _ := Decode(f.Data)
			fmt.Fprintf(&sb, "M id=%d %x-%x@%x %q %q %d%d%d%d\n", Scalar(fs, 1), Scalar(fs, 2), Scalar(fs, 3), Scalar(fs, 4), str(Scalar(fs, 5)), str(Scalar(fs, 6)), Scalar(fs, 7), Scalar(fs, 8), Scalar(fs, 9), Scalar(fs, 10))
		case 4:
			fs, _ := Decode(f.Data)
			fmt.Fprintf(&sb, "L id=%d m=%d a=%x f=%d", Scalar(fs, 1), Scalar(fs, 2), Scalar(fs, 3), Scalar(fs, 5))
			for _, lf := range fs {
				if lf.Num == 4 {
					l, _ := Decode(lf.Data)
					fmt.Fprintf(&sb, " (fn=%d l=%d c=%d)", Scalar(l, 1), int64(Scalar(l, 2)), int64(Scalar(l, 3)))
				}
			}
			sb.WriteString("\n")
		case 5:
			fs, _ := Decode(f.Data)
			fmt.Fprintf(&sb, "F id=%d %q %q %q %d\n", Scalar(fs, 1), str(Scalar(fs, 2)), str(Scalar(fs, 3)), str(Scalar(fs, 4)), int64(Scalar(fs, 5)))
		}
	}
	fmt.Fprintf(&sb, "H drop=%q keep=%q t=%d d=%d p=%d dst=%q doc=%q", str(Scalar(top, 7)), str(Scalar(top, 8)), int64(Scalar(top, 9)), int64(Scalar(top, 10)), int64(Scalar(top, 12)), str(Scalar(top, 14)), str(Scalar(top, 15)))
	pt := `""/""`
	for _, f := range top {
		if f.Num == 11 {
			pt = vt(f.Data)
		}
	}
	var cm []string
	for _, c := range RepeatedU64(top, 13) {
		cm = append(cm, str(c))
	}
	fmt.Fprintf(&sb, " pt=%s cm=%q\n", pt, cm)
	return sb.String(), nil
}

func toI64(u []uint64) []int64 {
	var o []int64
	for _, x := range u {
		o = append(o, int64(x))
	}
	return o
}

// ViewProfile renders the same neutral view from an in-memory profile, with the proto3
// normalisation N applied (empty string label values, and numeric label values that are 0
// with no unit, cannot be represented and are dropped).
func ViewProfile(p *profile.Profile) string {
	var sb strings.Builder
	for _, st := range p.SampleType {
		fmt.Fprintf(&sb, "ST %q/%q\n", st.Type, st.Unit)
	}
	for _, s := range p.Sample {
		ids := []uint64{}
		for _, l := range s.Location {
			ids = append(ids, l.ID)
		}
		var labs []string
		var keys []string
		for k := range s.Label {
			keys = append(keys, k)
		}
		sort.Strings(keys)
		for _, k := range keys {
			for _, v := range s.Label[k] {
				if v == "" {
					continue
				}
				labs = append(labs, fmt.Sprintf("{%q s=%q n=%d u=%q}", k, v, 0, ""))
			}
		}
		keys = nil
		for k := range s.NumLabel {
			keys = append(keys, k)
		}
		sort.Strings(keys)
		for _, k := range keys {
			for i, v := range s.NumLabel[k] {
				u := ""
				if us := s.NumUnit[k]; i < len(us) {
					u = us[i]
				}
				if v == 0 && u == "" {
					continue
				}
				labs = append(labs, fmt.Sprintf("{%q s=%q n=%d u=%q}", k, "", v, u))
			}
		}
		vals := s.Value
		if vals == nil {
			vals = []int64{}
		}
		fmt.Fprintf(&sb, "S loc=%v val=%v lab=%v\n", ids, vals, labs)
	}
	b2i := func(b bool) int {
		if b {
			return 1
		}
		return 0
	}
	for _, m := range p.Mapping {
		fmt.Fprintf(&sb, "M id=%d %x-%x@%x %q %q %d%d%d%d\n", m.ID, m.Start, m.Limit, m.Offset, m.File, m.BuildID, b2i(m.HasFunctions), b2i(m.HasFilenames), b2i(m.HasLineNumbers), b2i(m.HasInlineFrames))
	}
	for _, l := range p.Location {
		mid := uint64(0)
		if l.Mapping != nil {
			mid = l.Mapping.ID
		}
		fmt.Fprintf(&sb, "L id=%d m=%d a=%x f=%d", l.ID, mid, l.Address, b2i(l.IsFolded))
		for _, ln := range l.Line {
			fid := uint64(0)
			if ln.Function != nil {
				fid = ln.Function.ID
			}
			fmt.Fprintf(&sb, " (fn=%d l=%d c=%d)", fid, ln.Line, ln.Column)
		}
		sb.WriteString("\n")
	}
	for _, f := range p.Function {
		fmt.Fprintf(&sb, "F id=%d %q %q %q %d\n", f.ID, f.Name, f.SystemName, f.Filename, f.StartLine)
	}
	pt := `""/""`
	if p.PeriodType != nil {
		pt = fmt.Sprintf("%q/%q", p.PeriodType.Type, p.PeriodType.Unit)
	}
	var cm []string
	cm = append(cm, p.Comments...)
	fmt.Fprintf(&sb, "H drop=%q keep=%q t=%d d=%d p=%d dst=%q doc=%q pt=%s cm=%q\n", p.DropFrames, p.KeepFrames, p.TimeNanos, p.DurationNanos, p.Period, p.DefaultSampleType, p.DocURL, pt, cm)
	return sb.String()
}

// Rechunk re-encodes a serialized profile in another valid protobuf form: every packed repeated
// varint field (Sample.location_id, Sample.value, Profile.comment) is split into 2-4 packed
// chunks and/or single unpacked elements, in order. A conforming
// parser concatenates the occurrences, so the result describes the same profile. pick(n) returns a
// number in [0,n).
func Rechunk(b []byte, pick func(n int) int) ([]byte, error) {
	top, err := Decode(b)
	if err != nil {
		return nil, err
	}
	split := func(f Field) []Field {
		var vals []uint64
		d := f.Data
		for len(d) > 0 {
			v, n := Uvarint(d)
			if n <= 0 {
				return []Field{f}
			}
			d = d[n:]
			vals = append(vals, v)
		}
		if len(vals) < 2 {
			return []Field{f}
		}
		var out []Field
		for len(vals) > 0 {
			k := 1 + pick(len(vals))
			if k > 1 && pick(3) == 0 {
				k = 1
			}
			if k == 1 && pick(2) == 0 {
				out = append(out, Field{Num: f.Num, WT: 0, V: vals[0]})
			} else {
				var pd []byte
				for _, v := range vals[:k] {
					pd = PutUvarint(pd, v)
				}
				out = append(out, Field{Num: f.Num, WT: 2, Data: pd})
			}
			vals = vals[k:]
		}
		return out
	}
	var res []Field
	for _, f := range top {
		switch {
		case f.Num == 2 && f.WT == 2: // Sample: location_id = 1, value = 2
			sub, err := Decode(f.Data)
			if err != nil {
				return nil, err
			}
			var ns []Field
			for _, sf := range sub {
				if (sf.Num == 1 || sf.Num == 2) && sf.WT == 2 {
					ns = append(ns, split(sf)...)
				} else {
					ns = append(ns, sf)
				}
			}
			f.Data = Encode(ns)
			res = append(res, f)
		case f.Num == 13 && f.WT == 2: // Profile.comment
			res = append(res, split(f)...)
		default:
			res = append(res, f)
		}
	}
	return Encode(res), nil
}
