// Package parse holds independent parsers of pprof's outputs.
package parse

import (
	"fmt"
	"strings"
)

type tok struct {
	kind string // id, str, punct, eof
	val  string
}

// lexDOT tokenises a Graphviz document. Quoted strings follow Graphviz's scan.l: inside quotes
// `\"` yields a quote, `\\` is consumed as a pair (kept), backslash-newline is dropped, anything
// else is literal.
func lexDOT(s string) ([]tok, error) {
	var out []tok
	i := 0
	for i < len(s) {
		c := s[i]
		switch {
		case c == ' ' || c == '\t' || c == '\n' || c == '\r':
			i++
		case c == '"':
			j := i + 1
			var sb strings.Builder
			for {
				if j >= len(s) {
					return nil, fmt.Errorf("unterminated string starting at offset %d: %q", i, trunc(s[i:], 80))
				}
				if s[j] == '\\' && j+1 < len(s) && (s[j+1] == '"' || s[j+1] == '\\' || s[j+1] == '\n') {
					switch s[j+1] {
					case '"':
						sb.WriteByte('"')
					case '\\':
						sb.WriteString("\\\\")
					}
					j += 2
					continue
				}
				if s[j] == '"' {
					break
				}
				sb.WriteByte(s[j])
				j++
			}
			out = append(out, tok{"str", sb.String()})
			i = j + 1
		case c == '-' && i+1 < len(s) && s[i+1] == '>':
			out = append(out, tok{"punct", "->"})
			i += 2
		case strings.ContainsRune("{}[]=;,", rune(c)):
			out = append(out, tok{"punct", string(c)})
			i++
		case isIDChar(c) || c == '-' || c == '.':
			j := i
			for j < len(s) && (isIDChar(s[j]) || s[j] == '.' || (j == i && s[j] == '-')) {
				j++
			}
			if j == i {
				return nil, fmt.Errorf("bad character %q at offset %d", c, i)
			}
			out = append(out, tok{"id", s[i:j]})
			i = j
		default:
			return nil, fmt.Errorf("bad character %q at offset %d (context %q)", c, i, trunc(s[max0(i-30):], 70))
		}
	}
	return out, nil
}

func max0(i int) int {
	if i < 0 {
		return 0
	}
	return i
}

func trunc(s string, n int) string {
	if len(s) > n {
		return s[:n] + "…"
	}
	return s
}

func isIDChar(c byte) bool {
	return c == '_' || c >= 'a' && c <= 'z' || c >= 'A' && c <= 'Z' || c >= '0' && c <= '9' || c >= 0x80
}

// DotEdge is one edge statement.
type DotEdge struct {
	Src, Dst string
	Attrs    map[string]string
}

// DotGraph is a parsed document.
type DotGraph struct {
	Name      string
	Nodes     map[string]map[string]string
	NodeOrder []string
	Edges     []DotEdge
	AllValues []string // every attribute value and id, for escaping recoverability checks
}

// ParseDOT parses a digraph and checks that every edge endpoint is a declared node.
func ParseDOT(s string) (*DotGraph, error) {
	ts, err := lexDOT(s)
	if err != nil {
		return nil, err
	}
	g := &DotGraph{Nodes: map[string]map[string]string{}}
	p := 0
	peek := func() tok {
		if p < len(ts) {
			return ts[p]
		}
		return tok{"eof", ""}
	}
	next := func() tok { t := peek(); p++; return t }
	expect := func(v string) error {
		if t := next(); t.val != v || t.kind != "punct" {
			return fmt.Errorf("expected %q, got %s %q (token %d)", v, t.kind, trunc(t.val, 60), p)
		}
		return nil
	}
	isID := func(t tok) bool { return t.kind == "id" || t.kind == "str" }
	attrs := func() (map[string]string, error) {
		m := map[string]string{}
		for peek().val == "[" && peek().kind == "punct" {
			next()
			for !(peek().kind == "punct" && peek().val == "]") {
				k := next()
				if !isID(k) {
					return nil, fmt.Errorf("attribute name expected, got %s %q", k.kind, trunc(k.val, 60))
				}
				if err := expect("="); err != nil {
					return nil, err
				}
				v := next()
				if !isID(v) {
					return nil, fmt.Errorf("attribute value expected after %s=, got %s %q", k.val, v.kind, trunc(v.val, 60))
				}
				m[k.val] = v.val
				g.AllValues = append(g.AllValues, v.val)
				if peek().kind == "punct" && (peek().val == "," || peek().val == ";") {
					next()
				}
			}
			next()
		}
		return m, nil
	}
	if t := next(); t.val != "digraph" || t.kind != "id" {
		return nil, fmt.Errorf("document does not start with digraph")
	}
	name := next()
	if !isID(name) {
		return nil, fmt.Errorf("graph name expected")
	}
	g.Name = name.val
	g.AllValues = append(g.AllValues, name.val)
	var stmts func() error
	stmts = func() error {
		if err := expect("{"); err != nil {
			return err
		}
		for !(peek().kind == "punct" && peek().val == "}") {
			t := next()
			if t.kind == "eof" {
				return fmt.Errorf("end of input inside a block")
			}
			if !isID(t) {
				return fmt.Errorf("statement cannot start with %s %q", t.kind, t.val)
			}
			if t.kind == "id" && t.val == "subgraph" {
				if isID(peek()) {
					next()
				}
				if err := stmts(); err != nil {
					return err
				}
				continue
			}
			if peek().kind == "punct" && peek().val == "->" {
				next()
				d := next()
				if !isID(d) {
					return fmt.Errorf("edge destination expected, got %s %q", d.kind, d.val)
				}
				a, err := attrs()
				if err != nil {
					return err
				}
				g.Edges = append(g.Edges, DotEdge{t.val, d.val, a})
			} else {
				a, err := attrs()
				if err != nil {
					return err
				}
				if t.kind == "id" && (t.val == "node" || t.val == "edge" || t.val == "graph") {
					continue
				}
				if _, dup := g.Nodes[t.val]; !dup {
					g.NodeOrder = append(g.NodeOrder, t.val)
				}
				g.Nodes[t.val] = a
				g.AllValues = append(g.AllValues, t.val)
			}
			if peek().kind == "punct" && peek().val == ";" {
				next()
			}
		}
		next()
		return nil
	}
	if err := stmts(); err != nil {
		return nil, err
	}
	if peek().kind != "eof" {
		return nil, fmt.Errorf("trailing tokens after the graph: %s %q", peek().kind, trunc(peek().val, 60))
	}
	for _, e := range g.Edges {
		for _, n := range []string{e.Src, e.Dst} {
			if _, ok := g.Nodes[n]; !ok {
				return nil, fmt.Errorf("edge %s -> %s references undeclared node %s", e.Src, e.Dst, n)
			}
		}
	}
	return g, nil
}

// DotUnescape undoes the escString-level escapes of a lexed attribute value: `\\` -> `\`,
// `\n`, `\l`, `\r` -> newline.
func DotUnescape(v string) string {
	var sb strings.Builder
	for i := 0; i < len(v); i++ {
		if v[i] == '\\' && i+1 < len(v) {
			switch v[i+1] {
			case '\\':
				sb.WriteByte('\\')
				i++
				continue
			case 'n', 'l', 'r':
				sb.WriteByte('\n')
				i++
				continue
			}
		}
		sb.WriteByte(v[i])
	}
	return sb.String()
}
