package parse

import (
	"fmt"
	"regexp"
	"strconv"
	"strings"
)

// CGNode is one cost line of a callgrind document together with the names in force.
type CGNode struct {
	Ob, Fl, Fn string
	Addr       uint64
	Line       int64
	Self       int64
	Calls      []CGCall
}

// CGCall is one call record (cfl/cfn/calls + inclusive cost line) below a node.
type CGCall struct {
	Fl, Fn string
	Addr   uint64
	Line   int64
	Cost   int64
}

var (
	cgNameRx  = regexp.MustCompile(`^(ob|fl|fn|cfl|cfn|cob)=(?:\((\d+)\)(?: (.*))?)?$`)
	cgCostRx  = regexp.MustCompile(`^(0x[0-9a-f]+|[+-]\d+|\*) (-?\d+|\*) (-?\d+)$`)
	cgCallsRx = regexp.MustCompile(`^calls=(\d+) (0x[0-9a-f]+|[+-]\d+|\*) (-?\d+)$`)
	cgSuffix  = regexp.MustCompile(` \[\d+/\d+\]$`)
)

// Callgrind decodes a callgrind document written by pprof: name compression per name space and
// pprof's subposition compression (positions relative to the previous node's address).
func Callgrind(out string) (events string, nodes []CGNode, err error) {
	lines := strings.Split(strings.TrimRight(out, "\n"), "\n")
	if len(lines) < 2 || lines[0] != "positions: instr line" || !strings.HasPrefix(lines[1], "events: ") {
		return "", nil, fmt.Errorf("header lines wrong")
	}
	events = strings.TrimPrefix(lines[1], "events: ")
	tabs := map[string]map[int]string{"ob": {}, "fl": {}, "fn": {}}
	cur := map[string]string{}
	var prevAddr uint64
	havePrev := false
	decode := func(tok string) (uint64, error) {
		switch {
		case strings.HasPrefix(tok, "0x"):
			return strconv.ParseUint(tok[2:], 16, 64)
		case tok == "*":
			if !havePrev {
				return 0, fmt.Errorf("'*' without a previous position")
			}
			return prevAddr, nil
		default:
			if !havePrev {
				return 0, fmt.Errorf("relative position without a previous one")
			}
			d, err := strconv.ParseInt(tok, 10, 64)
			return uint64(int64(prevAddr) + d), err
		}
	}
	var node *CGNode
	var call *CGCall
	flush := func() {
		if node != nil {
			nodes = append(nodes, *node)
			prevAddr, havePrev = node.Addr, true
			node = nil
		}
	}
	for i, l := range lines[2:] {
		ln := i + 3
		switch {
		case l == "":
		case cgNameRx.MatchString(l):
			m := cgNameRx.FindStringSubmatch(l)
			kind := m[1]
			space := strings.TrimPrefix(kind, "c")
			name := ""
			if m[2] != "" {
				id, _ := strconv.Atoi(m[2])
				if strings.Contains(l, ") ") {
					tabs[space][id] = m[3]
				}
				var ok bool
				if name, ok = tabs[space][id]; !ok {
					return events, nil, fmt.Errorf("line %d refers to undefined (%d)", ln, id)
				}
			}
			if kind == space {
				flush()
			}
			cur[kind] = name
		case strings.HasPrefix(l, "calls="):
			m := cgCallsRx.FindStringSubmatch(l)
			if m == nil || node == nil {
				return events, nil, fmt.Errorf("line %d %q: bad calls line", ln, l)
			}
			a, err := decode(m[2])
			if err != nil {
				return events, nil, fmt.Errorf("line %d: %v", ln, err)
			}
			lno, _ := strconv.ParseInt(m[3], 10, 64)
			call = &CGCall{Fl: cur["cfl"], Fn: cgSuffix.ReplaceAllString(cur["cfn"], ""), Addr: a, Line: lno}
		default:
			m := cgCostRx.FindStringSubmatch(l)
			if m == nil {
				return events, nil, fmt.Errorf("line %d %q matches no callgrind line form", ln, l)
			}
			cost, _ := strconv.ParseInt(m[3], 10, 64)
			if call != nil {
				call.Cost = cost
				node.Calls = append(node.Calls, *call)
				call = nil
				continue
			}
			flush()
			a, err := decode(m[1])
			if err != nil {
				return events, nil, fmt.Errorf("line %d: %v", ln, err)
			}
			lno, _ := strconv.ParseInt(m[2], 10, 64)
			node = &CGNode{Ob: cur["ob"], Fl: cur["fl"], Fn: cur["fn"], Addr: a, Line: lno, Self: cost}
		}
	}
	flush()
	return events, nodes, nil
}
