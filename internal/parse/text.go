package parse

import (
	"fmt"
	"regexp"
	"strconv"
	"strings"
)

// TopRow is one line of a text report.
type TopRow struct {
	Flat, Cum int64
	FlatPct   string
	SumPct    string
	CumPct    string
	Name      string // with inline markers stripped
	Inline    string // "", "inline", "partial-inline"
}

// Header holds the legend numbers of a text/tree report.
type Header struct {
	Found           bool
	Accounting      int64
	AccountingPct   string
	Total           int64
	DroppedNodes    int // -1 if the line is absent
	DroppedCutoff   int64
	TopN, OutOf     int // -1 if absent
	Lines           []string
	DroppedEdges    int
	DroppedEdgeFreq int64
}

var (
	showingRx  = regexp.MustCompile(`^Showing nodes accounting for (-?\d+)[A-Za-z*]*, (\S+) of (-?\d+)[A-Za-z*]* total$`)
	droppedRx  = regexp.MustCompile(`^Dropped (\d+) nodes? \(cum <= (-?\d+)[A-Za-z*]*\)$`)
	droppedERx = regexp.MustCompile(`^Dropped (\d+) edges? \(freq <= (-?\d+)[A-Za-z*]*\)$`)
	topNRx     = regexp.MustCompile(`^Showing top (\d+) nodes out of (\d+)$`)
	topRowRx   = regexp.MustCompile(`^\s*(-?\d+)[A-Za-z*]*\s+(\S+)\s+(\S+)\s+(-?\d+)[A-Za-z*]*\s+(\S+)\s\s(.*)$`)
)

func stripInline(name string) (string, string) {
	for _, m := range []string{"inline", "partial-inline"} {
		if strings.HasSuffix(name, " ("+m+")") {
			return strings.TrimSuffix(name, " ("+m+")"), m
		}
	}
	return name, ""
}

func parseHeader(lines []string) (Header, int) {
	h := Header{DroppedNodes: -1, TopN: -1, OutOf: -1}
	i := 0
	for ; i < len(lines); i++ {
		l := strings.TrimSpace(lines[i])
		if m := showingRx.FindStringSubmatch(l); m != nil {
			h.Found = true
			h.Accounting, _ = strconv.ParseInt(m[1], 10, 64)
			h.AccountingPct = m[2]
			h.Total, _ = strconv.ParseInt(m[3], 10, 64)
		} else if m := droppedRx.FindStringSubmatch(l); m != nil {
			h.DroppedNodes, _ = strconv.Atoi(m[1])
			h.DroppedCutoff, _ = strconv.ParseInt(m[2], 10, 64)
		} else if m := droppedERx.FindStringSubmatch(l); m != nil {
			h.DroppedEdges, _ = strconv.Atoi(m[1])
			h.DroppedEdgeFreq, _ = strconv.ParseInt(m[2], 10, 64)
		} else if m := topNRx.FindStringSubmatch(l); m != nil {
			h.TopN, _ = strconv.Atoi(m[1])
			h.OutOf, _ = strconv.Atoi(m[2])
		} else if strings.HasPrefix(l, "flat  flat%") || strings.HasPrefix(l, "-----") {
			break
		}
		h.Lines = append(h.Lines, lines[i])
	}
	return h, i
}

// Top parses the output of -top / -text.
func Top(out string) (Header, []TopRow, error) {
	lines := strings.Split(strings.TrimRight(out, "\n"), "\n")
	h, i := parseHeader(lines)
	if i >= len(lines) || !strings.HasPrefix(strings.TrimSpace(lines[i]), "flat  flat%") {
		return h, nil, fmt.Errorf("column header line not found")
	}
	var rows []TopRow
	for _, l := range lines[i+1:] {
		if strings.TrimSpace(l) == "" {
			continue
		}
		m := topRowRx.FindStringSubmatch(l)
		if m == nil {
			return h, nil, fmt.Errorf("unparseable row %q", l)
		}
		r := TopRow{FlatPct: m[2], SumPct: m[3], CumPct: m[5]}
		r.Flat, _ = strconv.ParseInt(m[1], 10, 64)
		r.Cum, _ = strconv.ParseInt(m[4], 10, 64)
		r.Name, r.Inline = stripInline(m[6])
		rows = append(rows, r)
	}
	return h, rows, nil
}

// TreeEdge is a caller or callee line.
type TreeEdge struct {
	W      int64
	Pct    string
	Name   string
	Inline bool
}

// TreeNode is one block of a -tree / -peek report.
type TreeNode struct {
	Row     TopRow
	Callers []TreeEdge
	Callees []TreeEdge
}

var (
	treeEdgeRx = regexp.MustCompile(`^\s+(-?\d+)\s+(\S+) \|   (.*)$`)
	treeNodeRx = regexp.MustCompile(`^\s*(-?\d+)\s+(\S+)\s+(\S+)\s+(-?\d+)\s+(\S+)\s+\| (.*)$`)
)

// Tree parses the output of -tree (and the blocks of -peek).
func Tree(out string) (Header, []TreeNode, error) {
	lines := strings.Split(strings.TrimRight(out, "\n"), "\n")
	h, i := parseHeader(lines)
	var nodes []TreeNode
	var cur *TreeNode
	var pendingCallers []TreeEdge
	seenNode := false
	for _, l := range lines[i:] {
		switch {
		case strings.HasPrefix(l, "-----"):
			if cur != nil {
				nodes = append(nodes, *cur)
			} else if len(pendingCallers) > 0 {
				return h, nil, fmt.Errorf("caller lines without a node line")
			}
			cur, pendingCallers, seenNode = nil, nil, false
		case strings.Contains(l, "flat  flat%"):
		case strings.TrimSpace(l) == "":
		default:
			if m := treeNodeRx.FindStringSubmatch(l); m != nil && !seenNode {
				r := TopRow{FlatPct: m[2], SumPct: m[3], CumPct: m[5]}
				r.Flat, _ = strconv.ParseInt(m[1], 10, 64)
				r.Cum, _ = strconv.ParseInt(m[4], 10, 64)
				r.Name, r.Inline = stripInline(m[6])
				cur = &TreeNode{Row: r, Callers: pendingCallers}
				pendingCallers = nil
				seenNode = true
				continue
			}
			if m := treeEdgeRx.FindStringSubmatch(l); m != nil {
				e := TreeEdge{Pct: m[2]}
				e.W, _ = strconv.ParseInt(m[1], 10, 64)
				name, inl := stripInline(m[3])
				e.Name, e.Inline = name, inl != ""
				if cur == nil {
					pendingCallers = append(pendingCallers, e)
				} else {
					cur.Callees = append(cur.Callees, e)
				}
				continue
			}
			return h, nil, fmt.Errorf("unparseable tree line %q", l)
		}
	}
	if cur != nil {
		nodes = append(nodes, *cur)
	}
	return h, nodes, nil
}

// Trace is one sample of a -traces report.
type Trace struct {
	Labels []string // "key:  values" lines, trimmed
	Value  int64
	Frames []string // leaf first, inline markers stripped
	Inline []bool
}

var traceValRx = regexp.MustCompile(`^( *)(-?\d+)   (.*)$`)
var traceContRx = regexp.MustCompile(`^ {13}(.*)$`)
var traceLabelRx = regexp.MustCompile(`^\s*(\S.*?):  (.*)$`)

// Traces parses the output of -traces.
func Traces(out string) ([]Trace, error) {
	lines := strings.Split(strings.TrimRight(out, "\n"), "\n")
	var traces []Trace
	var cur *Trace
	started := false
	for _, l := range lines {
		if strings.HasPrefix(l, "-----------+") {
			if cur != nil {
				traces = append(traces, *cur)
			}
			cur = &Trace{}
			started = true
			continue
		}
		if !started {
			continue
		}
		if cur == nil {
			continue
		}
		if len(cur.Frames) == 0 {
			if m := traceValRx.FindStringSubmatch(l); m != nil && (len(m[1])+len(m[2]) == 10 || (m[1] == "" && len(m[2]) > 10)) {
				cur.Value, _ = strconv.ParseInt(m[2], 10, 64)
				n, inl := stripInline(m[3])
				cur.Frames = append(cur.Frames, n)
				cur.Inline = append(cur.Inline, inl != "")
				continue
			}
			if m := traceLabelRx.FindStringSubmatch(l); m != nil {
				cur.Labels = append(cur.Labels, m[1]+":"+m[2])
				continue
			}
			return nil, fmt.Errorf("unparseable traces line %q", l)
		}
		if m := traceContRx.FindStringSubmatch(l); m != nil {
			n, inl := stripInline(m[1])
			cur.Frames = append(cur.Frames, n)
			cur.Inline = append(cur.Inline, inl != "")
			continue
		}
		return nil, fmt.Errorf("unparseable traces frame line %q", l)
	}
	// the final separator opened an empty trace
	if cur != nil && len(cur.Frames) > 0 {
		traces = append(traces, *cur)
	}
	return traces, nil
}

// DotNode is a report node recovered from DOT.
type DotNode struct {
	ID        string
	Name      string // from the tooltip: printable name
	Flat, Cum int64
}

// DotReportEdge is a report edge recovered from DOT.
type DotReportEdge struct {
	Src, Dst string // printable names
	SrcID    string
	DstID    string
	W        int64
	Residual bool
	Inline   bool
}

var nodeTipRx = regexp.MustCompile(`(?s)^(.*) \((-?\d+)\)$`)
var flatLabelRx = regexp.MustCompile(`(?:^|\\n)(-?\d+)(?: \([^)]*\))?(?:\\nof (-?\d+) \([^)]*\))?(?:\\n)?$`)
var zeroFlatRx = regexp.MustCompile(`(?:^|\\n)0 of (-?\d+) \([^)]*\)(?:\\n)?$`)

// DotReport extracts report nodes and edges (with their numbers) from a parsed DOT graph.
// Node ids N<k> are entries; N<k>_<j> are tag nodelets and are skipped.
func DotReport(g *DotGraph) ([]DotNode, []DotReportEdge, error) {
	isEntry := func(id string) bool {
		return len(id) > 1 && id[0] == 'N' && !strings.Contains(id, "_") && strings.Trim(id[1:], "0123456789") == ""
	}
	byID := map[string]*DotNode{}
	var nodes []DotNode
	for _, id := range g.NodeOrder {
		if !isEntry(id) {
			continue
		}
		a := g.Nodes[id]
		m := nodeTipRx.FindStringSubmatch(DotUnescape(a["tooltip"]))
		if m == nil {
			return nil, nil, fmt.Errorf("node %s has tooltip %q", id, a["tooltip"])
		}
		n := DotNode{ID: id, Name: m[1]}
		n.Cum, _ = strconv.ParseInt(m[2], 10, 64)
		lbl := a["label"]
		if z := zeroFlatRx.FindStringSubmatch(lbl); z != nil {
			n.Flat = 0
		} else if f := flatLabelRx.FindStringSubmatch(lbl); f != nil {
			n.Flat, _ = strconv.ParseInt(f[1], 10, 64)
			if f[2] != "" {
				c, _ := strconv.ParseInt(f[2], 10, 64)
				if c != n.Cum {
					return nil, nil, fmt.Errorf("node %s label cum %d differs from tooltip cum %d", id, c, n.Cum)
				}
			} else if n.Flat != n.Cum {
				return nil, nil, fmt.Errorf("node %s label %q shows only flat %d but tooltip cum is %d", id, lbl, n.Flat, n.Cum)
			}
		} else {
			return nil, nil, fmt.Errorf("node %s label %q has no flat/cum line", id, lbl)
		}
		nodes = append(nodes, n)
		byID[id] = &nodes[len(nodes)-1]
	}
	var edges []DotReportEdge
	for _, e := range g.Edges {
		if !isEntry(e.Src) || !isEntry(e.Dst) {
			continue
		}
		lbl := strings.TrimSpace(strings.Split(e.Attrs["label"], `\n`)[0])
		w, err := strconv.ParseInt(lbl, 10, 64)
		if err != nil {
			return nil, nil, fmt.Errorf("edge %s->%s label %q", e.Src, e.Dst, e.Attrs["label"])
		}
		edges = append(edges, DotReportEdge{Src: byID[e.Src].Name, Dst: byID[e.Dst].Name, SrcID: e.Src, DstID: e.Dst, W: w,
			Residual: e.Attrs["style"] == "dotted", Inline: strings.Contains(e.Attrs["label"], "(inline)")})
	}
	return nodes, edges, nil
}
