// Package c10 monitors that every interactive command and every web request sees the pristine
// profile: its output equals that of a fresh session that only replays the option assignments made
// before it (fresh-session equivalence), and the loaded profile object never changes.
package c10

import (
	"bytes"
	"fmt"
	"math/rand"
	"os"
	"path/filepath"
	"regexp"
	"sort"
	"strings"
	"time"

	"github.com/google/pprof/profile"
	"github.com/google/pprof/verif/internal/drv"
	"github.com/google/pprof/verif/internal/gen"
	"github.com/google/pprof/verif/internal/harness"
	"github.com/google/pprof/verif/internal/sess"
)

// GenProfile makes profiles on which mutating reports have something to mutate: inlined shared
// locations, labels (string and numeric), several sample types, file paths.
func GenProfile(r *rand.Rand) *profile.Profile {
	o := gen.Opt{Types: [][2]string{{"samples", "count"}, {"cpu", "nanoseconds"}}, Labels: true, NumLabels: true, Recursion: true, Unsym: r.Intn(3) == 0,
		ValueClass: 4, MinSamples: 3, MaxSamples: 10, MaxDepth: 5, MaxFuncs: 6, MaxLocs: 8, Columns: true, IDMode: 1 + r.Intn(3), Alphabet: []int{gen.Plain, gen.GoNames, gen.Cpp}[r.Intn(3)],
		LabelKeys: []string{"k1", "k2"}, LabelVals: []string{"v1", "v2", "x"}, NumUnits: []string{"bytes"}}
	o.FileFn = func(r *rand.Rand) string {
		return []string{"/src/a.go", "/src/dir/b.go", "c.cc", "/other/d.go"}[r.Intn(4)]
	}
	p := gen.Profile(r, o)
	p.DropFrames = []string{"", "", "main|a"}[r.Intn(3)]
	if r.Intn(4) == 0 {
		// two sample types of one unit family at very different magnitudes (reports of the two
		// choose output units that differ only by the case of their prefix: M*GCU and m*GCU)
		p.SampleType = []*profile.ValueType{{Type: "big", Unit: "gcu"}, {Type: "small", Unit: "milligcu"}}
		for _, s := range p.Sample {
			s.Value = []int64{int64(2+r.Intn(7)) * 1000000, int64(1 + r.Intn(9))}
		}
		p.DefaultSampleType = ""
	}
	return p
}

type line struct {
	text   string
	assign bool
}

var assignPool = []string{"focus=main", "focus=a|b", "focus=a", "focus=", "ignore=c", "ignore=b|c", "ignore=", "hide=d|e", "hide=", "show=a|b|main|run", "show=", "show_from=b", "show_from=", "prune_from=c", "prune_from=",
	"tagfocus=v1", "tagfocus=", "tagignore=x", "tagignore=", "tagshow=k1", "tagshow=", "taghide=k2", "taghide=", "tagroot=k1", "tagroot=", "tagleaf=k2", "tagleaf=",
	"granularity=lines", "granularity=files", "granularity=functions", "granularity=addresses", "granularity=filefunctions", "lines", "functions", "files",
	"noinlines", "noinlines=false", "nodecount=2", "nodecount=-1", "nodefraction=0.3", "nodefraction=0.005", "edgefraction=0.2", "cum", "flat", "sort=cum", "sort=flat",
	"sample_index=samples", "sample_index=cpu", "sample_index=big", "sample_index=small", "big", "small", "samples", "cpu", "mean_cpu", "total_cpu", "mean", "mean=false", "call_tree", "call_tree=false", "relative_percentages", "relative_percentages=false",
	"unit=ms", "unit=minimum", "trim=false", "trim", "trim_path=/src", "trim_path=", "source_path=/work/src", "source_path=/w/other:/w/dir", "source_path=", "divide_by=2", "divide_by=1", "drop_negative", "drop_negative=false", "compact_labels=false", "showcolumns", "showcolumns=false", ":"}

var commandPool = []string{"top", "top 3", "top5", "top -cum", "top 4 main", "top a -b", "top a b -c", "top a -b -c", "top a|b -c", "traces a b -c", "traces a -b -c", "top 2 -cum c", "text", "tree", "tree 3", "peek a|b", "peek main", "traces", "tags", "tags k1", "tags v1 -x", "raw", "comments",
	"dot", "dot 3", "dot main", "callgrind", "proto", "topproto", "list main", "list a", "weblist a", "disasm a", "top > t.txt", "top 2 > t.txt", "traces > t.txt", "tree > t.txt", "tree >tree.out", "dot > g.dot", "proto > p.pb.gz", "svg", "o", "help top", "nosuch", "top ("}

func genHistory(r *rand.Rand) []line {
	var h []line
	for i, n := 0, 5+r.Intn(16); i < n; i++ {
		if r.Intn(5) < 2 {
			h = append(h, line{assignPool[r.Intn(len(assignPool))], true})
		} else {
			h = append(h, line{commandPool[r.Intn(len(commandPool))], false})
		}
	}
	return h
}

var dirRx = regexp.MustCompile(`[^\s"]*verif-C10-[0-9]+/(full|fresh[0-9]+)`)

func normSeg(s sess.Segment) string {
	return dirRx.ReplaceAllString(normSeg0(s), "<DIR>")
}

func normSeg0(s sess.Segment) string {
	var sb strings.Builder
	sb.WriteString("STDOUT:\n" + s.Stdout + "\nUI.OUT:\n")
	for _, l := range s.UIOut {
		sb.WriteString(drv.NormalizeTmpNames(l) + "\n")
	}
	sb.WriteString("UI.ERR:\n")
	for _, l := range s.UIErr {
		sb.WriteString(drv.NormalizeTmpNames(l) + "\n")
	}
	var names []string
	for n := range s.Files {
		names = append(names, n)
	}
	sort.Strings(names)
	for _, n := range names {
		content := s.Files[n]
		if strings.HasSuffix(n, ".pb.gz") {
			// gzip output embeds no timestamps in pprof, but compare the decoded profile text to be layout independent
			if p, err := profile.ParseData([]byte(content)); err == nil {
				content = p.String()
			}
		}
		fmt.Fprintf(&sb, "FILE %s:\n%s\n", drv.NormalizeTmpNames(n), content)
	}
	return sb.String()
}

// part firstcmd: the very first command of a session, with no option changed, reports on the
// profile as loaded: what it writes equals what the same report gives non-interactively (nothing
// the shell does before its first prompt - such as composing its greeting - may have touched it).
func runFirstCmd(c *harness.Ctx) harness.Result {
	r := c.Rng
	p := GenProfile(r)
	for i, sm := range p.Sample {
		if sm.NumLabel == nil {
			sm.NumLabel = map[string][]int64{}
		}
		sm.NumLabel["latency"] = []int64{int64(1 + i)}
		if i%2 == 0 {
			if sm.NumUnit == nil {
				sm.NumUnit = map[string][]string{}
			}
			sm.NumUnit["latency"] = []string{"milliseconds"}
		}
	}
	for _, f := range p.Function {
		if r.Intn(2) == 0 && f.Filename != "" {
			f.Filename = "/proc/self/cwd/" + strings.TrimLeft(f.Filename, "/")
		}
	}
	format := []string{"tags", "traces", "raw", "top", "tree", "peek"}[r.Intn(6)]
	cmd, extra := format, map[string]string{}
	if format == "peek" {
		cmd, extra = "peek .", map[string]string{"peek": "."}
	}
	var buf bytes.Buffer
	p.WriteUncompressed(&buf)
	res := harness.Result{NonTrivial: true, Sig: fmt.Sprint("first ", format, c.Index), Sample: map[string]any{"command": cmd}}
	sr, err := sess.Run(sess.Spec{Profile: buf.Bytes(), Mode: "interactive", Lines: []string{cmd + " > first.txt"}, Dir: c.Tmp + "/s"}, 2*time.Minute)
	if err != nil || sr.Panic != "" || len(sr.Segments) < 1 {
		return harness.Result{Verdict: harness.Inconclusive, Detail: fmt.Sprintf("session: %v %s", err, sr.Panic)}
	}
	got := ""
	for n, body := range sr.Segments[0].Files {
		if strings.HasSuffix(n, "first.txt") {
			got = string(sess.FileBytes(body))
		}
	}
	b := map[string]bool{format: true}
	if format == "peek" {
		b = map[string]bool{}
	}
	want, ui, rr := drv.Report(map[string]*profile.Profile{"p": p}, []string{"p"}, b, extra, nil, nil, nil)
	if rr.Panic != "" || rr.Err != nil {
		return harness.Result{Verdict: harness.Inconclusive, Detail: fmt.Sprintf("one-shot run failed: %v %s %v", rr.Err, rr.Panic, ui.Errs)}
	}
	c.Stat("first_commands", 1)
	// the shell prints the profile's legend (file, build id, type, time, duration) once in its
	// greeting and leaves it out of its reports
	legend := regexp.MustCompile(`(?m)^(File|Build ID|Type|Time|Duration|Doc): .*\n`)
	got, want = legend.ReplaceAllString(got, ""), legend.ReplaceAllString(want, "")
	if got != want {
		res.Verdict = harness.Violated
		res.Detail = fmt.Sprintf("%q as the first command of an interactive session writes something else than pprof -%s on the same profile with the same (default) options\n%s", cmd, format, diff(got, want))
	}
	return res
}

// part order: the same option values reached by assignments in two different orders (and, in one
// session, through intermediate values) give the same report: what a command prints depends on the
// values in effect, not on how they came about.
func runOrder(c *harness.Ctx) harness.Result {
	r := c.Rng
	p := GenProfile(r)
	var buf bytes.Buffer
	p.WriteUncompressed(&buf)
	values := map[string][]string{
		"sample_index": {"samples", "cpu"}, "mean": {"true", "false"}, "divide_by": {"2", "1", "1000"}, "unit": {"ms", "minimum", "us"}, "focus": {"main", "a|b", ""}, "ignore": {"c", ""}, "hide": {"d|e", ""},
		"nodecount": {"2", "5", "-1"}, "sort": {"cum", "flat"}, "granularity": {"lines", "files", "functions"}, "relative_percentages": {"true", "false"}, "compact_labels": {"false", "true"}, "call_tree": {"true", "false"}, "noinlines": {"true", "false"}, "trim_path": {"/src", ""},
	}
	if p.SampleType[0].Type != "samples" {
		values["sample_index"] = []string{p.SampleType[0].Type, p.SampleType[1].Type}
	}
	var keys []string
	for k := range values {
		keys = append(keys, k)
	}
	sort.Strings(keys)
	r.Shuffle(len(keys), func(i, j int) { keys[i], keys[j] = keys[j], keys[i] })
	keys = keys[:2+r.Intn(4)]
	if r.Intn(2) == 0 {
		// the legend lines are part of what is compared, and they depend on the sample type, the
		// mean option and the units
		keys = append(keys, "compact_labels")
		for _, k := range []string{"sample_index", []string{"mean", "divide_by", "unit"}[r.Intn(3)]} {
			has := false
			for _, x := range keys {
				has = has || x == k
			}
			if !has {
				keys = append(keys, k)
			}
		}
		r.Shuffle(len(keys), func(i, j int) { keys[i], keys[j] = keys[j], keys[i] })
	}
	final := map[string]string{}
	var a []string
	for pass := 0; pass < 2; pass++ {
		for _, k := range keys {
			if pass == 0 && r.Intn(2) == 0 {
				continue // some options get an intermediate value first
			}
			v := values[k][r.Intn(len(values[k]))]
			if k == "compact_labels" && pass == 1 {
				v = "false"
			}
			a = append(a, k+"="+v)
			final[k] = v
		}
	}
	var b []string
	fk := make([]string, 0, len(final))
	for k := range final {
		fk = append(fk, k)
	}
	sort.Sort(sort.Reverse(sort.StringSlice(fk)))
	for _, k := range fk {
		b = append(b, k+"="+final[k])
	}
	cmd := []string{"dot", "top", "tree", "top > t.txt", "peek main", "tags", "traces", "dot", "top", "tree"}[r.Intn(10)]
	res := harness.Result{NonTrivial: true, Sig: fmt.Sprintf("order %q %s %d", a, cmd, c.Index), Sample: map[string]any{"session A": append(append([]string{}, a...), cmd), "session B": append(append([]string{}, b...), cmd)}}
	run := func(lines []string, dir string) (string, error) {
		sr, err := sess.Run(sess.Spec{Profile: buf.Bytes(), Mode: "interactive", Lines: append(append([]string{}, lines...), cmd), Dir: dir}, 2*time.Minute)
		if err != nil {
			return "", err
		}
		if sr.Panic != "" || len(sr.Segments) < len(lines)+1 {
			return "", fmt.Errorf("session stopped early: %s", harness.Trunc(sr.Panic, 500))
		}
		return normSeg(sr.Segments[len(lines)]), nil
	}
	ga, err := run(a, c.Tmp+"/a")
	if err != nil {
		return harness.Result{Verdict: harness.Inconclusive, Detail: err.Error()}
	}
	gb, err := run(b, c.Tmp+"/b")
	if err != nil {
		return harness.Result{Verdict: harness.Inconclusive, Detail: err.Error()}
	}
	c.Stat("order_pairs", 1)
	if ga != gb {
		res.Verdict = harness.Violated
		res.Detail = fmt.Sprintf("%q prints something else after the assignments %q than after %q, which leave the same option values in effect\n%s", cmd, a, b, diff(ga, gb))
	}
	return res
}

// part viewers: what a visualizing command showed stays what it showed. A launcher-style viewer
// (it hands the file to a running program and exits at once, like xdg-open) is given each report
// file; it keeps a copy of what it saw. After a second visualizing command, more than a second
// later, the first file still holds the first report.
func runViewers(c *harness.Ctx) harness.Result {
	r := c.Rng
	p := GenProfile(r)
	var buf bytes.Buffer
	p.WriteUncompressed(&buf)
	tools := filepath.Join(c.Tmp, "viewers")
	os.MkdirAll(tools, 0o755)
	logf := filepath.Join(c.Tmp, "viewed.log")
	violf := filepath.Join(c.Tmp, "viewed.changed")
	script := "#!/bin/sh\nif [ -f " + logf + " ]; then while read f s; do if [ -f \"$f\" ] && ! /usr/bin/cmp -s \"$f\" \"$s\"; then echo \"$f $s\" >> " + violf + "; fi; done < " + logf + "; fi\n" +
		"/bin/cp \"$1\" \"$1.seen.$$\"\necho \"$1 $1.seen.$$\" >> " + logf + "\n"
	for _, v := range []string{"kcachegrind", "xdg-open", "sensible-browser", "gv", "evince", "eog"} {
		os.WriteFile(filepath.Join(tools, v), []byte(script), 0o755)
	}
	cmds := [][2]string{{"kcachegrind", "kcachegrind main"}, {"kcachegrind", "kcachegrind a"}, {"kcachegrind -cum", "kcachegrind f"}, {"kcachegrind a", "kcachegrind"}}[r.Intn(4)]
	lines := []string{cmds[0], cmds[1], "top"}
	res := harness.Result{NonTrivial: true, Sig: fmt.Sprintf("viewers %q %d", lines, c.Index), Sample: map[string]any{"lines": lines}}
	sr, err := sess.Run(sess.Spec{Profile: buf.Bytes(), Mode: "interactive", Lines: lines, Dir: c.Tmp + "/s", Path: tools + ":/bin:/usr/bin", LineDelayMs: 1300}, 2*time.Minute)
	if err != nil || sr.Panic != "" {
		return harness.Result{Verdict: harness.Inconclusive, Detail: fmt.Sprintf("session: %v %s", err, sr.Panic)}
	}
	b, _ := os.ReadFile(logf)
	var files []string
	for _, l := range strings.Split(strings.TrimSpace(string(b)), "\n") {
		if l != "" {
			files = append(files, l)
		}
	}
	c.Stat("viewer_sessions", 1)
	c.Stat("viewer_invocations", int64(len(files)))
	if len(files) < 2 {
		return harness.Result{Verdict: harness.Inconclusive, Detail: fmt.Sprintf("the stand-in viewer ran %d times for %q", len(files), lines)}
	}
	if b, err := os.ReadFile(violf); err == nil && len(b) > 0 {
		f, _, _ := strings.Cut(strings.TrimSpace(string(b)), " ")
		res.Verdict = harness.Violated
		res.Detail = fmt.Sprintf("session %q: when the second visualizing command started its viewer, the file handed to the first viewer (%s) no longer held what that viewer was shown (a later command wrote its report into it)", lines, drv.NormalizeTmpNames(f))
	}
	return res
}

func runInteractive(c *harness.Ctx) harness.Result {
	r := c.Rng
	p := GenProfile(r)
	var buf bytes.Buffer
	p.WriteUncompressed(&buf)
	h := genHistory(r)
	var lines []string
	for _, l := range h {
		lines = append(lines, l.text)
	}
	res := harness.Result{NonTrivial: true, Sig: fmt.Sprintf("%d lines %d", len(h), c.Index), Sample: map[string]any{"history": lines, "profile": gen.Describe(p)}}
	// every other history lets pprof write its output files itself (into the session directory)
	// instead of handing them to a Writer plug-in
	osw := c.Index%2 == 1
	full, err := sess.Run(sess.Spec{Profile: buf.Bytes(), Mode: "interactive", Lines: lines, Dir: c.Tmp + "/full", OSWriter: osw}, 2*time.Minute)
	if err != nil {
		return harness.Result{Verdict: harness.Inconclusive, Detail: "session: " + err.Error()}
	}
	if full.Panic != "" {
		return harness.Violation("session panicked: %s\nhistory: %q", harness.Trunc(full.Panic, 2000), lines)
	}
	if !full.ProfileUnchanged {
		res.Verdict, res.Detail = harness.Violated, fmt.Sprintf("the loaded profile object was modified %s\nhistory: %q", full.ProfileChangedAt, lines)
		return res
	}
	if len(full.Segments) < len(h) {
		return harness.Violation("session produced %d segments for %d lines (err=%s)\nhistory: %q", len(full.Segments), len(h), full.Err, lines)
	}
	c.Stat("sessions", 1)
	var assigns []string
	for i, l := range h {
		if l.assign {
			assigns = append(assigns, l.text)
			continue
		}
		replay := append(append([]string{}, assigns...), l.text)
		fresh, err := sess.Run(sess.Spec{Profile: buf.Bytes(), Mode: "interactive", Lines: replay, Dir: fmt.Sprintf("%s/fresh%d", c.Tmp, i), OSWriter: osw}, 2*time.Minute)
		if err != nil {
			return harness.Result{Verdict: harness.Inconclusive, Detail: "fresh session: " + err.Error()}
		}
		c.Stat("commands_compared", 1)
		if len(fresh.Segments) < len(replay) {
			return harness.Result{Verdict: harness.Inconclusive, Detail: fmt.Sprintf("fresh session produced %d segments for %d lines", len(fresh.Segments), len(replay))}
		}
		got, want := normSeg(full.Segments[i]), normSeg(fresh.Segments[len(replay)-1])
		if got != want {
			res.Verdict = harness.Violated
			res.Detail = fmt.Sprintf("line %d %q answers differently in the session than in a fresh session that only replays the %d assignments before it\nhistory so far: %q\n--- in session\n%s\n--- fresh session\n%s\nprofile:\n%s", i, l.text, len(assigns), lines[:i+1], harness.Trunc(got, 1800), harness.Trunc(want, 1800), harness.Trunc(p.String(), 1500))
			return res
		}
	}
	return res
}

// listings of a real binary through pprof's own binutils wrapper (objdump, nm): the assembler
// syntax and every other listing option in effect must be those assigned before the command
func runDisasm(c *harness.Ctx) harness.Result {
	r := c.Rng
	repo := os.Getenv("VERIF_REPO")
	if repo == "" {
		repo = "/repo"
	}
	exe := filepath.Join(repo, "internal/binutils/testdata/exe_linux_64")
	if _, err := os.Stat(exe); err != nil {
		return harness.Result{Verdict: harness.Inconclusive, Detail: "test binary missing: " + err.Error()}
	}
	if _, err := os.Stat("/usr/bin/objdump"); err != nil {
		return harness.Result{Verdict: harness.Inconclusive, Detail: "objdump not installed"}
	}
	m := &profile.Mapping{ID: 1, Start: 0x400000, Limit: 0x401000, File: exe}
	fn := &profile.Function{ID: 1, Name: "main", SystemName: "main", Filename: "hello.c"}
	p := &profile.Profile{SampleType: []*profile.ValueType{{Type: "samples", Unit: "count"}}, PeriodType: &profile.ValueType{Type: "cpu", Unit: "nanoseconds"}, Period: 1, Mapping: []*profile.Mapping{m}, Function: []*profile.Function{fn}}
	for i := 0; i < 3; i++ {
		l := &profile.Location{ID: uint64(i + 1), Mapping: m, Address: 0x40052d + uint64(4*i+r.Intn(3)), Line: []profile.Line{{Function: fn, Line: int64(4 + i)}}}
		p.Location = append(p.Location, l)
		p.Sample = append(p.Sample, &profile.Sample{Value: []int64{int64(1 + r.Intn(9))}, Location: []*profile.Location{l}})
	}
	// half of the sessions also hold samples of a second binary that objdump cannot handle (a
	// foreign or damaged object: its objdump run fails without output)
	tools := ""
	if r.Intn(2) == 0 {
		other := filepath.Join(c.Tmp, "other_bin")
		if data, err := os.ReadFile(exe); err == nil && os.WriteFile(other, data, 0o755) == nil {
			td := filepath.Join(c.Tmp, "tools")
			os.MkdirAll(td, 0o755)
			os.WriteFile(filepath.Join(td, "objdump"), []byte("#!/bin/sh\ncase \"$*\" in *other_bin*) exit 1;; esac\nexec /usr/bin/objdump \"$@\"\n"), 0o755)
			tools = "addr2line:/usr/bin,nm:/usr/bin,objdump:" + td + ",llvm-symbolizer:/nonexistent"
			m2 := &profile.Mapping{ID: 2, Start: 0x10400000, Limit: 0x10401000, File: other}
			l := &profile.Location{ID: 4, Mapping: m2, Address: 0x1040052d, Line: []profile.Line{{Function: fn, Line: 4}}}
			p.Mapping = append(p.Mapping, m2)
			p.Location = append(p.Location, l)
			p.Sample = append(p.Sample, &profile.Sample{Value: []int64{1}, Location: []*profile.Location{l}})
			c.Stat("disasm_sessions_with_unreadable_binary", 1)
		}
	}
	var buf bytes.Buffer
	p.WriteUncompressed(&buf)
	pool := []line{{"disasm main", false}, {"intel_syntax=true", true}, {"intel_syntax=false", true}, {"intel_syntax", true}, {"disasm main > d.txt", false}, {"weblist main > w.html", false}, {"disasm .", false}, {"unit=ms", true}, {"top", false}}
	var h []line
	for i, n := 0, 4+r.Intn(6); i < n; i++ {
		h = append(h, pool[r.Intn(len(pool))])
	}
	var lines []string
	for _, l := range h {
		lines = append(lines, l.text)
	}
	res := harness.Result{NonTrivial: true, Sig: fmt.Sprintf("disasm %q", lines), Sample: map[string]any{"history": lines, "binary": "internal/binutils/testdata/exe_linux_64"}}
	full, err := sess.Run(sess.Spec{Profile: buf.Bytes(), Mode: "interactive", Lines: lines, Dir: c.Tmp + "/full", RealObj: true, Tools: tools}, 2*time.Minute)
	if err != nil {
		return harness.Result{Verdict: harness.Inconclusive, Detail: "session: " + err.Error()}
	}
	if full.Panic != "" || len(full.Segments) < len(h) {
		return harness.Violation("session panicked or stopped: %s\nhistory: %q", harness.Trunc(full.Panic, 1500), lines)
	}
	c.Stat("disasm_sessions", 1)
	listed := false
	var assigns []string
	for i, l := range h {
		if l.assign {
			assigns = append(assigns, l.text)
			continue
		}
		replay := append(append([]string{}, assigns...), l.text)
		fresh, err := sess.Run(sess.Spec{Profile: buf.Bytes(), Mode: "interactive", Lines: replay, Dir: fmt.Sprintf("%s/fresh%d", c.Tmp, i), RealObj: true, Tools: tools}, 2*time.Minute)
		if err != nil || len(fresh.Segments) < len(replay) {
			return harness.Result{Verdict: harness.Inconclusive, Detail: fmt.Sprintf("fresh session: %v", err)}
		}
		got, want := normSeg(full.Segments[i]), normSeg(fresh.Segments[len(replay)-1])
		if strings.Contains(want, "push") || strings.Contains(want, "mov") {
			listed = true
		}
		c.Stat("disasm_commands_compared", 1)
		if got != want {
			res.Verdict = harness.Violated
			res.Detail = fmt.Sprintf("line %d %q answers differently in the session than in a fresh session that only replays the %d assignments before it\nhistory so far: %q\n--- in session\n%s\n--- fresh session\n%s", i, l.text, len(assigns), lines[:i+1], harness.Trunc(got, 1500), harness.Trunc(want, 1500))
			return res
		}
	}
	if listed {
		c.Stat("disasm_listings_with_instructions", 1)
	}
	return res
}

var webPaths = []string{"/top", "/", "/peek", "/flamegraph", "/source", "/disasm", "/download"}
var webTypos = []string{"f=F1(", "i=F3)", "h=[12", "si=nosuchtype", "s=*", "sf=(", "prunefrom=a(", "tf=x(", "ti=)"}
var webParams = []string{"f=main", "f=a", "f=a|b", "i=c", "h=d|e", "s=a|b|main", "sf=b", "g=lines", "g=files", "g=addresses", "si=cpu", "si=samples", "si=space", "n=2", "sort=cum", "noinlines=t", "tf=v1", "ti=x", "ts=k1", "th=k2", "tagroot=k1", "tagleaf=k2", "calltree=t", "mean=t", "rel=t", "nodefraction=0.3", "trim=false", "prunefrom=c", "unit=ms", "showcolumns=t"}

func genRequests(r *rand.Rand, n int) []string {
	var out []string
	// a fifth of the histories come from a user who keeps mistyping expressions
	typos := r.Intn(5) == 0
	for i := 0; i < n; i++ {
		u := webPaths[r.Intn(len(webPaths))]
		var ps []string
		for j, k := 0, r.Intn(4); j < k; j++ {
			ps = append(ps, webParams[r.Intn(len(webParams))])
		}
		if typos && r.Intn(2) == 0 || r.Intn(25) == 0 {
			ps = append(ps, webTypos[r.Intn(len(webTypos))])
		}
		if (u == "/source" || u == "/disasm" || u == "/peek") && r.Intn(4) > 0 {
			ps = append(ps, "f="+[]string{"main", "a", "b", "."}[r.Intn(4)])
		}
		if len(ps) > 0 {
			u += "?" + strings.Join(ps, "&")
		}
		out = append(out, u)
	}
	return out
}

func runWeb(c *harness.Ctx) harness.Result {
	r := c.Rng
	p := GenProfile(r)
	if r.Intn(3) == 0 {
		// a numeric tag whose unit differs from sample to sample: every page that builds a report
		// carries pprof's warning about it in its error banner
		for i, sm := range p.Sample {
			if sm.NumLabel == nil {
				sm.NumLabel = map[string][]int64{}
			}
			if sm.NumUnit == nil {
				sm.NumUnit = map[string][]string{}
			}
			sm.NumLabel["kq"] = []int64{int64(1 + i)}
			sm.NumUnit["kq"] = []string{[]string{"bytes", "kilobytes"}[i%2]}
		}
	}
	reqs := genRequests(r, 6+r.Intn(10))
	if len(p.SampleType) == 2 && p.SampleType[1].Type == "cpu" && r.Intn(4) == 0 {
		// sample types of two unit families (bytes and time): pages about the one, then the other
		p.SampleType[0] = &profile.ValueType{Type: "space", Unit: "bytes"}
		for _, sm := range p.Sample {
			sm.Value[0] = sm.Value[0]<<20 + int64(r.Intn(1<<19))
			sm.Value[1] = sm.Value[1]*1000000 + int64(r.Intn(1000000))
		}
		first := []string{"/flamegraph", "/flamegraph?si=cpu", "/flamegraph?si=space", "/top?si=cpu", "/?si=cpu"}[r.Intn(5)]
		reqs = append([]string{first}, reqs...)
		reqs = append(reqs, []string{"/top?si=space", "/?si=space", "/flamegraph?si=space", "/peek?si=space&f=main"}[r.Intn(4)], []string{"/top", "/", "/flamegraph?si=cpu"}[r.Intn(3)])
		c.Stat("two_unit_family_sessions", 1)
	}
	var buf bytes.Buffer
	p.WriteUncompressed(&buf)
	conc := 1
	if r.Intn(2) == 0 {
		conc = 2 + r.Intn(5)
	}
	flags := map[string]string{}
	if r.Intn(3) == 0 {
		flags["focus"] = "main|a"
	}
	res := harness.Result{NonTrivial: true, Sig: fmt.Sprintf("web %d conc%d %d", len(reqs), conc, c.Index), Sample: map[string]any{"requests": reqs, "concurrency": conc, "flags": flags}}
	full, err := sess.Run(sess.Spec{Profile: buf.Bytes(), Mode: "web", Requests: reqs, Strs: flags, Dir: c.Tmp + "/full", Concurrency: conc}, 10*time.Minute)
	if err != nil {
		return harness.Result{Verdict: harness.Inconclusive, Detail: "web session: " + err.Error()}
	}
	// a request that gets no answer at all: established only if the same request of the same history
	// stays unanswered in three fresh servers (a loaded machine delays, it does not block three times)
	stuck := func(r *sess.Result) int {
		for i, sg := range r.Segments {
			if sg.Code == sess.NoAnswer {
				return i
			}
		}
		return -1
	}
	if at := stuck(full); at >= 0 && full.Err == "" {
		c.Stat("unanswered_requests_seen", 1)
		for try := 2; try <= 3; try++ {
			again, err := sess.Run(sess.Spec{Profile: buf.Bytes(), Mode: "web", Requests: reqs, Strs: flags, Dir: fmt.Sprintf("%s/full%d", c.Tmp, try), Concurrency: conc}, 10*time.Minute)
			if err != nil || again.Err != "" || stuck(again) < 0 {
				return harness.Result{Verdict: harness.Inconclusive, Detail: fmt.Sprintf("request %d GET %s got no answer once, but not in every repetition of the history", at, reqs[at])}
			}
		}
		fresh, err := sess.Run(sess.Spec{Profile: buf.Bytes(), Mode: "web", Requests: []string{reqs[at]}, Strs: flags, Dir: c.Tmp + "/freshstuck"}, 10*time.Minute)
		if err != nil || fresh.Err != "" || len(fresh.Segments) != 1 || fresh.Segments[0].Code == sess.NoAnswer {
			return harness.Result{Verdict: harness.Inconclusive, Detail: fmt.Sprintf("request %d GET %s got no answer in the history, and the fresh server did not settle it: %v", at, reqs[at], err)}
		}
		res.Verdict = harness.Violated
		res.Detail = fmt.Sprintf("request %d GET %s (concurrency %d) never gets an answer after the requests before it - in three fresh servers given the same history - while as the first request to a fresh server it is answered with status %d\nrequests: %q", at, reqs[at], conc, fresh.Segments[0].Code, reqs)
		return res
	}
	if full.Err != "" {
		return harness.Result{Verdict: harness.Inconclusive, Detail: "web session: " + full.Err}
	}
	if !full.ProfileUnchanged {
		res.Verdict, res.Detail = harness.Violated, fmt.Sprintf("the loaded profile object was modified %s\nrequests: %q", full.ProfileChangedAt, reqs)
		return res
	}
	c.Stat("web_sessions", 1)
	if conc > 1 {
		c.Stat("concurrent_sessions", 1)
		c.Stat("overlapping_request_pairs", int64(full.Overlaps))
	}
	expect := map[string]sess.Segment{}
	for i, u := range reqs {
		want, ok := expect[u]
		if !ok {
			fresh, err := sess.Run(sess.Spec{Profile: buf.Bytes(), Mode: "web", Requests: []string{u}, Strs: flags, Dir: fmt.Sprintf("%s/fresh%d", c.Tmp, i)}, 2*time.Minute)
			if err != nil || fresh.Err != "" || len(fresh.Segments) != 1 {
				return harness.Result{Verdict: harness.Inconclusive, Detail: fmt.Sprintf("fresh web session: %v %v", err, fresh)}
			}
			want = fresh.Segments[0]
			expect[u] = want
		}
		got := full.Segments[i]
		c.Stat("requests_compared", 1)
		if got.Panic != "" {
			return harness.Violation("GET %s panicked: %s", u, harness.Trunc(got.Panic, 2000))
		}
		if got.Code != want.Code || got.Body != want.Body {
			res.Verdict = harness.Violated
			res.Detail = fmt.Sprintf("request %d GET %s (concurrency %d) answers differently than as the first request to a fresh server: status %d vs %d\n%s\nrequests: %q", i, u, conc, got.Code, want.Code, diff(got.Body, want.Body), reqs)
			return res
		}
	}
	return res
}

func diff(a, b string) string {
	i := 0
	for i < len(a) && i < len(b) && a[i] == b[i] {
		i++
	}
	lo := i - 150
	if lo < 0 {
		lo = 0
	}
	ha, hb := i+200, i+200
	if ha > len(a) {
		ha = len(a)
	}
	if hb > len(b) {
		hb = len(b)
	}
	return fmt.Sprintf("first difference at byte %d:\n in session: …%q\n fresh     : …%q", i, a[lo:ha], b[lo:hb])
}

func init() {
	harness.Register(&harness.Check{
		ID:          "C10",
		Level:       "exploration",
		CaseTimeout: 15 * time.Minute,
		Rule:        "part interactive: histories of 5-20 lines mixing 45 report commands (with focus/ignore arguments, node counts, -cum, >file, mutating reports: hide/show/show_from/prune_from/tagroot/tagleaf/granularity/noinlines/callgrind/tags/list/weblist/disasm) and 84 option assignments (incl. shortcuts and ':'), run in one fresh child process with per-line transcripts (stdout, UI prints, UI errors, files written or changed - captured by a Writer plug-in or, for every other history, written by pprof itself into the session directory); for EVERY command the same command is run in another fresh process that only replays the assignments preceding it, and the transcripts must be byte-equal (temporary-file counters normalised, saved profiles compared by content). part disasm: histories of disasm / weblist commands and intel_syntax / unit assignments over a real binary (the repository's exe_linux_64) through pprof's own binutils wrapper with the installed objdump and nm, compared the same way. part web: request histories over /top / /peek /flamegraph /source /disasm /download with query configs, sequential or from 2-6 concurrent clients against one server; every response must equal the response to the same request sent first to a fresh server. The very *profile.Profile object handed to pprof is fingerprinted after every command/request and must never change. part firstcmd: the first command of a fresh session prints what the one-shot report of the same options prints. part order: the same option values reached by assignments in two different orders (and through set-and-reset detours) give byte-equal reports. part viewers: sessions with a launcher-style viewer on PATH (it snapshots the file it is handed and exits at once) and 1.3 s between lines: when a later visualizing command starts its viewer, every file handed out before still holds what its viewer was shown. Web histories also run over profiles with sample types of two unit families (bytes and time). non-trivial = every case; distinct = case",
		Assumptions: []string{"the only state a command may depend on is the sequence of option assignments before it", "saveconfig/deleteconfig are excluded here (C19)"},
		Parts: []harness.Part{
			{Name: "interactive", Quick: 500, Thor: 10000, Run: runInteractive},
			{Name: "web", Quick: 500, Thor: 10000, Run: runWeb},
			{Name: "disasm", Quick: 40, Thor: 1500, Run: runDisasm},
			{Name: "firstcmd", Quick: 120, Thor: 4000, Run: runFirstCmd},
			{Name: "order", Quick: 150, Thor: 5000, Run: runOrder},
			{Name: "viewers", Quick: 16, Thor: 300, Run: runViewers},
		},
		MinNonTrivial: func(string) int { return 100 },
		Finish: func(tier string, st map[string]int64) string {
			if st["disasm_sessions"] > 0 && st["disasm_listings_with_instructions"] == 0 {
				return "the disasm part never saw a listing with instructions (objdump/nm not usable?)"
			}
			if st["concurrent_sessions"] > 0 && st["overlapping_request_pairs"] == 0 {
				return "concurrent web sessions never overlapped two requests"
			}
			return ""
		},
	})
}
