// Package c16 monitors multi-source fetching: the report is the merge of exactly the sources that
// could be fetched, in command-line order, whatever the completion order and whichever sources fail.
package c16

import (
	"bytes"
	"compress/gzip"
	"fmt"
	"github.com/google/pprof/internal/plugin"
	"github.com/google/pprof/internal/transport"
	"io"
	"log"
	"math/rand"
	"net"
	"net/http"
	"net/http/httptest"
	"os"
	"path/filepath"
	"regexp"
	"sort"
	"strings"
	"sync"
	"time"

	"github.com/google/pprof/profile"
	"github.com/google/pprof/verif/internal/drv"
	"github.com/google/pprof/verif/internal/harness"
	"github.com/google/pprof/verif/internal/parse"
	"github.com/google/pprof/verif/internal/ref"
)

// Gate is a Fetcher + RoundTripper whose fetches block until the controller releases them. The
// controller makes no assumption about how many fetches pprof runs at a time: it collects the
// fetches that have arrived (until all outstanding ones have, or nothing new arrives for a short
// while), releases them one at a time in a chosen permutation, waiting for each to complete, and
// starts over. The completion order inside every concurrently fetched batch is thus forced.
type Gate struct {
	mu       sync.Mutex
	Profiles map[string]*profile.Profile
	Kind     map[string]string // failure kind per source ("" = good)
	release  map[string]chan struct{}
	done     map[string]chan struct{}
	arrived  chan string
	stop     chan struct{}
	stopOnce sync.Once
	fetched  map[string]int
	Events   []string // arrival / release / completion log
}

// NewGate prepares gates for the named sources.
func NewGate(names []string) *Gate {
	g := &Gate{Profiles: map[string]*profile.Profile{}, Kind: map[string]string{}, release: map[string]chan struct{}{}, done: map[string]chan struct{}{},
		arrived: make(chan string, 4*len(names)+16), stop: make(chan struct{}), fetched: map[string]int{}}
	for _, n := range names {
		g.release[n], g.done[n] = make(chan struct{}), make(chan struct{})
	}
	return g
}

func (g *Gate) log(s string) {
	g.mu.Lock()
	g.Events = append(g.Events, s)
	g.mu.Unlock()
}

// Stop ends the controller (call it when the run under test has returned).
func (g *Gate) Stop() { g.stopOnce.Do(func() { close(g.stop) }) }

// FetchCounts says how often each source was asked for.
func (g *Gate) FetchCounts() map[string]int {
	g.mu.Lock()
	defer g.mu.Unlock()
	out := map[string]int{}
	for k, v := range g.fetched {
		out[k] = v
	}
	return out
}

// Fetch implements plugin.Fetcher.
func (g *Gate) Fetch(src string, _, _ time.Duration) (*profile.Profile, string, error) {
	g.log("arrive " + src)
	g.mu.Lock()
	g.fetched[src]++
	again := g.fetched[src] > 1
	g.mu.Unlock()
	if again || g.release[src] == nil {
		return nil, "", fmt.Errorf("harness: source %s fetched more than once or not listed", src)
	}
	g.arrived <- src
	select {
	case <-g.release[src]:
	case <-g.stop:
		return nil, "", fmt.Errorf("harness: run ended before this fetch was released")
	}
	defer func() { g.log("done " + src); close(g.done[src]) }()
	switch g.Kind[src] {
	case "":
		return g.Profiles[src].Copy(), "", nil
	case "fetcher-error":
		return nil, "", fmt.Errorf("injected fetcher failure")
	case "invalid-profile":
		p := g.Profiles[src].Copy()
		if len(p.Sample) > 0 {
			p.Sample[0].Value = append(p.Sample[0].Value, 1) // one value too many
		} else {
			p.Function = append(p.Function, &profile.Function{ID: 0})
		}
		return p, "", nil
	default:
		// fall through to pprof's built-in file / HTTP fetch
		return nil, "", nil
	}
}

// RoundTrip serves the HTTP failure kinds.
func (g *Gate) RoundTrip(req *http.Request) (*http.Response, error) {
	src := strings.TrimPrefix(req.URL.Path, "/")
	mk := func(code int, body string) (*http.Response, error) {
		return &http.Response{StatusCode: code, Status: fmt.Sprintf("%d x", code), Body: io.NopCloser(strings.NewReader(body)), Header: http.Header{}, Request: req}, nil
	}
	for name, k := range g.Kind {
		_ = src
		if req.URL.Host != "" && strings.Contains(name, "//"+req.URL.Host+"/") {
			g.log("http " + k)
			switch k {
			case "http-404":
				return mk(404, "not found")
			case "http-500":
				return mk(500, "boom")
			case "garbage-body":
				return mk(200, "this is not a profile \x00\x01\x02")
			case "truncated-gzip":
				// a well-formed gzip header and the first part of a real profile's stream
				var buf bytes.Buffer
				if p := g.Profiles[name]; p != nil {
					p.Write(&buf)
				}
				b := buf.Bytes()
				if len(b) > 24 {
					b = b[:len(b)-9]
				}
				return mk(200, string(b))
			}
		}
	}
	return nil, fmt.Errorf("no route to %s", req.URL)
}

// Drive starts the controller. groups are the lists pprof was given (sources, bases); seed
// chooses the permutations.
func (g *Gate) Drive(groups [][]string, seed int64) {
	total := 0
	for _, grp := range groups {
		total += len(grp)
	}
	go func() {
		r := rand.New(rand.NewSource(seed))
		released := 0
		for released < total {
			var batch []string
			select {
			case s := <-g.arrived:
				batch = append(batch, s)
			case <-g.stop:
				return
			}
			// the rest of the batch: everything outstanding, or whatever has arrived once no
			// new fetch shows up for a while (the quiet period only shapes which orders get
			// explored, it decides nothing)
			quiet := time.NewTimer(60 * time.Millisecond)
		collect:
			for released+len(batch) < total {
				select {
				case s := <-g.arrived:
					batch = append(batch, s)
					if !quiet.Stop() {
						select {
						case <-quiet.C:
						default:
						}
					}
					quiet.Reset(60 * time.Millisecond)
				case <-quiet.C:
					break collect
				case <-g.stop:
					return
				}
			}
			quiet.Stop()
			sort.Strings(batch)
			for _, i := range r.Perm(len(batch)) {
				g.log("release " + batch[i])
				close(g.release[batch[i]])
				select {
				case <-g.done[batch[i]]:
				case <-g.stop:
					return
				}
				released++
			}
		}
	}()
}

var kinds = []string{"fetcher-error", "invalid-profile", "missing-file", "http-404", "http-500", "garbage-body", "truncated-gzip"}

func genProfile(r *rand.Rand, i int) *profile.Profile {
	p := &profile.Profile{SampleType: []*profile.ValueType{{Type: "n", Unit: "count"}, {Type: "v", Unit: "count"}}, PeriodType: &profile.ValueType{Type: "cpu", Unit: "ns"}, Period: 1}
	m := &profile.Mapping{ID: 1, Start: 0x1000, Limit: 0x9000, File: "/bin/prog"}
	p.Mapping = []*profile.Mapping{m}
	nf := 3
	for k := 0; k < nf; k++ {
		p.Function = append(p.Function, &profile.Function{ID: uint64(k + 1), Name: fmt.Sprintf("f%d", k), SystemName: fmt.Sprintf("f%d", k), Filename: "x.go"})
		p.Location = append(p.Location, &profile.Location{ID: uint64(k + 1), Mapping: m, Address: 0x1000 + uint64(k)*16, Line: []profile.Line{{Function: p.Function[k], Line: 1}}})
	}
	// sources need not agree on the set or order of sample types: only "v" is common to all
	shape := 0
	if r.Intn(10) < 3 {
		shape = 1 + r.Intn(3)
		p.SampleType = [][]*profile.ValueType{nil, {{Type: "v", Unit: "count"}, {Type: "n", Unit: "count"}}, {{Type: "v", Unit: "count"}}, {{Type: "x", Unit: "bytes"}, {Type: "v", Unit: "count"}}}[shape]
	}
	// every source has its own duration and comment, some their own binary; one in ten has no
	// samples at all (an idle server) and still counts as fetched
	p.DurationNanos = int64(1+r.Intn(5)) * 1000000000
	p.TimeNanos = int64(r.Intn(4)) * 1000000000 // 0: a source that does not say when it was collected
	p.Comments = []string{fmt.Sprintf("source %d", i)}
	if r.Intn(4) == 0 {
		m.File = fmt.Sprintf("/bin/other%d", r.Intn(3))
	}
	ns := 1 + r.Intn(3)
	if r.Intn(10) == 0 {
		ns = 0
	}
	for k, n := 0, ns; k < n; k++ {
		s := &profile.Sample{Value: []int64{int64(1 + r.Intn(3)), int64(1 + r.Intn(9))}, Label: map[string][]string{"src": {fmt.Sprint(i)}}}
		switch shape {
		case 1:
			s.Value[0], s.Value[1] = s.Value[1], s.Value[0]
		case 2:
			s.Value = s.Value[1:]
		}
		for j, d := 0, 1+r.Intn(3); j < d; j++ {
			s.Location = append(s.Location, p.Location[r.Intn(nf)])
		}
		if r.Intn(2) == 0 {
			delete(s.Label, "src") // allow samples of different sources to merge
		}
		p.Sample = append(p.Sample, s)
	}
	return p
}

type result struct {
	out  string
	errs []string
	err  error
	pan  string
}

func session(c *harness.Ctx, srcs, bases []string, profs map[string]*profile.Profile, kind map[string]string, seed int64, format string) (result, *Gate) {
	all := append(append([]string{}, srcs...), bases...)
	g := NewGate(all)
	g.Profiles, g.Kind = profs, kind
	g.Drive([][]string{srcs, bases}, seed)
	lists := map[string][]string{}
	if len(bases) > 0 {
		lists["base"] = bases
	}
	s := &drv.Session{Flags: &drv.Flags{Bools: map[string]bool{format: true, "functions": true, "flat": true, "trim": false}, Strs: map[string]string{"output": "out", "symbolize": "none", "sample_index": "v"}, Lists: lists, Args: srcs}, Fetch: g, RoundTr: g}
	res := s.Run()
	g.Stop()
	out := ""
	if bf := s.Writer.Files["out"]; bf != nil {
		out = bf.String()
	}
	return result{out, s.UI.Errs, res.Err, res.Panic}, g
}

func run(c *harness.Ctx) harness.Result {
	r := c.Rng
	drv.IsolateEnv(c.Tmp)
	os.Chdir(c.Tmp)
	sizes := []int{1, 2, 3, 5, 127, 128, 129, 256, 257, 300}
	n := sizes[c.Index%len(sizes)]
	nb := 0
	if r.Intn(3) == 0 {
		nb = []int{1, 2, 130}[r.Intn(3)]
	}
	profs := map[string]*profile.Profile{}
	kind := map[string]string{}
	var srcs, bases []string
	mkName := func(prefix string, i int, k string) string {
		switch k {
		case "http-404", "http-500", "garbage-body", "truncated-gzip":
			return fmt.Sprintf("http://%s%03d.test/pprof/profile", prefix, i)
		case "missing-file":
			return filepath.Join(c.Tmp, fmt.Sprintf("%s%03d.missing", prefix, i))
		}
		return fmt.Sprintf("%s%03d", prefix, i)
	}
	// failing subset
	subset := []string{"none", "one", "first", "last", "all-but-one", "whole-chunk", "all", "random"}[r.Intn(8)]
	failing := func(i, n int) bool {
		switch subset {
		case "one":
			return i == n/2
		case "first":
			return i == 0
		case "last":
			return i == n-1
		case "all-but-one":
			return i != n/3
		case "whole-chunk":
			return i < 128
		case "all":
			return true
		case "random":
			return r.Intn(4) == 0
		}
		return false
	}
	for i := 0; i < n; i++ {
		k := ""
		if failing(i, n) {
			k = kinds[r.Intn(len(kinds))]
		}
		name := mkName("src", i, k)
		profs[name], kind[name] = genProfile(r, i), k
		srcs = append(srcs, name)
	}
	baseFail := r.Intn(3) == 0
	for i := 0; i < nb; i++ {
		k := ""
		if baseFail && (i == 0 || r.Intn(2) == 0) {
			k = kinds[r.Intn(len(kinds))]
		}
		name := mkName("base", i, k)
		profs[name], kind[name] = genProfile(r, 1000+i), k
		bases = append(bases, name)
	}
	var goodS, goodB, failed []string
	for _, s := range srcs {
		if kind[s] == "" {
			goodS = append(goodS, s)
		} else {
			failed = append(failed, s)
		}
	}
	for _, s := range bases {
		if kind[s] == "" {
			goodB = append(goodB, s)
		} else {
			failed = append(failed, s)
		}
	}
	desc := fmt.Sprintf("%d sources (%d fail, subset %s), %d bases (%d fail)", n, n-len(goodS), subset, nb, nb-len(goodB))
	res := harness.Result{NonTrivial: n+nb >= 2, Sig: desc + fmt.Sprint(c.Index), Sample: map[string]any{"run": desc, "failure_kinds": fmt.Sprint(kindCount(kind))}}
	mustFail := len(goodS) == 0 || (nb > 0 && len(goodB) == 0)
	orders := 6
	if n > 100 {
		orders = 3
	}
	var first result
	for k := 0; k < orders; k++ {
		got, gate := session(c, srcs, bases, profs, kind, c.Seed*1000+int64(c.Index)*10+int64(k), "traces")
		c.Stat("sessions", 1)
		c.Stat("fetches", int64(n+nb))
		c.Seen(strings.Join(releaseOrder(gate.Events, 12), ","))
		for _, e := range gate.Events {
			if strings.HasPrefix(e, "http ") {
				c.Stat("served."+e, 1)
			}
		}
		if got.pan != "" {
			return harness.Violation("%s: panic: %s", desc, got.pan)
		}
		// every listed source is asked for exactly once (when the run is not abandoned early)
		fc := gate.FetchCounts()
		for _, name := range append(append([]string{}, srcs...), bases...) {
			if n := fc[name]; n > 1 || (n == 0 && !mustFail) {
				res.Verdict, res.Detail = harness.Violated, fmt.Sprintf("%s: source %s was fetched %d times (want exactly once); ui: %v", desc, name, n, trunc(got.errs))
				return res
			}
		}
		if mustFail {
			if got.err == nil {
				res.Verdict, res.Detail = harness.Violated, desc+": pprof succeeded although no source (or no base) could be fetched"
				return res
			}
		} else if got.err != nil {
			res.Verdict, res.Detail = harness.Violated, fmt.Sprintf("%s: pprof failed although %d sources and %d/%d bases were fetched: %v; ui: %v", desc, len(goodS), len(goodB), nb, got.err, trunc(got.errs))
			return res
		}
		// one error line per failed source, naming it
		if !mustFail || len(failed) > 0 {
			good := append(append([]string{}, goodS...), goodB...)
			cnt := map[string]int{}
			for _, f := range failed {
				cnt[f] = errorLinesFor(got.errs, f, good)
			}
			// when the run aborts early (no sources) the other group's errors may be printed or not
			if !mustFail {
				for _, f := range failed {
					if cnt[f] != 1 {
						res.Verdict, res.Detail = harness.Violated, fmt.Sprintf("%s: %d error lines for failed source %s (want exactly 1); ui: %v", desc, cnt[f], f, trunc(got.errs))
						return res
					}
				}
				if e := errorForGood(got.errs, good, failed); e != "" {
					res.Verdict, res.Detail = harness.Violated, fmt.Sprintf("%s: error reported for a source that was fetched successfully: %s", desc, e)
					return res
				}
			}
		}
		if k == 0 {
			first = got
		} else if got.out != first.out {
			res.Verdict, res.Detail = harness.Violated, fmt.Sprintf("%s: output depends on the completion order of the fetches (order %d differs from order 0): %d vs %d bytes", desc, k, len(got.out), len(first.out))
			return res
		}
	}
	if mustFail {
		return res
	}
	// (a) metamorphic: listing only the successful sources, released in order
	goodKind := map[string]string{}
	refRun, _ := session(c, goodS, goodB, profs, goodKind, 1, "traces")
	if refRun.err != nil || refRun.out != first.out {
		res.Verdict = harness.Violated
		res.Detail = fmt.Sprintf("%s: -traces differs from the run that lists only the %d+%d successful sources (err=%v)\n--- with failures\n%s\n--- only successful\n%s", desc, len(goodS), len(goodB), refRun.err, harness.Trunc(first.out, 1500), harness.Trunc(refRun.out, 1500))
		return res
	}
	// (c) the saved profile is the merge of exactly the successful sources: samples, total
	// duration, comments, binaries (sources only; bases are subtracted and tagged by the driver)
	if nb == 0 {
		saved, _ := session(c, srcs, bases, profs, kind, 78, "proto")
		sp, err := profile.ParseData([]byte(saved.out))
		if err != nil {
			return harness.Violation("%s: -proto output unparseable: %v", desc, err)
		}
		var cps []*profile.Profile
		for _, s := range goodS {
			cps = append(cps, profs[s].Copy())
		}
		if err := profile.CompatibilizeSampleTypes(cps); err == nil {
			if want, err := profile.Merge(cps); err == nil {
				wv, _ := ref.SumView(want)
				gv, _ := ref.SumView(sp)
				if d := ref.DiffSum(wv, gv); d != "" {
					return harness.Violation("%s: the profile saved with -proto is not the merge of the %d successful sources:\n%s", desc, len(goodS), d)
				}
				hdr := func(p *profile.Profile) string {
					cm := append([]string{}, p.Comments...)
					sort.Strings(cm)
					var files []string
					for _, m := range p.Mapping {
						files = append(files, m.File)
					}
					sort.Strings(files)
					return fmt.Sprintf("duration=%d comments=%q binaries=%q", p.DurationNanos, cm, files)
				}
				if hdr(want) != hdr(sp) {
					return harness.Violation("%s: header of the profile saved with -proto differs from the merge of the %d successful sources:\n got %s\nwant %s", desc, len(goodS), harness.Trunc(hdr(sp), 1500), harness.Trunc(hdr(want), 1500))
				}
				// the collection time is that of the earliest successful source that states one
				// (computed here, not taken from Merge)
				var tmin int64
				for _, sname := range goodS {
					if t := profs[sname].TimeNanos; t != 0 && (tmin == 0 || t < tmin) {
						tmin = t
					}
				}
				if sp.TimeNanos != tmin {
					return harness.Violation("%s: the profile saved with -proto carries the collection time %d; the earliest time stated by the %d successful sources is %d (0 = none states one)", desc, sp.TimeNanos, len(goodS), tmin)
				}
				c.Stat("saved_profile_compared", 1)
			}
		}
	}
	// (b) reference: entry-wise signed sum of the successful profiles
	top, _ := session(c, srcs, bases, profs, kind, 77, "top")
	_, rows, err := parse.Top(top.out)
	if err != nil {
		return harness.Violation("%s: -top unparseable: %v", desc, err)
	}
	want := map[string][2]int64{}
	add := func(names []string, sign int64) {
		for _, s := range names {
			vi := 0
			for i, st := range profs[s].SampleType {
				if st.Type == "v" {
					vi = i
				}
			}
			rep := ref.Report(profs[s], ref.ROpts{Index: vi})
			for k, e := range rep.Entries {
				x := want[k.Printable()]
				x[0] += sign * e.Flat
				x[1] += sign * e.Cum
				want[k.Printable()] = x
			}
		}
	}
	add(goodS, 1)
	add(goodB, -1)
	got := map[string][2]int64{}
	for _, row := range rows {
		got[row.Name] = [2]int64{row.Flat, row.Cum}
	}
	for k, v := range want {
		if v == [2]int64{} {
			delete(want, k)
		}
	}
	if fmt.Sprint(sorted(got)) != fmt.Sprint(sorted(want)) {
		res.Verdict = harness.Violated
		res.Detail = fmt.Sprintf("%s: -top is not the merge of exactly the successful sources\n got %v\nwant %v", desc, sorted(got), sorted(want))
	}
	return res
}

// ---- real transport: an https source whose certificate does not verify must fail, whatever was
// fetched before it (an https+insecure source in the same list must not switch verification off)

type seqTransport struct {
	inner     http.RoundTripper
	firstHost string
	firstDone chan struct{}
	once      sync.Once
}

func (t *seqTransport) RoundTrip(req *http.Request) (*http.Response, error) {
	if req.URL.Host != t.firstHost {
		<-t.firstDone // the other request starts only after the first one has been answered
	}
	resp, err := t.inner.RoundTrip(req)
	if req.URL.Host == t.firstHost {
		t.once.Do(func() { close(t.firstDone) })
	}
	return resp, err
}

// part httperrors: pprof's own HTTP fetcher against sources that answer with an error status in
// every shape a server may give it (with and without the X-Go-Pprof header, text or other content
// type, empty body, message with and without a final newline, several lines, binary junk): one
// error line for that source, the report is that of the good sources.
type respSpec struct {
	status int
	header http.Header
	body   []byte
}

type specTransport map[string]respSpec

func (t specTransport) RoundTrip(req *http.Request) (*http.Response, error) {
	sp, ok := t[req.URL.Host]
	if !ok {
		return nil, fmt.Errorf("no route to %s", req.URL)
	}
	h := http.Header{}
	for k, v := range sp.header {
		h[k] = v
	}
	return &http.Response{StatusCode: sp.status, Status: fmt.Sprintf("%d %s", sp.status, http.StatusText(sp.status)), Header: h, Body: io.NopCloser(bytes.NewReader(sp.body)), Request: req}, nil
}

func runHTTPErrors(c *harness.Ctx) harness.Result {
	r := c.Rng
	drv.IsolateEnv(c.Tmp)
	tr := specTransport{}
	var urls []string
	var want int64
	ngood, nbad := 1+r.Intn(3), 1+r.Intn(2)
	timeUnits, unitRot := r.Intn(2) == 0, r.Intn(3)
	if timeUnits {
		ngood = 3 + r.Intn(2) // three units meet in one merge step
	}
	var goodURLs []string
	for i := 0; i < ngood; i++ {
		p := genProfile(r, 10*(i+1))
		// the good sources report the time column in their own unit; the report is asked for in
		// nanoseconds, so every source counts with value x unit whatever the others do
		unitName, unitNS := "nanoseconds", int64(1)
		if timeUnits {
			unitName = []string{"milliseconds", "nanoseconds", "microseconds"}[(i+unitRot)%3]
			unitNS = map[string]int64{"milliseconds": 1000000, "nanoseconds": 1, "microseconds": 1000}[unitName]
		}
		for _, st := range p.SampleType {
			if st.Type == "v" {
				st.Unit = unitName
			}
		}
		for _, sm := range p.Sample {
			for k := range sm.Value {
				sm.Value[k] = int64(10*(i+1) + 1)
			}
			want += sm.Value[0] * unitNS
		}
		var buf bytes.Buffer
		p.Write(&buf)
		host := fmt.Sprintf("good%d.test", i)
		tr[host] = respSpec{200, http.Header{}, buf.Bytes()}
		u := "http://" + host + "/debug/pprof/heap"
		if r.Intn(4) == 0 {
			// a pre-signed URL: longer than any file name can be
			u += "?token=" + strings.Repeat("t", []int{300, 4096, 5000, 70000}[r.Intn(4)])
		}
		urls = append(urls, u)
		goodURLs = append(goodURLs, u)
	}
	var shapes []string
	for i := 0; i < nbad; i++ {
		h := http.Header{}
		if r.Intn(3) > 0 {
			h.Set("X-Go-Pprof", "1")
		}
		if r.Intn(3) > 0 {
			h.Set("Content-Type", []string{"text/plain; charset=utf-8", "text/plain", "text/html", "application/octet-stream"}[r.Intn(4)])
		}
		body := [][]byte{nil, []byte("boom"), []byte("boom\n"), []byte("Could not enable CPU profiling: already in use"), []byte("line one\nline two"), []byte("line one\nline two\n"), {0x1f, 0x8b, 0, 1, 2}, []byte("\n")}[r.Intn(8)]
		st := []int{500, 404, 403, 503, 400, 302}[r.Intn(6)]
		host := fmt.Sprintf("bad%d.test", i)
		tr[host] = respSpec{st, h, body}
		urls = append(urls, "http://"+host+"/debug/pprof/heap")
		shapes = append(shapes, fmt.Sprintf("%d %v %q", st, h, body))
	}
	r.Shuffle(len(urls), func(i, j int) { urls[i], urls[j] = urls[j], urls[i] })
	var shown []string
	for _, u := range urls {
		shown = append(shown, harness.Trunc(u, 60))
	}
	desc := fmt.Sprintf("%d good sources and %d answering %v, in the order %v", ngood, nbad, shapes, shown)
	res := harness.Result{NonTrivial: true, Sig: desc, Sample: desc}
	s := &drv.Session{Flags: &drv.Flags{Bools: map[string]bool{"top": true, "functions": true, "flat": true, "trim": false}, Strs: map[string]string{"output": "out", "symbolize": "none", "sample_index": "v", "unit": map[bool]string{true: "nanoseconds", false: "minimum"}[timeUnits]}, Args: urls}, RoundTr: tr}
	rr := s.Run()
	c.Stat("http_error_sessions", 1)
	if rr.Panic != "" {
		return harness.Violation("%s: panic %s", desc, rr.Panic)
	}
	if rr.Err != nil {
		return harness.Violation("%s: pprof failed although %d sources can be fetched: %v %v", desc, ngood, rr.Err, trunc(s.UI.Errs))
	}
	for i := 0; i < nbad; i++ {
		u := fmt.Sprintf("http://bad%d.test/debug/pprof/heap", i)
		n := errorLinesFor(s.UI.Errs, u, goodURLs)
		if n != 1 {
			res.Verdict, res.Detail = harness.Violated, fmt.Sprintf("%s: %d error lines for %s, exactly one expected; ui: %v", desc, n, u, trunc(s.UI.Errs))
			return res
		}
	}
	out := ""
	if bf := s.Writer.Files["out"]; bf != nil {
		out = bf.String()
	}
	h, _, err := parse.Top(out)
	if err != nil {
		return harness.Violation("%s: -top unparseable: %v", desc, err)
	}
	if h.Total != want {
		res.Verdict, res.Detail = harness.Violated, fmt.Sprintf("%s: the report total is %d, the good sources sum to %d", desc, h.Total, want)
	}
	return res
}

// part binaries: local copies of the binaries under PPROF_BINARY_PATH in a symfs-style tree
// (<path>/usr/bin/app, <path>/opt/bin/app). Two good sources name binaries with the same base name in
// different directories and carry no build ids; a third source may fail. Which local binary a good
// source is attributed to must not depend on the other sources.
type existObj struct{}

type existFile struct{ name string }

func (existObj) Open(file string, start, limit, offset uint64, rs string) (plugin.ObjFile, error) {
	if st, err := os.Stat(file); err != nil || st.IsDir() {
		return nil, fmt.Errorf("no such file %s", file)
	}
	return existFile{file}, nil
}
func (existObj) Disasm(string, uint64, uint64, bool) ([]plugin.Inst, error) {
	return nil, fmt.Errorf("no disasm")
}
func (f existFile) Name() string                                          { return f.name }
func (f existFile) ObjAddr(a uint64) (uint64, error)                      { return a, nil }
func (f existFile) BuildID() string                                       { return "" }
func (f existFile) SourceLine(uint64) ([]plugin.Frame, error)             { return nil, nil }
func (f existFile) Symbols(*regexp.Regexp, uint64) ([]*plugin.Sym, error) { return nil, nil }
func (f existFile) Close() error                                          { return nil }

func runBinaries(c *harness.Ctx) harness.Result {
	r := c.Rng
	drv.IsolateEnv(c.Tmp)
	root := filepath.Join(c.Tmp, "symfs")
	dirs := []string{"/usr/bin", "/opt/bin", "/srv/app/bin"}
	base := []string{"app", "server", "a.out"}[r.Intn(3)]
	for _, d := range dirs {
		os.MkdirAll(filepath.Join(root, d), 0o755)
		os.WriteFile(filepath.Join(root, d, base), []byte("x"), 0o755)
	}
	os.Setenv("PPROF_BINARY_PATH", root)
	defer os.Unsetenv("PPROF_BINARY_PATH")
	n := 2 + r.Intn(2)
	profs := map[string]*profile.Profile{}
	var srcs []string
	want := map[string]bool{}
	for i := 0; i < n; i++ {
		file := dirs[i] + "/" + base
		p := &profile.Profile{SampleType: []*profile.ValueType{{Type: "samples", Unit: "count"}}, PeriodType: &profile.ValueType{Type: "cpu", Unit: "ns"}, Period: 1}
		m := &profile.Mapping{ID: 1, Start: 0x400000, Limit: 0x500000, File: file}
		l := &profile.Location{ID: 1, Mapping: m, Address: 0x400100 + uint64(r.Intn(3))*16}
		p.Mapping, p.Location = []*profile.Mapping{m}, []*profile.Location{l}
		p.Sample = []*profile.Sample{{Value: []int64{int64(1 + i)}, Location: []*profile.Location{l}}}
		name := fmt.Sprintf("s%d", i)
		profs[name] = p
		srcs = append(srcs, name)
		want[filepath.Join(root, file)] = true
	}
	if r.Intn(2) == 0 {
		srcs = append(srcs, "missing")
		r.Shuffle(len(srcs), func(i, j int) { srcs[i], srcs[j] = srcs[j], srcs[i] })
	}
	desc := fmt.Sprintf("sources %v naming %s in %v, local copies under PPROF_BINARY_PATH", srcs, base, dirs[:n])
	res := harness.Result{NonTrivial: true, Sig: desc + fmt.Sprint(c.Index), Sample: desc}
	for rep := 0; rep < 3; rep++ {
		ui := &drv.UI{}
		sesn := &drv.Session{Flags: &drv.Flags{Bools: map[string]bool{"proto": true, "addresses": true}, Strs: map[string]string{"output": "out", "symbolize": "none"}, Args: srcs},
			Fetch: &drv.MapFetcher{Profiles: profs}, Obj: existObj{}, UI: ui}
		rr := sesn.Run()
		if rr.Panic != "" || rr.Err != nil {
			return harness.Violation("%s: pprof failed: %v %s %v", desc, rr.Err, rr.Panic, trunc(ui.Errs))
		}
		q, err := profile.ParseData(sesn.Writer.Files["out"].Bytes())
		if err != nil {
			return harness.Violation("%s: saved profile unparseable: %v", desc, err)
		}
		c.Stat("binaries_runs", 1)
		got := map[string]bool{}
		for _, m := range q.Mapping {
			got[m.File] = true
		}
		if fmt.Sprint(sortedKeys(got)) != fmt.Sprint(sortedKeys(want)) {
			res.Verdict = harness.Violated
			res.Detail = fmt.Sprintf("%s: the saved profile attributes the samples to the binaries %v; every good source alone resolves to its own copy, i.e. %v", desc, sortedKeys(got), sortedKeys(want))
			return res
		}
	}
	return res
}

func sortedKeys(m map[string]bool) []string {
	var out []string
	for k := range m {
		out = append(out, k)
	}
	sort.Strings(out)
	return out
}

// RunTLS is also run by C20 in the race build (Free: no forced completion order).
func RunTLS(c *harness.Ctx) harness.Result { return runTLS(c, false) }

// RunTLSFree lets both fetches run freely against each other.
func RunTLSFree(c *harness.Ctx) harness.Result { return runTLS(c, true) }

func runTLS(c *harness.Ctx, free bool) harness.Result {
	r := c.Rng
	drv.IsolateEnv(c.Tmp)
	mk := func(v int64) (*httptest.Server, *profile.Profile) {
		p := genProfile(r, int(v))
		for _, s := range p.Sample {
			for i := range s.Value {
				s.Value[i] = v
			}
		}
		var buf bytes.Buffer
		p.Write(&buf)
		body := buf.Bytes()
		// half of the servers sit behind a compressing proxy: the (already gzipped) profile arrives
		// with Content-Encoding: gzip on top
		wrapped := r.Intn(2) == 0
		var zb bytes.Buffer
		zw := gzip.NewWriter(&zb)
		zw.Write(body)
		zw.Close()
		srv := httptest.NewUnstartedServer(http.HandlerFunc(func(w http.ResponseWriter, _ *http.Request) {
			if wrapped {
				w.Header().Set("Content-Encoding", "gzip")
				w.Write(zb.Bytes())
				return
			}
			w.Write(body)
		}))
		srv.Config.ErrorLog = log.New(io.Discard, "", 0)
		return srv, p
	}
	sa, pa := mk(100)
	sb, _ := mk(1000)
	func() {
		defer func() { recover() }() // no loopback listener available
		sa.StartTLS()
		sb.StartTLS()
	}()
	if sa.URL == "" || sb.URL == "" {
		return harness.Result{Verdict: harness.Inconclusive, Detail: "cannot listen on the loopback interface"}
	}
	defer sa.Close()
	defer sb.Close()
	insecure := "https+insecure://" + strings.TrimPrefix(sa.URL, "https://") + "/pprof/heap"
	secure := sb.URL + "/pprof/heap"
	insecureFirst := c.Index%2 == 0
	srcs := []string{insecure, secure}
	if r.Intn(2) == 0 {
		srcs = []string{secure, insecure}
	}
	// ... and a source on the same machine whose port nobody listens on (connection refused)
	dead := ""
	if ln, err := net.Listen("tcp", "127.0.0.1:0"); err == nil {
		dead = "http://" + ln.Addr().String() + "/pprof/heap"
		ln.Close()
		srcs = append([]string{dead}, srcs...)
	}
	desc := fmt.Sprintf("sources %v, the https+insecure one answered first: %v", []string{"https+insecure://A", "https://B (self-signed)"}, insecureFirst)
	res := harness.Result{NonTrivial: true, Sig: fmt.Sprint("tls", c.Index), Sample: map[string]any{"run": desc}}
	flags := &drv.Flags{Bools: map[string]bool{"top": true, "functions": true, "flat": true, "trim": false}, Strs: map[string]string{"output": "out", "symbolize": "none", "sample_index": "v"}, Args: srcs}
	first := strings.TrimPrefix(sa.URL, "https://")
	if !insecureFirst {
		first = strings.TrimPrefix(sb.URL, "https://")
	}
	st := &seqTransport{inner: transport.New(flags), firstHost: first, firstDone: make(chan struct{})}
	s := &drv.Session{Flags: flags, RoundTr: st}
	if free {
		s.RoundTr = st.inner
		desc = fmt.Sprintf("sources %v fetched concurrently", []string{"https+insecure://A", "https://B (self-signed)"})
	}
	rr := s.Run()
	st.once.Do(func() { close(st.firstDone) })
	c.Stat("tls_sessions", 1)
	if rr.Panic != "" {
		return harness.Violation("%s: panic %s", desc, rr.Panic)
	}
	if rr.Err != nil {
		return harness.Violation("%s: pprof failed although the https+insecure source can be fetched: %v %v", desc, rr.Err, trunc(s.UI.Errs))
	}
	nerr := errorLinesFor(s.UI.Errs, secure, []string{insecure})
	out := ""
	if bf := s.Writer.Files["out"]; bf != nil {
		out = bf.String()
	}
	h, _, err := parse.Top(out)
	if err != nil {
		return harness.Violation("%s: -top unparseable: %v", desc, err)
	}
	var want int64
	for _, smp := range pa.Sample {
		want += smp.Value[0]
	}
	if nerr != 1 || h.Total != want {
		res.Verdict = harness.Violated
		res.Detail = fmt.Sprintf("%s: the https source presents a certificate that does not verify, so it must fail with one error line and the report must be that of the other source alone (total %d); got %d error lines for it and total %d; ui: %v", desc, want, nerr, h.Total, trunc(s.UI.Errs))
	}
	return res
}

func sorted(m map[string][2]int64) []string {
	var out []string
	for k, v := range m {
		out = append(out, fmt.Sprintf("%s=%v", k, v))
	}
	sort.Strings(out)
	return out
}

func trunc(s []string) []string {
	if len(s) > 8 {
		return append(append([]string{}, s[:8]...), fmt.Sprintf("…(%d more)", len(s)-8))
	}
	return s
}

func kindCount(kind map[string]string) map[string]int {
	m := map[string]int{}
	for _, k := range kind {
		if k != "" {
			m[k]++
		}
	}
	return m
}

func releaseOrder(ev []string, max int) []string {
	var out []string
	for _, e := range ev {
		if strings.HasPrefix(e, "release ") {
			out = append(out, strings.TrimPrefix(e, "release "))
			if len(out) >= max {
				break
			}
		}
	}
	return out
}

// Error lines are recognised by what they are about, not by their wording: a line of the error
// stream is "about" a source when it mentions the source's address. Lines of a shape that is also
// printed for a source that was fetched successfully (progress messages such as "Fetching profile
// over HTTP from <address>") are no error reports. shapesOf returns the lines about addr with the
// address blanked out.
func shapesOf(errs []string, addr string) []string {
	var out []string
	for _, e := range errs {
		if strings.Contains(e, addr) {
			out = append(out, strings.ReplaceAll(e, addr, "<A>"))
		}
	}
	return out
}

// errorLinesFor counts the lines about addr whose shape is not also printed for one of the
// successfully fetched sources.
func errorLinesFor(errs []string, addr string, good []string) int {
	progress := map[string]bool{}
	for _, g := range good {
		for _, t := range shapesOf(errs, g) {
			progress[t] = true
		}
	}
	n := 0
	for _, t := range shapesOf(errs, addr) {
		if !progress[t] {
			n++
		}
	}
	return n
}

// errorForGood returns a line about a successfully fetched source that has the shape of a line
// printed about a failed one, unless every successfully fetched source gets a line of that shape.
func errorForGood(errs []string, good, failed []string) string {
	if len(good) < 2 {
		return ""
	}
	count := map[string]int{}
	for _, g := range good {
		seen := map[string]bool{}
		for _, t := range shapesOf(errs, g) {
			if !seen[t] {
				seen[t] = true
				count[t]++
			}
		}
	}
	bad := map[string]bool{}
	for _, f := range failed {
		for _, t := range shapesOf(errs, f) {
			bad[t] = true
		}
	}
	for _, g := range good {
		for _, e := range errs {
			if strings.Contains(e, g) {
				t := strings.ReplaceAll(e, g, "<A>")
				if bad[t] && count[t] < len(good) {
					return e
				}
			}
		}
	}
	return ""
}

func init() {
	harness.Register(&harness.Check{
		ID:    "C16",
		Level: "fault_enumeration",
		Rule: "source lists of 1,2,3,5,127,128,129,256,257,300 sources (cycled) with optional 1/2/130 bases; 30% of the profiles have another set or order of sample types ([v n], [v], [x v] instead of [n v]) so that only v is common; failing subset in {none, one, first, last, all-but-one, a whole 128-chunk, all, random} x failure kind per source in {Fetcher error, structurally invalid profile, missing file, HTTP 404, HTTP 500, garbage body, gzip stream cut short}; every fetch blocks at a gate; the controller collects the fetches that have arrived (all outstanding ones, or what is there once no new one arrives for 60 ms - it assumes nothing about pprof's batch size) and releases them one by one in a seed-chosen permutation, each after the previous one completed (completion order inside every batch forced exactly; arrival/release/completion events recorded); every listed source must be asked for exactly once; 3-6 different completion orders per case. " +
			"part binaries: local copies of equally named binaries in a symfs-style tree under PPROF_BINARY_PATH, no build ids, 2-3 good sources plus an optional failing one: the saved profile names every source's own copy. part httperrors: pprof's own HTTP fetcher, 1-3 good sources and 1-2 answering with an error status in every shape (X-Go-Pprof header or not, content types, empty body, message with/without final newline, several lines, junk): one error line each, report = good sources. " +
			"part tls: pprof's own transport against two loopback TLS servers with self-signed certificates, one listed as https+insecure:// and one as https://, answered in a forced order: the https source must fail with one error line and the report be that of the other source alone. A case that does not finish within 2 min in 3 of 3 fresh processes is a hang (violation). oracle: fails iff no source (or, with bases, no base) succeeded; exactly one UI error line per failed source naming it and none for good ones; byte-identical -traces across completion orders; -traces equal to the run listing only the successful sources; -top equal to the entry-wise signed sum of the successful profiles' reference reports. non-trivial = at least 2 sources; distinct = run description; distinct_observed = distinct release-order prefixes",
		Assumptions:   []string{"failing subsets and kinds are enumerated per list shape; completion orders are sampled (3-6 of n! per chunk)"},
		Parts:         []harness.Part{{Name: "fetch", Quick: 400, Thor: 12000, Run: run}, {Name: "tls", Quick: 8, Thor: 200, Run: RunTLS}, {Name: "binaries", Quick: 40, Thor: 2000, Run: runBinaries}, {Name: "httperrors", Quick: 120, Thor: 4000, Run: runHTTPErrors}},
		CaseTimeout:   2 * time.Minute,
		HangTries:     3,
		MinNonTrivial: func(string) int { return 100 },
	})
}
