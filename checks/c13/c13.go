// Package c13 monitors the translation of sampled addresses to link-time addresses for ELF
// binaries (synthetic layouts under linker constraints with a loader simulation, real compiled
// binaries, the address protocol with external tools, and the nm symbol lookup).
package c13

import (
	"bytes"
	"debug/elf"
	"encoding/binary"
	"fmt"
	"github.com/google/pprof/internal/symbolizer"
	"github.com/google/pprof/profile"
	"github.com/google/pprof/verif/internal/drv"
	"math/rand"
	"os"
	"os/exec"
	"path/filepath"
	"regexp"
	"sort"
	"strings"

	"github.com/google/pprof/internal/binutils"
	"github.com/google/pprof/verif/internal/harness"
)

const pg = 0x1000

type secSpec struct {
	name            string
	addr, off, size uint64
}

func writeELF(path string, typ elf.Type, phs []elf.Prog64, secs ...secSpec) error {
	var b bytes.Buffer
	h := elf.Header64{
		Ident:     [16]byte{0x7f, 'E', 'L', 'F', 2, 1, 1},
		Type:      uint16(typ),
		Machine:   uint16(elf.EM_X86_64),
		Version:   1,
		Phoff:     64,
		Ehsize:    64,
		Phentsize: 56,
		Phnum:     uint16(len(phs)),
		Shentsize: 64,
	}
	// optional section table (null section, the given executable sections, .shstrtab), stored right
	// behind the program headers
	var strtab []byte
	var shdrs []elf.Section64
	if len(secs) > 0 {
		strtab = []byte{0}
		shdrs = append(shdrs, elf.Section64{})
		for _, sc := range secs {
			shdrs = append(shdrs, elf.Section64{Name: uint32(len(strtab)), Type: uint32(elf.SHT_PROGBITS), Flags: uint64(elf.SHF_ALLOC | elf.SHF_EXECINSTR), Addr: sc.addr, Off: sc.off, Size: sc.size, Addralign: 16})
			strtab = append(append(strtab, sc.name...), 0)
		}
		shdrs = append(shdrs, elf.Section64{Name: uint32(len(strtab)), Type: uint32(elf.SHT_STRTAB), Addralign: 1})
		strtab = append(append(strtab, ".shstrtab"...), 0)
		h.Shoff = 64 + 56*uint64(len(phs))
		h.Shnum = uint16(len(shdrs))
		h.Shstrndx = uint16(len(shdrs) - 1)
		shdrs[len(shdrs)-1].Off = h.Shoff + 64*uint64(len(shdrs))
		shdrs[len(shdrs)-1].Size = uint64(len(strtab))
	}
	binary.Write(&b, binary.LittleEndian, &h)
	for _, p := range phs {
		binary.Write(&b, binary.LittleEndian, &p)
	}
	for _, sh := range shdrs {
		binary.Write(&b, binary.LittleEndian, &sh)
	}
	b.Write(strtab)
	return os.WriteFile(path, b.Bytes(), 0o644)
}

type layout struct {
	typ   elf.Type
	phs   []elf.Prog64
	xseg  int
	align uint64
	desc  string
	secs  []secSpec // executable sections, when the object has a section table
	// aliased: the [off, off+memsz) range of a data segment with .bss runs over the file range of the
	// code: which segment a file offset belongs to cannot be told, an error is the documented answer
	aliased bool
}

// genLayout produces PT_LOAD segments under linker constraints: sorted by vaddr,
// off = vaddr mod page, optional non-zero first vaddr, bss in the last segment, segments either on
// separate pages ("separate-code") or packed so that neighbours share a file page, optional 2 MiB
// alignment.
func genLayout(r *rand.Rand) layout {
	l := genPlain(r)
	if l.typ == elf.ET_DYN && r.Intn(3) == 0 {
		x := l.phs[l.xseg]
		l.secs = []secSpec{{".text", x.Vaddr, x.Off, x.Filesz}}
		l.desc += " sections"
	}
	return l
}

// genDataFirst: a shared object whose linker script puts .data/.bss in front of the code and packs
// the segments in the file. The read-write segment has little file content and a large .bss; two
// executable segments (.text and .text.hot) follow right behind its file bytes, so the file range
// [off, off+memsz) of the data segment runs over theirs. Samples lie in either executable segment;
// the object has a section table.
func genDataFirst(r *rand.Rand) layout {
	l := layout{typ: elf.ET_DYN, align: pg, aliased: true}
	off, vaddr := uint64(0), uint64(0)
	add := func(flags uint32, fsz, msz uint64) {
		l.phs = append(l.phs, elf.Prog64{Type: uint32(elf.PT_LOAD), Flags: flags, Off: off, Vaddr: vaddr, Paddr: vaddr, Filesz: fsz, Memsz: msz, Align: pg})
		noff := (off + fsz + 15) &^ 15
		vaddr = ((vaddr + msz + pg - 1) &^ (pg - 1)) + (noff & (pg - 1))
		off = noff
	}
	add(uint32(elf.PF_R), uint64(0x200+r.Intn(0x600))&^7, 0)
	l.phs[0].Memsz = l.phs[0].Filesz
	if r.Intn(2) == 0 { // data on a page of its own in the file
		off = (off + pg - 1) &^ (pg - 1)
		vaddr = (vaddr + pg - 1) &^ (pg - 1)
	}
	dsz := uint64(0x40+r.Intn(0x400)) &^ 7
	add(uint32(elf.PF_R|elf.PF_W), dsz, dsz+uint64(1+r.Intn(3))*pg+uint64(r.Intn(pg)))
	t1 := uint64(0x100+r.Intn(0x900)) &^ 7
	add(uint32(elf.PF_R|elf.PF_X), t1, t1)
	t2 := uint64(0x100+r.Intn(0x900)) &^ 7
	add(uint32(elf.PF_R|elf.PF_X), t2, t2)
	l.xseg = 2 + r.Intn(2)
	names := []string{".text", ".text.hot"}
	if r.Intn(2) == 0 {
		names[0], names[1] = names[1], names[0]
	}
	for i, n := range names {
		x := l.phs[2+i]
		l.secs = append(l.secs, secSpec{n, x.Vaddr, x.Off, x.Filesz})
	}
	l.desc = fmt.Sprintf("%v data-first packed, .bss before code, sections %s/%s, xseg=%d", l.typ, names[0], names[1], l.xseg)
	return l
}

func genPlain(r *rand.Rand) layout {
	l := layout{typ: []elf.Type{elf.ET_DYN, elf.ET_EXEC}[r.Intn(2)], align: pg}
	if r.Intn(6) == 0 {
		l.align = 0x200000
	}
	nseg := 1 + r.Intn(4)
	xonly := r.Intn(6) == 0
	vaddr := uint64(0)
	if l.typ == elf.ET_EXEC {
		vaddr = 0x400000
	} else if r.Intn(3) == 0 {
		vaddr = uint64(1+r.Intn(4)) * l.align
	}
	off := uint64(0)
	l.xseg = r.Intn(nseg)
	sep := r.Intn(2) == 0
	for i := 0; i < nseg; i++ {
		fsz := uint64(8+r.Intn(3*pg)) &^ uint64(7)
		if r.Intn(4) == 0 {
			fsz = uint64(1+r.Intn(3)) * pg // padded to a page boundary
		}
		msz := fsz
		flags := uint32(elf.PF_R)
		if i == l.xseg {
			flags |= uint32(elf.PF_X)
			if xonly {
				flags = uint32(elf.PF_X) // execute-only text (lld --execute-only): no read permission
			}
		} else if i == nseg-1 {
			flags |= uint32(elf.PF_W)
			msz += uint64(r.Intn(2 * pg))
		}
		l.phs = append(l.phs, elf.Prog64{Type: uint32(elf.PT_LOAD), Flags: flags, Off: off, Vaddr: vaddr, Paddr: vaddr, Filesz: fsz, Memsz: msz, Align: l.align})
		end := vaddr + msz
		if sep {
			vaddr = (end + l.align - 1) &^ (l.align - 1)
			off = (off + fsz + pg - 1) &^ (pg - 1)
			if l.align > pg {
				off = (off + l.align - 1) &^ (l.align - 1)
			}
		} else {
			noff := (off + fsz + 15) &^ 15
			vaddr = ((end + l.align - 1) &^ (l.align - 1)) + (noff & (l.align - 1))
			off = noff
		}
	}
	l.desc = fmt.Sprintf("%v align=%#x sep=%v nseg=%d xseg=%d xonly=%v", l.typ, l.align, sep, nseg, l.xseg, xonly)
	return l
}

func (l layout) String() string {
	var sb strings.Builder
	sb.WriteString(l.desc)
	for i, p := range l.phs {
		fmt.Fprintf(&sb, "\n  PT_LOAD[%d] flags=%#x off=%#x vaddr=%#x filesz=%#x memsz=%#x", i, p.Flags, p.Off, p.Vaddr, p.Filesz, p.Memsz)
	}
	for _, sc := range l.secs {
		fmt.Fprintf(&sb, "\n  section %s addr=%#x off=%#x size=%#x", sc.name, sc.addr, sc.off, sc.size)
	}
	return sb.String()
}

// sharedPage: does another segment's file content share a file page with segment i?
func (l layout) sharedPage(i int) bool {
	x := l.phs[i]
	for j, o := range l.phs {
		if j != i && o.Filesz > 0 && (o.Off&^(pg-1)) <= ((x.Off+x.Filesz-1)&^(pg-1)) && ((o.Off+o.Filesz-1)&^(pg-1)) >= (x.Off&^(pg-1)) {
			return true
		}
	}
	return false
}

func runSynth(c *harness.Ctx) harness.Result {
	r := c.Rng
	var l layout
	if r.Intn(5) == 0 {
		l = genDataFirst(r)
		c.Stat("data_first_layouts", 1)
	} else {
		l = genLayout(r)
	}
	path := filepath.Join(c.Tmp, "syn.so")
	written := l.phs
	debugOnly := r.Intn(10) == 0
	if debugOnly {
		// the separate debug file of the object (objcopy --only-keep-debug, eu-strip -f): same
		// headers, but the segments have no file content any more. pprof may refuse such a file for
		// the mapping; it may not translate through a segment the address was not loaded from.
		written = append([]elf.Prog64(nil), l.phs...)
		for i := range written {
			written[i].Filesz = 0
		}
		l.aliased = true
		l.desc += " debug-only copy (segments without file content)"
		c.Stat("debug_only_files", 1)
	}
	// a partially stripped copy (the code kept in memory size only, as in a file made for
	// symbolization after the binary was deployed): the executable segment keeps its offset,
	// address and memory size but only the first bytes of its file content; the runtime mappings
	// are still those of the file that was loaded. pprof documents that it places such a segment by
	// its memory size; it may refuse, it may not translate through a neighbouring segment.
	partial := !debugOnly && l.phs[l.xseg].Filesz > 0x40 && r.Intn(6) == 0
	if partial {
		written = append([]elf.Prog64(nil), l.phs...)
		written[l.xseg].Filesz = uint64(1 + r.Intn(0x40))
		l.desc += fmt.Sprintf(" partially stripped copy (executable segment filesz=%#x in the file)", written[l.xseg].Filesz)
		c.Stat("partially_stripped_files", 1)
	}
	if err := writeELF(path, l.typ, written, l.secs...); err != nil {
		return harness.Result{Verdict: harness.Inconclusive, Detail: err.Error()}
	}
	bias := uint64(0)
	if l.typ == elf.ET_DYN {
		bias = uint64(0x7f0000000000) + uint64(r.Intn(1000))*l.align
		if r.Intn(4) == 0 {
			bias = uint64(0x550000000000) + uint64(r.Intn(1<<20))*pg&^(l.align-1)
		}
		if r.Intn(4) == 0 {
			// any page-aligned bias: loaders are not obliged to honour a p_align above the page size
			bias = uint64(0x7f3a00000000) + uint64(r.Intn(1<<20))*pg
		}
		if v0 := l.phs[0].Vaddr; v0 >= pg && r.Intn(6) == 0 {
			// an object linked at a non-zero image base and loaded below it: the bias is negative
			// (it wraps around as an unsigned number)
			bias = -(uint64(1+r.Intn(int(v0/pg))) * pg)
		}
	}
	if l.typ == elf.ET_EXEC && r.Intn(4) == 0 {
		// a fixed-address executable whose addresses were moved (address remapping by the profile's
		// producer): by a few pages, so that runtime addresses fall into the link-time range of a
		// neighbouring segment, or far away
		bias = uint64(1+r.Intn(8)) * pg
		if r.Intn(3) == 0 {
			bias = uint64(1+r.Intn(40)) * 0x200000
		}
		c.Stat("relocated_exec", 1)
	}
	x := l.phs[l.xseg]
	// loader: the executable segment is mapped page-wise
	mstart := bias + (x.Vaddr &^ (pg - 1))
	mlimit := bias + ((x.Vaddr + x.Filesz + pg - 1) &^ (pg - 1))
	moff := x.Off &^ (pg - 1)
	type mp struct{ start, limit, off uint64 }
	maps := []mp{{mstart, mlimit, moff}}
	split := false
	if mlimit-mstart >= 2*pg && (r.Intn(3) == 0 || partial) { // mapping reported in two pieces
		mid := mstart + pg*uint64(1+r.Intn(int((mlimit-mstart)/pg)-1))
		if partial && r.Intn(2) == 0 {
			// the second piece is the last page alone, which a packed neighbour shares
			mid = mlimit - pg
			if l.sharedPage(l.xseg) {
				c.Stat("partially_stripped_tail_on_shared_page", 1)
			}
		}
		maps = []mp{{mstart, mid, moff}, {mid, mlimit, moff + (mid - mstart)}}
		split = true
	}
	shared := l.sharedPage(l.xseg) || l.aliased || partial
	// adjacent mappings of one file with consecutive offsets are reported (and merged by pprof's
	// own parsers) as one: the tail of the executable segment's mapping, from any of its pages on,
	// together with the mapping of the following segment
	if !split && !shared && l.xseg+1 < len(l.phs) && r.Intn(3) == 0 {
		n := l.phs[l.xseg+1]
		nstart := bias + (n.Vaddr &^ (pg - 1))
		nlimit := bias + ((n.Vaddr + n.Filesz + pg - 1) &^ (pg - 1))
		if nstart == mlimit && n.Off&^(pg-1) == moff+(mlimit-mstart) && !l.sharedPage(l.xseg+1) && n.Memsz == n.Filesz {
			from := mstart + pg*uint64(r.Intn(int((mlimit-mstart)/pg)))
			maps = []mp{{from, nlimit, moff + (from - mstart)}}
			if from > mstart {
				maps = append(maps, mp{mstart, from, moff})
			}
			c.Stat("merged_with_next_segment", 1)
		}
	}
	res := harness.Result{NonTrivial: true, Sig: l.String() + fmt.Sprint(bias, split, len(maps)), Sample: map[string]any{"layout": l.String(), "bias": fmt.Sprintf("%#x", bias), "mappings": fmt.Sprintf("%x", maps)}}
	bu := &binutils.Binutils{}
	addrs := []uint64{x.Vaddr, x.Vaddr + x.Filesz - 1, x.Vaddr + uint64(r.Intn(int(x.Filesz))), x.Vaddr + uint64(r.Intn(int(x.Filesz))), (x.Vaddr + x.Filesz/2) &^ 0xf}
	for _, m := range maps {
		// one Open per first address (the base is computed from the first address asked) ...
		for _, a := range addrs {
			rt := bias + a
			if rt < m.start || rt >= m.limit {
				continue
			}
			f, err := bu.Open(path, m.start, m.limit, m.off, "")
			if err != nil && debugOnly {
				c.Stat("errors_in_ambiguous_class", 1)
				continue
			}
			if err != nil {
				return harness.Violation("Open failed for a well-formed ELF: %v\n%s\nmapping %x-%x@%x", err, l, m.start, m.limit, m.off)
			}
			c.Stat("translations", 1)
			got, err := f.ObjAddr(rt)
			// a merged mapping that holds less than one page of the executable segment and at least
			// one page of the next one is attributed to the next segment by design: an error there
			// is the documented answer
			lessThanPage := len(maps) > 0 && m.limit > mlimit && x.Off+x.Filesz-m.off < pg
			switch {
			case err != nil && !shared && !split && !lessThanPage:
				res.Verdict = harness.Violated
				res.Detail = fmt.Sprintf("ObjAddr(%#x) failed although the address lies in the file-backed part of exactly one PT_LOAD segment that shares no page with another: %v\n%s\nbias=%#x mapping %x-%x@%x", rt, err, l, bias, m.start, m.limit, m.off)
				return res
			case err != nil:
				c.Stat("errors_in_ambiguous_class", 1)
			case got != a:
				res.Verdict = harness.Violated
				res.Detail = fmt.Sprintf("ObjAddr(%#x) = %#x, link-time address is %#x (runtime address minus load bias %#x)\n%s\nmapping %x-%x@%x", rt, got, a, bias, l, m.start, m.limit, m.off)
				return res
			default:
				c.Stat("exact", 1)
				// ... and the other addresses of the same mapping through the same object file
				for _, b := range addrs {
					if rb := bias + b; rb >= m.start && rb < m.limit {
						g2, err := f.ObjAddr(rb)
						c.Stat("translations", 1)
						if err != nil || g2 != b {
							res.Verdict = harness.Violated
							res.Detail = fmt.Sprintf("after ObjAddr(%#x), ObjAddr(%#x) = %#x, %v; link-time address is %#x\n%s\nmapping %x-%x@%x", rt, rb, g2, err, b, l, m.start, m.limit, m.off)
							return res
						}
					}
				}
			}
			f.Close()
		}
	}
	return res
}

// ---- tool protocol: a fake llvm-symbolizer answers with the address it was sent ----------

func writeFakeSymbolizer(dir string) error {
	script := `#!/bin/sh
while read t f a; do
  printf '{"Address":"%s","ModuleName":"m","Symbol":[{"Line":1,"Column":0,"FunctionName":"got_%s","FileName":"f.c","StartLine":1}]}\n' "$a" "$a"
done
`
	return os.WriteFile(filepath.Join(dir, "llvm-symbolizer"), []byte(script), 0o755)
}

// fake GNU addr2line (-aif protocol: address echo, function, file:line per request) and a fake nm
// whose table holds one long-named symbol per 64 bytes of the executable segment
func writeFakeAddr2line(dir string, x elf.Prog64) error {
	script := `#!/bin/sh
while read a; do
  printf '0x%s\ng_%s\nf.c:1\n' "$a" "$a"
done
`
	if err := os.WriteFile(filepath.Join(dir, "addr2line"), []byte(script), 0o755); err != nil {
		return err
	}
	var tab strings.Builder
	for a := x.Vaddr; a < x.Vaddr+x.Filesz; a += 0x40 {
		fmt.Fprintf(&tab, "symbol_with_a_long_name_%x T %x 40\n", a, a)
	}
	if err := os.WriteFile(filepath.Join(dir, "nm.table"), []byte(tab.String()), 0o644); err != nil {
		return err
	}
	return os.WriteFile(filepath.Join(dir, "nm"), []byte("#!/bin/sh\n/bin/cat "+filepath.Join(dir, "nm.table")+"\n"), 0o755)
}

func runProtocolA2L(c *harness.Ctx) harness.Result {
	r := c.Rng
	l := genLayout(r)
	for l.sharedPage(l.xseg) {
		l = genLayout(r)
	}
	path := filepath.Join(c.Tmp, "syn.so")
	if err := writeELF(path, l.typ, l.phs, l.secs...); err != nil {
		return harness.Result{Verdict: harness.Inconclusive, Detail: err.Error()}
	}
	tools := filepath.Join(c.Tmp, "tools")
	os.MkdirAll(tools, 0o755)
	x := l.phs[l.xseg]
	if err := writeFakeAddr2line(tools, x); err != nil {
		return harness.Result{Verdict: harness.Inconclusive, Detail: err.Error()}
	}
	bias := uint64(0)
	if l.typ == elf.ET_DYN {
		// low biases too: a bias smaller than the segment is where a lookup with the wrong address
		// still lands inside the symbol table
		bias = []uint64{uint64(0x7f0000000000) + uint64(r.Intn(1000))*l.align, l.align, 2 * l.align, uint64(1+r.Intn(8)) * l.align}[r.Intn(4)]
	}
	mstart := bias + (x.Vaddr &^ (pg - 1))
	mlimit := bias + ((x.Vaddr + x.Filesz + pg - 1) &^ (pg - 1))
	moff := x.Off &^ (pg - 1)
	// pprof falls back to whatever llvm-symbolizer is on PATH: keep the interposed tools the only ones
	oldPath := os.Getenv("PATH")
	os.Setenv("PATH", tools)
	defer os.Setenv("PATH", oldPath)
	bu := &binutils.Binutils{}
	bu.SetTools("llvm-symbolizer:/nonexistent,addr2line:" + tools + ",nm:" + tools + ",objdump:/nonexistent")
	res := harness.Result{NonTrivial: true, Sig: "a2l " + l.String() + fmt.Sprint(bias), Sample: map[string]any{"layout": l.String(), "bias": fmt.Sprintf("%#x", bias), "tools": "interposed addr2line + nm"}}
	f, err := bu.Open(path, mstart, mlimit, moff, "")
	if err != nil {
		return harness.Violation("Open failed: %v\n%s", err, l)
	}
	defer f.Close()
	for k := 0; k < 4; k++ {
		a := x.Vaddr + uint64(r.Intn(int(x.Filesz)))
		fr, err := f.SourceLine(bias + a)
		c.Stat("tool_requests", 1)
		if err != nil {
			return harness.Violation("SourceLine(%#x) through the interposed addr2line failed: %v\n%s", bias+a, err, l)
		}
		// the name comes from addr2line (it echoes the address it was asked about) or from the nm
		// table (the symbol with the greatest start not above the link-time address)
		w1 := fmt.Sprintf("g_%x", a)
		w2 := fmt.Sprintf("symbol_with_a_long_name_%x", x.Vaddr+(a-x.Vaddr)&^0x3f)
		if len(fr) != 1 || (fr[0].Func != w1 && fr[0].Func != w2) {
			res.Verdict = harness.Violated
			res.Detail = fmt.Sprintf("runtime address %#x (link-time %#x, bias %#x) was answered %v by the addr2line/nm tools; a lookup of the link-time address gives %q (addr2line) or %q (nm)\n%s", bias+a, a, bias, fr, w1, w2, l)
			return res
		}
		if fr[0].Func == w2 {
			c.Stat("names_from_nm_table", 1)
		} else {
			c.Stat("names_from_addr2line", 1)
		}
	}
	return res
}

func runProtocol(c *harness.Ctx) harness.Result {
	if c.Index%2 == 1 {
		return runProtocolA2L(c)
	}
	r := c.Rng
	l := genLayout(r)
	for l.sharedPage(l.xseg) {
		l = genLayout(r)
	}
	path := filepath.Join(c.Tmp, "syn.so")
	if err := writeELF(path, l.typ, l.phs, l.secs...); err != nil {
		return harness.Result{Verdict: harness.Inconclusive, Detail: err.Error()}
	}
	tools := filepath.Join(c.Tmp, "tools")
	os.MkdirAll(tools, 0o755)
	if err := writeFakeSymbolizer(tools); err != nil {
		return harness.Result{Verdict: harness.Inconclusive, Detail: err.Error()}
	}
	bias := uint64(0)
	if l.typ == elf.ET_DYN {
		bias = uint64(0x7f0000000000) + uint64(r.Intn(1000))*l.align
	}
	x := l.phs[l.xseg]
	mstart := bias + (x.Vaddr &^ (pg - 1))
	mlimit := bias + ((x.Vaddr + x.Filesz + pg - 1) &^ (pg - 1))
	moff := x.Off &^ (pg - 1)
	bu := &binutils.Binutils{}
	bu.SetTools("llvm-symbolizer:" + tools + ",addr2line:/nonexistent,nm:/nonexistent,objdump:/nonexistent")
	res := harness.Result{NonTrivial: true, Sig: "proto " + l.String(), Sample: map[string]any{"layout": l.String(), "bias": fmt.Sprintf("%#x", bias)}}
	f, err := bu.Open(path, mstart, mlimit, moff, "")
	if err != nil {
		return harness.Violation("Open failed: %v\n%s", err, l)
	}
	defer f.Close()
	for k := 0; k < 4; k++ {
		a := x.Vaddr + uint64(r.Intn(int(x.Filesz)))
		fr, err := f.SourceLine(bias + a)
		c.Stat("tool_requests", 1)
		if err != nil {
			return harness.Violation("SourceLine(%#x) through the interposed llvm-symbolizer failed: %v\n%s", bias+a, err, l)
		}
		want := fmt.Sprintf("got_0x%x", a)
		if len(fr) != 1 || fr[0].Func != want {
			res.Verdict = harness.Violated
			res.Detail = fmt.Sprintf("the symbolizer tool was sent %v for runtime address %#x; the link-time address is %#x (bias %#x)\n%s", fr, bias+a, a, bias, l)
			return res
		}
	}
	return res
}

// ---- nm lookup ------------------------------------------------------------------------------

type sym struct {
	name string
	typ  string
	addr uint64
	size uint64
}

func runNM(c *harness.Ctx) harness.Result {
	r := c.Rng
	// a one-segment ET_EXEC so that base = 0 and addresses are link-time addresses
	l := layout{typ: elf.ET_EXEC, phs: []elf.Prog64{{Type: uint32(elf.PT_LOAD), Flags: uint32(elf.PF_R | elf.PF_X), Off: 0, Vaddr: 0x400000, Paddr: 0x400000, Filesz: 0x3000, Memsz: 0x3000, Align: pg}}}
	path := filepath.Join(c.Tmp, "nm.bin")
	if err := writeELF(path, l.typ, l.phs, l.secs...); err != nil {
		return harness.Result{Verdict: harness.Inconclusive, Detail: err.Error()}
	}
	n := r.Intn(8)
	var syms []sym
	a := uint64(0x400000 + r.Intn(0x100))
	for i := 0; i < n; i++ {
		s := sym{name: fmt.Sprintf("s%d", i), typ: []string{"T", "t", "T", "D", "b", "R", "W", "T", "t", "i", "u", "g", "S", "s", "G", "n", "p", "?", "A", "a", "C", "V", "v", "w", "N"}[r.Intn(25)], addr: a, size: uint64(r.Intn(0x40))}
		if r.Intn(5) == 0 {
			// a mangled template instantiation: the name alone is longer than common line buffers
			s.name += "_" + strings.Repeat("x", []int{4000, 4090, 4096, 5000, 20000, 70000}[r.Intn(6)])
		}
		syms = append(syms, s)
		switch r.Intn(4) {
		case 0: // duplicate address
		case 1:
			a += s.size // adjacent
		default:
			a += s.size + uint64(r.Intn(0x30))
		}
	}
	var tb strings.Builder
	tb.WriteString("garbage line\n")
	for _, s := range syms {
		fmt.Fprintf(&tb, "%s %s %016x %016x\n", s.name, s.typ, s.addr, s.size)
	}
	tb.WriteString("undefined_sym U\n")
	short := regexp.MustCompile(`x{60,}`).ReplaceAllStringFunc(tb.String(), func(m string) string { return fmt.Sprintf("x..(%d)", len(m)) })
	tools := filepath.Join(c.Tmp, "tools")
	os.MkdirAll(tools, 0o755)
	table := filepath.Join(c.Tmp, "table.txt")
	os.WriteFile(table, []byte(tb.String()), 0o644)
	os.WriteFile(filepath.Join(tools, "nm"), []byte("#!/bin/sh\ncat "+table+"\n"), 0o755)
	bu := &binutils.Binutils{}
	bu.SetTools("nm:" + tools + ",llvm-symbolizer:/nonexistent,addr2line:/nonexistent,objdump:/nonexistent")
	bu.SetFastSymbolization(true)
	f, err := bu.Open(path, 0x400000, 0x403000, 0, "")
	if err != nil {
		return harness.Violation("Open failed: %v", err)
	}
	defer f.Close()
	res := harness.Result{NonTrivial: n > 0, Sig: short, Sample: map[string]any{"nm_table": short}}
	isData := func(t string) bool { return strings.ContainsAny(t, "bBdDrRvVW") }
	var probes []uint64
	for _, s := range syms {
		probes = append(probes, s.addr, s.addr+1, s.addr+s.size, s.addr+s.size-1, s.addr-1)
	}
	probes = append(probes, 0x400000, 0x402fff, a+0x100)
	for _, p := range probes {
		if p < 0x400000 || p >= 0x403000 {
			continue
		}
		fr, err := f.SourceLine(p)
		c.Stat("lookups", 1)
		if err != nil {
			return harness.Violation("SourceLine(%#x) via nm failed: %v\n%s", p, err, short)
		}
		got := ""
		if len(fr) > 0 {
			got = fr[0].Func
		}
		// expectation: the symbols with the greatest start <= p
		var best []sym
		for _, s := range syms {
			if s.addr <= p {
				if len(best) == 0 || s.addr > best[0].addr {
					best = []sym{s}
				} else if s.addr == best[0].addr {
					best = append(best, s)
				}
			}
		}
		admissible := map[string]bool{}
		if len(syms) == 0 || len(best) == 0 {
			admissible[""] = true
		} else {
			last := syms[len(syms)-1]
			sorted := append([]sym(nil), syms...)
			sort.SliceStable(sorted, func(i, j int) bool { return sorted[i].addr < sorted[j].addr })
			last = sorted[len(sorted)-1]
			if p >= last.addr+last.size {
				// beyond the table: nothing (for duplicates at the last address any of their sizes may bound the table)
				admissible[""] = true
				for _, s := range sorted {
					if s.addr == last.addr && p < s.addr+s.size {
						delete(admissible, "")
					}
				}
				if !admissible[""] {
					admissible[""] = true
					for _, s := range best {
						admissible[s.name] = true
					}
				}
			} else {
				for _, s := range best {
					if isData(s.typ) && p >= s.addr+s.size {
						admissible[""] = true
					} else {
						admissible[s.name] = true
					}
				}
			}
		}
		if !admissible[got] {
			var adm []string
			for k := range admissible {
				adm = append(adm, fmt.Sprintf("%q", k))
			}
			sort.Strings(adm)
			res.Verdict = harness.Violated
			res.Detail = fmt.Sprintf("nm lookup of %#x returned %q; admissible (greatest start <= address, data symbols only within their size, nothing outside the table): %v\ntable (name type addr size):\n%s", p, regexp.MustCompile(`x{60,}`).ReplaceAllString(got, "x.."), adm, short)
			res.Detail = regexp.MustCompile(`x{60,}`).ReplaceAllString(res.Detail, "x..")
			return res
		}
	}
	return res
}

// ---- real binaries -----------------------------------------------------------------------------

const csrc = `
#include <stdio.h>
volatile int sink;
__attribute__((noinline)) int alpha(int x) { for (int i = 0; i < x; i++) sink += i; return sink; }
__attribute__((noinline)) int beta(int x) { return alpha(x) * 3 + 1; }
static int data_sym[64] = {1,2,3};
int main(int argc, char **argv) { printf("%d\n", beta(argc) + data_sym[argc & 63]); return 0; }
`

var variants = [][]string{
	{"gcc", "-O1", "-g", "-pie", "-fPIE"},
	{"gcc", "-O1", "-g", "-no-pie"},
	{"gcc", "-O1", "-g", "-pie", "-fPIE", "-Wl,-z,noseparate-code"},
	{"gcc", "-O1", "-g", "-pie", "-fPIE", "-Wl,-z,max-page-size=0x200000"},
	{"gcc", "-O1", "-g", "-no-pie", "-Wl,-Ttext-segment=0x600000"},
	{"clang", "-O1", "-g", "-fPIE", "-pie"},
	{"gcc", "-O1", "-g", "-no-pie", "-Wl,-z,noseparate-code"},
	// gold with a separate read-only segment packs the segments in the file: the code starts in
	// the middle of a file page right behind the read-only data
	{"gcc", "-O1", "-g", "-pie", "-fPIE", "-fuse-ld=gold", "-Wl,--rosegment"},
	{"gcc", "-O1", "-g", "-no-pie", "-fuse-ld=gold", "-Wl,--rosegment"},
	{"gcc", "-O1", "-g", "-pie", "-fPIE", "-fuse-ld=gold"},
	// a shared object laid out by a linker script the way lld does by default: a read-only
	// segment (headers, dynamic symbols, constants) first, the code packed right behind it in the
	// same file page, one page further in memory
	{"gcc", "-O1", "-g", "-shared", "-fPIC", "-nostdlib", "-Wl,-T,PACKED_LD"},
}

const packedLD = `
PHDRS
{
  ro   PT_LOAD FILEHDR PHDRS FLAGS(4);
  text PT_LOAD FLAGS(5);
  data PT_LOAD FLAGS(6);
  dyn  PT_DYNAMIC FLAGS(6);
}
SECTIONS
{
  . = SIZEOF_HEADERS;
  .hash     : { *(.hash) } :ro
  .gnu.hash : { *(.gnu.hash) } :ro
  .dynsym   : { *(.dynsym) } :ro
  .dynstr   : { *(.dynstr) } :ro
  .rela.dyn : { *(.rela.dyn) } :ro
  .rela.plt : { *(.rela.plt) } :ro
  .rodata   : { *(.rodata*) } :ro
  . = . + 0x1000;
  .plt      : { *(.plt) *(.plt.*) } :text
  .text     : { *(.text*) } :text
  . = . + 0x1000;
  .dynamic  : { *(.dynamic) } :data :dyn
  .got      : { *(.got) *(.got.plt) } :data
  .data     : { *(.data*) } :data
  .bss      : { *(.bss*) *(COMMON) } :data
  /DISCARD/ : { *(.comment) *(.note*) *(.eh_frame*) }
}
`

var _ = packedLD

// part legacy: addresses of a real executable (the pprof binary itself) arriving through a legacy
// text profile whose memory map lists the text mapping in 2-3 adjacent pieces with consecutive file
// offsets (the first at offset 0), as /proc/<pid>/maps does after parts of the text were remapped.
// pprof merges the pieces; the merged mapping must still translate every address to the symbol
// the executable's own symbol table names.
func runLegacy(c *harness.Ctx) harness.Result {
	r := c.Rng
	exe := filepath.Join(os.Getenv("VERIF_BIN"), "pprof")
	ef, err := elf.Open(exe)
	if err != nil {
		return harness.Result{Verdict: harness.Inconclusive, Detail: "pprof executable not available: " + err.Error()}
	}
	defer ef.Close()
	var text *elf.Prog
	for _, ph := range ef.Progs {
		if ph.Type == elf.PT_LOAD && ph.Flags&elf.PF_X != 0 {
			text = ph
		}
	}
	syms, _ := ef.Symbols()
	if text == nil || len(syms) == 0 || text.Filesz < 4*pg {
		return harness.Result{Verdict: harness.Inconclusive, Detail: "unexpected layout of the pprof executable"}
	}
	var funcs []elf.Symbol
	for _, sy := range syms {
		if elf.ST_TYPE(sy.Info) == elf.STT_FUNC && sy.Size > 16 && sy.Value >= text.Vaddr && sy.Value+sy.Size <= text.Vaddr+text.Filesz && strings.HasPrefix(sy.Name, "github.com/google/pprof/profile.") && !strings.ContainsAny(sy.Name, " (") {
			funcs = append(funcs, sy)
		}
	}
	if len(funcs) < 8 {
		return harness.Result{Verdict: harness.Inconclusive, Detail: "too few function symbols"}
	}
	start := text.Vaddr &^ (pg - 1)
	limit := (text.Vaddr + text.Filesz + pg - 1) &^ (pg - 1)
	off := text.Off &^ (pg - 1)
	npages := int((limit - start) / pg)
	cuts := []uint64{start}
	for k, n := 0, 1+r.Intn(2); k < n; k++ {
		cuts = append(cuts, start+uint64(1+r.Intn(npages-1))*pg)
	}
	cuts = append(cuts, limit)
	sort.Slice(cuts, func(i, j int) bool { return cuts[i] < cuts[j] })
	var sb strings.Builder
	want := map[string]int{}
	sb.WriteString("heap profile: 8: 8 [8: 8] @ heapprofile\n")
	for k := 0; k < 8; k++ {
		f := funcs[r.Intn(len(funcs))]
		addr := f.Value + uint64(r.Intn(int(f.Size)))
		fmt.Fprintf(&sb, "1: 1 [1: 1] @ %#x\n", addr+1) // legacy stacks hold return addresses: pprof steps back by one
		want[f.Name]++
	}
	sb.WriteString("\nMAPPED_LIBRARIES:\n")
	for i := 0; i+1 < len(cuts); i++ {
		if cuts[i] == cuts[i+1] {
			continue
		}
		fmt.Fprintf(&sb, "%08x-%08x r-xp %08x 00:00 0 %s\n", cuts[i], cuts[i+1], off+(cuts[i]-start), exe)
	}
	doc := filepath.Join(c.Tmp, "legacy.heap")
	os.WriteFile(doc, []byte(sb.String()), 0o644)
	drv.IsolateEnv(c.Tmp)
	bu := &binutils.Binutils{}
	ui := &drv.UI{}
	sesn := &drv.Session{Flags: &drv.Flags{Bools: map[string]bool{"proto": true, "addresses": true}, Strs: map[string]string{"output": "out", "symbolize": "fastlocal"}, Args: []string{doc}},
		Obj: bu, Sym: &symbolizer.Symbolizer{Obj: bu, UI: ui}, UI: ui}
	rr := sesn.Run()
	res := harness.Result{NonTrivial: true, Sig: fmt.Sprintf("legacy cuts=%x", cuts), Sample: map[string]any{"pieces": fmt.Sprintf("%x", cuts)}}
	if rr.Panic != "" || rr.Err != nil {
		return harness.Violation("pprof -symbolize=fastlocal -proto on the legacy profile failed: %v %s %v\n%s", rr.Err, rr.Panic, ui.Errs, sb.String())
	}
	q, err := profile.ParseData(sesn.Writer.Files["out"].Bytes())
	if err != nil {
		return harness.Violation("saved profile unparseable: %v", err)
	}
	c.Stat("legacy_split_text_profiles", 1)
	got := map[string]int{}
	for _, sm := range q.Sample {
		name := "<unsymbolized>"
		if len(sm.Location) >= 1 {
			if n := len(sm.Location[0].Line); n > 0 && sm.Location[0].Line[n-1].Function != nil {
				name = sm.Location[0].Line[n-1].Function.SystemName
			}
		}
		got[name]++
	}
	if fmt.Sprint(got) != fmt.Sprint(want) {
		res.Verdict = harness.Violated
		res.Detail = fmt.Sprintf("text mapping listed in the pieces %x (offsets consecutive from %#x): samples per function after -symbolize=fastlocal are %v, the executable's symbol table says %v (ui: %v)", cuts, off, got, want, ui.Errs)
	}
	return res
}

func runReal(c *harness.Ctx) harness.Result {
	v := variants[c.Index%len(variants)]
	src := filepath.Join(c.Tmp, "t.c")
	bin := filepath.Join(c.Tmp, "t.bin")
	os.WriteFile(src, []byte(csrc), 0o644)
	args := append(append([]string{}, v[1:]...), "-o", bin, src)
	for i, a := range args {
		if strings.Contains(a, "PACKED_LD") {
			ld := filepath.Join(c.Tmp, "packed.ld")
			os.WriteFile(ld, []byte(packedLD), 0o644)
			args[i] = strings.Replace(a, "PACKED_LD", ld, 1)
		}
	}
	if out, err := exec.Command(v[0], args...).CombinedOutput(); err != nil {
		return harness.Result{Verdict: harness.Inconclusive, Detail: fmt.Sprintf("%v failed: %v %s", v, err, out)}
	}
	ef, err := elf.Open(bin)
	if err != nil {
		return harness.Result{Verdict: harness.Inconclusive, Detail: err.Error()}
	}
	defer ef.Close()
	syms, _ := ef.Symbols()
	res := harness.Result{NonTrivial: true, Sig: strings.Join(v, " "), Sample: map[string]any{"compiler": strings.Join(v, " "), "type": ef.Type.String()}}
	for _, bias := range []uint64{0x7f1200000000, 0x555555554000 &^ 0x1fffff, 0x7ffff7a00000} {
		if ef.Type == elf.ET_EXEC {
			bias = 0
		}
		for _, fast := range []bool{false, true} {
			bu := &binutils.Binutils{}
			bu.SetFastSymbolization(fast)
			for _, ph := range ef.Progs {
				if ph.Type != elf.PT_LOAD || ph.Flags&elf.PF_X == 0 {
					continue
				}
				start := bias + (ph.Vaddr &^ (pg - 1))
				limit := bias + ((ph.Vaddr + ph.Filesz + pg - 1) &^ (pg - 1))
				off := ph.Off &^ (pg - 1)
				for _, s := range syms {
					if elf.ST_TYPE(s.Info) != elf.STT_FUNC || (s.Name != "alpha" && s.Name != "beta" && s.Name != "main") || s.Size == 0 {
						continue
					}
					for _, d := range []uint64{0, 1, s.Size - 1} {
						f, err := bu.Open(bin, start, limit, off, "")
						if err != nil {
							return harness.Violation("%v: Open: %v", v, err)
						}
						addr := bias + s.Value + d
						oa, err := f.ObjAddr(addr)
						c.Stat("real_translations", 1)
						if err != nil || oa != s.Value+d {
							f.Close()
							res.Verdict = harness.Violated
							res.Detail = fmt.Sprintf("%v bias=%#x fast=%v: ObjAddr(%#x) = %#x, %v; link-time address of %s+%d is %#x (mapping %x-%x@%x)", v, bias, fast, addr, oa, err, s.Name, d, s.Value+d, start, limit, off)
							return res
						}
						fr, err := f.SourceLine(addr)
						got := ""
						if len(fr) > 0 {
							got = fr[len(fr)-1].Func
						}
						f.Close()
						c.Stat("real_symbolizations", 1)
						if err != nil || got != s.Name {
							res.Verdict = harness.Violated
							res.Detail = fmt.Sprintf("%v bias=%#x fast=%v: SourceLine(%s+%d at %#x) names %q (%d frames, err=%v); readelf says the address lies in %s [%#x,+%d)", v, bias, fast, s.Name, d, addr, got, len(fr), err, s.Name, s.Value, s.Size)
							return res
						}
					}
				}
			}
			if ef.Type == elf.ET_EXEC {
				continue
			}
		}
		// the same through the real driver: pprof -symbolize=local -proto on a profile whose
		// samples sit at bias + symbol address (+ offset) inside the mapping of this binary
		if msg := driverSymbolize(c, bin, ef, syms, bias); msg != "" {
			res.Verdict, res.Detail = harness.Violated, fmt.Sprintf("%v bias=%#x: %s", v, bias, msg)
			return res
		}
		if ef.Type == elf.ET_EXEC {
			break
		}
	}
	return res
}

func driverSymbolize(c *harness.Ctx, bin string, ef *elf.File, syms []elf.Symbol, bias uint64) string {
	p := &profile.Profile{SampleType: []*profile.ValueType{{Type: "samples", Unit: "count"}}, PeriodType: &profile.ValueType{Type: "cpu", Unit: "nanoseconds"}, Period: 1}
	for _, ph := range ef.Progs {
		if ph.Type != elf.PT_LOAD || ph.Flags&elf.PF_X == 0 {
			continue
		}
		p.Mapping = append(p.Mapping, &profile.Mapping{ID: uint64(len(p.Mapping) + 1), Start: bias + (ph.Vaddr &^ (pg - 1)), Limit: bias + ((ph.Vaddr + ph.Filesz + pg - 1) &^ (pg - 1)), Offset: ph.Off &^ (pg - 1), File: bin})
	}
	// a position-independent object is also mapped a second time at another bias (the same library
	// in two processes of a system-wide profile)
	biases := []uint64{bias}
	if ef.Type == elf.ET_DYN {
		b2 := bias + 0x40000000
		biases = append(biases, b2)
		for _, m := range append([]*profile.Mapping{}, p.Mapping...) {
			p.Mapping = append(p.Mapping, &profile.Mapping{ID: uint64(len(p.Mapping) + 1), Start: m.Start - bias + b2, Limit: m.Limit - bias + b2, Offset: m.Offset, File: bin})
		}
	}
	want := map[uint64]string{}
	for _, s := range syms {
		if elf.ST_TYPE(s.Info) != elf.STT_FUNC || (s.Name != "alpha" && s.Name != "beta" && s.Name != "main") || s.Size == 0 {
			continue
		}
		for _, d := range []uint64{0, 1, s.Size - 1} {
			for _, bb := range biases {
				addr := bb + s.Value + d
				for _, m := range p.Mapping {
					if addr >= m.Start && addr < m.Limit {
						l := &profile.Location{ID: uint64(len(p.Location) + 1), Mapping: m, Address: addr}
						p.Location = append(p.Location, l)
						p.Sample = append(p.Sample, &profile.Sample{Value: []int64{1}, Location: []*profile.Location{l}})
						want[l.ID] = s.Name
					}
				}
			}
		}
	}
	if len(want) == 0 {
		return ""
	}
	drv.IsolateEnv(c.Tmp)
	bu := &binutils.Binutils{}
	ui := &drv.UI{}
	sesn := &drv.Session{Flags: &drv.Flags{Bools: map[string]bool{"proto": true, "addresses": true, "flat": true}, Strs: map[string]string{"output": "out", "symbolize": "local"}, Args: []string{"p"}},
		Fetch: &drv.MapFetcher{Profiles: map[string]*profile.Profile{"p": p}}, Obj: bu, Sym: &symbolizer.Symbolizer{Obj: bu, UI: ui}, UI: ui}
	rr := sesn.Run()
	c.Stat("driver_symbolizations", 1)
	if rr.Panic != "" || rr.Err != nil {
		return fmt.Sprintf("pprof -symbolize=local -proto failed: %v %s %v", rr.Err, rr.Panic, ui.Errs)
	}
	q, err := profile.ParseData(sesn.Writer.Files["out"].Bytes())
	if err != nil {
		return "saved profile unparseable: " + err.Error()
	}
	// two runs of one non-relocatable executable that loads this position-independent object: the
	// executable's mapping is the same in both profiles, the object sits at another bias in the second
	// run; both profiles are given as sources and symbolized after pprof has merged them
	if ef.Type == elf.ET_DYN {
		wantN := map[string]int{}
		profs := map[string]*profile.Profile{}
		for k, bb := range []uint64{bias, bias + 0x7000000} {
			rp := &profile.Profile{SampleType: []*profile.ValueType{{Type: "samples", Unit: "count"}}, PeriodType: &profile.ValueType{Type: "cpu", Unit: "nanoseconds"}, Period: 1}
			rp.Mapping = append(rp.Mapping, &profile.Mapping{ID: 1, Start: 0x400000, Limit: 0x401000, File: "/nonexistent/fixedmain"})
			for _, ph := range ef.Progs {
				if ph.Type == elf.PT_LOAD && ph.Flags&elf.PF_X != 0 {
					rp.Mapping = append(rp.Mapping, &profile.Mapping{ID: uint64(len(rp.Mapping) + 1), Start: bb + (ph.Vaddr &^ (pg - 1)), Limit: bb + ((ph.Vaddr + ph.Filesz + pg - 1) &^ (pg - 1)), Offset: ph.Off &^ (pg - 1), File: bin})
				}
			}
			for _, sy := range syms {
				if elf.ST_TYPE(sy.Info) != elf.STT_FUNC || (sy.Name != "alpha" && sy.Name != "beta" && sy.Name != "main") || sy.Size == 0 {
					continue
				}
				addr := bb + sy.Value + uint64(k)
				for _, m := range rp.Mapping[1:] {
					if addr >= m.Start && addr < m.Limit {
						l := &profile.Location{ID: uint64(len(rp.Location) + 1), Mapping: m, Address: addr}
						rp.Location = append(rp.Location, l)
						rp.Sample = append(rp.Sample, &profile.Sample{Value: []int64{1}, Location: []*profile.Location{l}})
						wantN[sy.Name]++
					}
				}
			}
			profs[fmt.Sprintf("run%d", k)] = rp
		}
		ui2 := &drv.UI{}
		bu2 := &binutils.Binutils{}
		s2 := &drv.Session{Flags: &drv.Flags{Bools: map[string]bool{"proto": true, "addresses": true, "flat": true}, Strs: map[string]string{"output": "out", "symbolize": "local"}, Args: []string{"run0", "run1"}},
			Fetch: &drv.MapFetcher{Profiles: profs}, Obj: bu2, Sym: &symbolizer.Symbolizer{Obj: bu2, UI: ui2}, UI: ui2}
		r2 := s2.Run()
		c.Stat("driver_symbolizations_two_runs", 1)
		if r2.Panic != "" || r2.Err != nil {
			return fmt.Sprintf("pprof -symbolize=local -proto over two runs failed: %v %s %v", r2.Err, r2.Panic, ui2.Errs)
		}
		q2, err := profile.ParseData(s2.Writer.Files["out"].Bytes())
		if err != nil {
			return "saved profile of two runs unparseable: " + err.Error()
		}
		gotN := map[string]int{}
		for _, sm := range q2.Sample {
			name := "<unsymbolized>"
			if len(sm.Location) == 1 {
				if n := len(sm.Location[0].Line); n > 0 && sm.Location[0].Line[n-1].Function != nil {
					name = sm.Location[0].Line[n-1].Function.Name
				}
			}
			gotN[name] += int(sm.Value[0])
		}
		if fmt.Sprint(gotN) != fmt.Sprint(wantN) {
			return fmt.Sprintf("two runs of one executable with this object at biases %#x and %#x, given as two sources: samples per function after -symbolize=local are %v, the symbol table says %v (ui: %v)", bias, bias+0x7000000, gotN, wantN, ui2.Errs)
		}
	}
	// a leaf sample address is looked up as is; names are compared per location id
	for _, l := range q.Location {
		w, ok := want[l.ID]
		if !ok {
			continue
		}
		got := ""
		if n := len(l.Line); n > 0 && l.Line[n-1].Function != nil {
			got = l.Line[n-1].Function.Name
		}
		if got != w {
			return fmt.Sprintf("pprof -symbolize=local names the sample at %#x (mapping %#x-%#x) %q (%d lines); the symbol table says it lies in %s (ui: %v)", l.Address, l.Mapping.Start, l.Mapping.Limit, got, len(l.Line), w, ui.Errs)
		}
		c.Stat("driver_symbolized_locations", 1)
	}
	return ""
}

func init() {
	harness.Register(&harness.Check{
		ID:          "C13",
		Level:       "exploration",
		Rule:        "part synth: ELF64 files (header + program headers) generated under linker constraints (1-4 PT_LOAD sorted by vaddr, off = vaddr mod page, non-zero first vaddr, bss, neighbours packed onto one file page or on separate pages, 4 KiB or 2 MiB alignment, ET_DYN/ET_EXEC), loader simulation at a random page-aligned bias (also biases that are not multiples of p_align, and negative ones for objects with a non-zero image base), segments optionally padded to a page boundary, the executable mapping whole, split in two, or with its tail (from any page on) merged with the mapping of the following segment as adjacent same-file mappings are reported; addresses at segment start, end-1, interior; result must be address - bias, an error only counts in the unambiguous class, a wrong address always counts; further addresses through the same object file. part protocol: an interposed llvm-symbolizer echoes the address it is sent: it must be the link-time address; alternately an interposed GNU addr2line (echoing its question) plus an interposed nm table (one long-named symbol per 64 bytes) at high and at low biases: the reported name must be the one either tool gives for the link-time address. part nm: generated sorted symbol tables (duplicates, zero sizes, adjacent, text/data types, junk lines) behind an interposed nm, probed at start-1, start, start+1, end-1, end of every symbol and outside the table. part real: the same C program built with gcc/clang as -pie, -no-pie, noseparate-code, max-page-size=2MiB, -Ttext-segment, with gold (with and without --rosegment), and as a shared object laid out by a linker script like lld's default (read-only segment first, code packed behind it in the same file page); loader-simulated from its real headers at three biases; ObjAddr exact and SourceLine (llvm-symbolizer and nm) names the function whose symbol-table range contains the address; and a profile with samples at those runtime addresses run through the real driver (pprof -symbolize=local -proto) must come back with those function names, also when the object is mapped twice at different biases in one profile. part legacy: a legacy text profile whose memory map lists the text of the real executable in pieces; samples symbolize to the functions nm reports. non-trivial = every case; distinct = layout + bias",
		Assumptions: []string{"page size 4 KiB", "unambiguous class = the address lies in the file-backed part of exactly one PT_LOAD and no other segment has file content on the same page, mapping not split, and (merged mappings) the mapping holds at least one full page of the executable segment; pprof attributes a merged mapping holding less than a page of a segment to the next segment by design and answers with an error", "layouts are those the generator and the installed compilers produce"},
		Parts: []harness.Part{
			{Name: "synth", Quick: 6000, Thor: 300000, Run: runSynth},
			{Name: "protocol", Quick: 300, Thor: 6000, Run: runProtocol},
			{Name: "nm", Quick: 600, Thor: 20000, Run: runNM},
			{Name: "real", Quick: 11, Thor: 44, Run: runReal},
			{Name: "legacy", Quick: 12, Thor: 200, Run: runLegacy},
		},
		MinNonTrivial: func(string) int { return 500 },
	})
}
