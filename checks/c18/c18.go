// Package c18 monitors the syntactic validity of graph outputs (DOT, callgrind, HTML) for
// profiles whose strings contain the metacharacters of those formats.
package c18

import (
	"bytes"
	"fmt"
	"github.com/google/pprof/internal/report"
	"math/rand"
	"regexp"
	"strconv"
	"strings"
	"sync"

	"github.com/google/pprof/profile"
	"github.com/google/pprof/verif/internal/drv"
	"github.com/google/pprof/verif/internal/harness"
	"github.com/google/pprof/verif/internal/parse"
)

var hostile = []string{`q"r`, `b\`, "n\nl", `<h>`, `a&b`, `{x}`, `p|q`, `s;t`, `\l`, `\N`, `é☃`, `end\"`, `x\\"y`, `"`, `\`, `a" b="c`, `]`, `[x]`, `--`, `->`, "cr\rlf", `<script>alert(1)</script>`, `"><img src=x onerror=alert(1)>`, `</script>`, `'quo'`, `a\nb`, `%s`, "tab\there", `(1) evil`, `fn=(7) x`, `(1)`, `(9)`, `(`, `()`, strings.Repeat("a", 79) + `"`, strings.Repeat("b", 78) + `\"x`, strings.Repeat("c", 80) + `"tail`, strings.Repeat("é", 79) + `"`, strings.Repeat("d", 159) + `"`, "two\n\nlines", `95%`, `50%"`, `%d%v`, `a%`}

var sites = []string{"fn", "sys", "file", "mapfile", "buildid", "comment", "labelkey", "labelval", "numunit", "numkey", "stype", "sunit", "docurl", "mapfile2"}

func baseProfile(r *rand.Rand) *profile.Profile {
	m1 := &profile.Mapping{ID: 1, Start: 0x1000, Limit: 0x2000, File: "/bin/binA"}
	m2 := &profile.Mapping{ID: 2, Start: 0x3000, Limit: 0x4000, File: "/lib/binB"}
	p := &profile.Profile{SampleType: []*profile.ValueType{{Type: "n", Unit: "count"}, {Type: "v", Unit: "count"}}, Mapping: []*profile.Mapping{m1, m2}, PeriodType: &profile.ValueType{Type: "cpu", Unit: "ns"}, Period: 1}
	nf := 3 + r.Intn(3)
	for i := 0; i < nf; i++ {
		p.Function = append(p.Function, &profile.Function{ID: uint64(i + 1), Name: fmt.Sprintf("f%d", i), SystemName: fmt.Sprintf("s%d", i), Filename: fmt.Sprintf("dir/file%d.go", i%2), StartLine: int64(i)})
	}
	nl := 3 + r.Intn(4)
	for i := 0; i < nl; i++ {
		l := &profile.Location{ID: uint64(i + 1), Address: uint64(0x1000 + i*16), Mapping: m1}
		if i%3 == 1 {
			l.Mapping, l.Address = m2, uint64(0x3000+i*16)
		}
		for j, n := 0, 1+r.Intn(2); j < n; j++ {
			l.Line = append(l.Line, profile.Line{Function: p.Function[(i+j)%nf], Line: int64(1 + r.Intn(9))})
		}
		if i == nl-1 && r.Intn(2) == 0 {
			l.Line = nil // unsymbolized: shown by binary name
		}
		p.Location = append(p.Location, l)
	}
	for i, n := 0, 3+r.Intn(4); i < n; i++ {
		s := &profile.Sample{Value: []int64{int64(1 + r.Intn(3)), int64(1 + r.Intn(9))}, Label: map[string][]string{"k": {"v"}}, NumLabel: map[string][]int64{"bytes": {16}}, NumUnit: map[string][]string{"bytes": {"bytes"}}}
		for j, d := 0, 1+r.Intn(4); j < d; j++ {
			s.Location = append(s.Location, p.Location[r.Intn(nl)])
		}
		p.Sample = append(p.Sample, s)
	}
	if r.Intn(3) == 0 {
		// one entry with more numeric tag values than are shown one by one (the rest is collapsed
		// into ranges that get labels of their own)
		for len(p.Sample) < 6+r.Intn(4) {
			p.Sample = append(p.Sample, &profile.Sample{Value: []int64{1, int64(1 + r.Intn(9))}, Label: map[string][]string{"k": {"v"}}, NumLabel: map[string][]int64{}, NumUnit: map[string][]string{"bytes": {"bytes"}}, Location: []*profile.Location{p.Location[0]}})
		}
		for i, s := range p.Sample {
			s.NumLabel = map[string][]int64{"bytes": {int64(16) << uint(i)}}
			s.Location = append([]*profile.Location{p.Location[0]}, s.Location[1:]...)
		}
	}
	if r.Intn(3) == 0 {
		// profile-diff shape: entries whose values cancel to zero are not shown, and no edge may refer to them
		s := p.Sample[r.Intn(len(p.Sample))]
		neg := &profile.Sample{Location: s.Location, Label: s.Label, NumLabel: s.NumLabel, NumUnit: s.NumUnit, Value: []int64{-s.Value[0], -s.Value[1]}}
		if r.Intn(2) == 0 {
			// ... while the numeric tags of the two differ (the sizes changed between the two runs)
			neg.NumLabel = map[string][]int64{"bytes": {32}}
		}
		p.Sample = append(p.Sample, neg)
	}
	return p
}

func plant(p *profile.Profile, site, h string) {
	switch site {
	case "fn":
		p.Function[0].Name = h
	case "sys":
		p.Function[0].SystemName = h
	case "file":
		for _, f := range p.Function {
			f.Filename = "d/" + h
		}
	case "mapfile":
		p.Mapping[0].File = "/bin/" + h
	case "mapfile2":
		p.Mapping[1].File = "/lib/" + h
	case "buildid":
		p.Mapping[0].BuildID = h
	case "comment":
		p.Comments = []string{h}
	case "labelkey":
		for _, s := range p.Sample {
			s.Label = map[string][]string{h: {"v"}}
		}
	case "labelval":
		// the hostile value next to another one that sorts after it, alone, or as the last one
		vals := [][]string{{h, "w"}, {h}, {"!", h}}[len(h)%3]
		for _, s := range p.Sample {
			s.Label = map[string][]string{"k": append([]string(nil), vals...)}
		}
	case "numunit":
		for _, s := range p.Sample {
			s.NumUnit = map[string][]string{"bytes": {h}}
		}
	case "numkey":
		for _, s := range p.Sample {
			s.NumLabel = map[string][]int64{h: {16}}
			s.NumUnit = nil
		}
	case "stype":
		p.SampleType[1].Type = h
	case "sunit":
		p.SampleType[1].Unit = h
	case "docurl":
		p.DocURL = "http://x/" + h
		if strings.HasPrefix(h, "http") {
			p.DocURL = h // the token is a URL itself (with markup in its query)
		}
	}
}

// where a planted string must be recoverable in DOT output (after unescaping), if anywhere
func dotShows(site, gran string) bool {
	switch site {
	case "fn", "labelkey", "labelval", "mapfile":
		return true
	case "file":
		return gran == "lines" || gran == "files"
	}
	return false
}

func render(p *profile.Profile, format string, bools map[string]bool, strs map[string]string) (string, string) {
	b := map[string]bool{format: true}
	for k, v := range bools {
		b[k] = v
	}
	st := map[string]string{"sample_index": "1"}
	for k, v := range strs {
		st[k] = v
	}
	out, ui, res := drv.Report(map[string]*profile.Profile{"p": p}, []string{"p"}, b, st, nil, nil, nil)
	if res.Panic != "" {
		return "", "panic: " + res.Panic
	}
	if res.Err != nil {
		return "", fmt.Sprintf("error: %v (%v)", res.Err, ui.Errs)
	}
	return out, ""
}

func caseOf(c *harness.Ctx) (site, h string) {
	site = sites[c.Index%len(sites)]
	h = hostile[(c.Index/len(sites))%len(hostile)]
	return
}

// part paralleldot: several graphs composed at once in one process (as concurrent web requests do):
// every document equals the one composed alone, and is valid DOT.
func runParallelDOT(c *harness.Ctx) harness.Result {
	r := c.Rng
	type job struct {
		p    *profile.Profile
		want string
	}
	var jobs []job
	gen := func(p *profile.Profile) (string, error) {
		q := p.Copy()
		q.Aggregate(true, true, false, false, false, false)
		rpt := report.New(q, &report.Options{OutputFormat: report.Dot, SampleValue: func(v []int64) int64 { return v[1] }, SampleUnit: "count", NodeCount: 80, NodeFraction: 0.005, EdgeFraction: 0.001})
		var b bytes.Buffer
		err := report.Generate(&b, rpt, nil)
		return b.String(), err
	}
	for i := 0; i < 6; i++ {
		p := baseProfile(r)
		plant(p, sites[r.Intn(len(sites))], hostile[r.Intn(len(hostile))])
		plant(p, []string{"fn", "labelval", "labelkey", "mapfile"}[r.Intn(4)], hostile[r.Intn(len(hostile))])
		w, err := gen(p)
		if err != nil {
			continue
		}
		jobs = append(jobs, job{p, w})
	}
	res := harness.Result{NonTrivial: len(jobs) >= 2, Sig: fmt.Sprint("paralleldot", c.Index), Sample: fmt.Sprintf("%d graphs composed concurrently, 25 times each", len(jobs))}
	var wg sync.WaitGroup
	bad := make([]string, len(jobs))
	for i := range jobs {
		wg.Add(1)
		go func(i int) {
			defer wg.Done()
			for k := 0; k < 25 && bad[i] == ""; k++ {
				got, err := gen(jobs[i].p)
				if err != nil || got != jobs[i].want {
					bad[i] = fmt.Sprintf("graph %d composed while %d others are being composed differs from the same graph composed alone (err=%v)\n%s", i, len(jobs)-1, err, firstDiffStr(jobs[i].want, got))
				}
			}
		}(i)
	}
	wg.Wait()
	c.Stat("parallel_dot_documents", int64(25*len(jobs)))
	for _, b := range bad {
		if b != "" {
			res.Verdict, res.Detail = harness.Violated, b
			return res
		}
	}
	return res
}

func firstDiffStr(a, b string) string {
	i := 0
	for i < len(a) && i < len(b) && a[i] == b[i] {
		i++
	}
	lo := i - 100
	if lo < 0 {
		lo = 0
	}
	ha, hb := i+100, i+100
	if ha > len(a) {
		ha = len(a)
	}
	if hb > len(b) {
		hb = len(b)
	}
	return fmt.Sprintf("first difference at byte %d:\n alone       : …%q\n concurrently: …%q", i, a[lo:ha], b[lo:hb])
}

func runDOT(c *harness.Ctx) harness.Result {
	r := c.Rng
	site, h := caseOf(c)
	p := baseProfile(r)
	plant(p, site, h)
	if r.Intn(3) == 0 { // a second hostile string elsewhere
		plant(p, sites[r.Intn(len(sites))], hostile[r.Intn(len(hostile))])
		plant(p, site, h)
	}
	gran := []string{"functions", "lines", "files", "filefunctions", "addresses"}[r.Intn(5)]
	opts := map[string]bool{gran: true, "call_tree": r.Intn(2) == 0, "trim": r.Intn(2) == 0}
	if r.Intn(4) == 0 {
		opts["mean"] = true // entries whose mean rounds to nothing are not drawn; nothing may point at them
	}
	strs := map[string]string{}
	if r.Intn(4) == 0 {
		strs["tagshow"] = "nosuchtag" // tags off
	}
	if r.Intn(4) == 0 {
		strs["tagroot"] = "k"
	}
	desc := fmt.Sprintf("site=%s hostile=%q %v %v", site, h, opts, strs)
	res := harness.Result{NonTrivial: true, Sig: desc, Sample: map[string]any{"site": site, "string": h, "options": fmt.Sprint(opts, strs)}}
	out, e := render(p, "dot", opts, strs)
	c.Stat("dot_documents", 1)
	if e != "" {
		if strings.HasPrefix(e, "panic") {
			return harness.Violation("%s: %s", desc, e)
		}
		c.Stat("dot_errors", 1)
		return res // an error report is acceptable (e.g. sample type names that cannot be selected)
	}
	g, err := parse.ParseDOT(out)
	if err != nil {
		res.Verdict = harness.Violated
		res.Detail = fmt.Sprintf("%s: DOT output is not a valid Graphviz document: %v\n%s", desc, err, harness.Trunc(out, 3000))
		return res
	}
	if dotShows(site, gran) {
		found := false
		want := strings.ReplaceAll(h, "\r", "\r")
		for _, v := range g.AllValues {
			u := parse.DotUnescape(v)
			if strings.Contains(u, want) || strings.Contains(strings.ReplaceAll(u, "\n", "."), want) {
				found = true
				break
			}
		}
		if !found && site == "fn" {
			// node labels shorten function names; the tooltip carries the full printable name
			for _, id := range g.NodeOrder {
				if strings.Contains(parse.DotUnescape(g.Nodes[id]["tooltip"]), want) {
					found = true
				}
			}
		}
		if !found {
			// the entry may have been trimmed away or not be part of any shown stack
			c.Stat("dot_string_not_shown", 1)
		} else {
			c.Stat("dot_string_recovered", 1)
		}
	}
	return res
}

var (
	cgHeader  = regexp.MustCompile(`^(positions: instr line|events: \S.*)$`)
	cgName    = regexp.MustCompile(`^(ob|fl|fn|cfl|cfn|cob)=(?:\((\d+)\)(?: (.*))?)?$`)
	cgCost    = regexp.MustCompile(`^(0x[0-9a-f]+|[+-]\d+|\*) (\d+|\*|[+-]\d+) (-?\d+)$`)
	cgCalls   = regexp.MustCompile(`^calls=(\d+) (0x[0-9a-f]+|[+-]\d+|\*) (\d+|\*|[+-]\d+)$`)
	cgRelaxed = regexp.MustCompile(`^(ob|fl|fn|cfl|cfn|cob)=`)
)

// checkCallgrind verifies the line grammar and the name compression of a callgrind document.
func checkCallgrind(out string, p *profile.Profile, index int) string {
	lines := strings.Split(strings.TrimRight(out, "\n"), "\n")
	if len(lines) < 2 || lines[0] != "positions: instr line" || !strings.HasPrefix(lines[1], "events: ") {
		return fmt.Sprintf("header lines wrong: %q", lines[:min(2, len(lines))])
	}
	defs := map[string]map[int]string{"ob": {}, "fl": {}, "fn": {}}
	space := func(k string) string { return strings.TrimPrefix(k, "c") }
	var prevAddr uint64
	havePrev := false
	addrs := map[uint64]bool{}
	for _, l := range p.Location {
		addrs[l.Address] = true
	}
	var selfSum int64
	expectCallCost := false
	for i, l := range lines[2:] {
		ln := i + 3
		switch {
		case l == "":
			continue
		case cgRelaxed.MatchString(l):
			m := cgName.FindStringSubmatch(l)
			if m == nil {
				return fmt.Sprintf("line %d %q is not a valid name line", ln, l)
			}
			if m[2] == "" {
				continue // "cfn=" empty reference: no name known
			}
			id, _ := strconv.Atoi(m[2])
			sp := defs[space(m[1])]
			if strings.Contains(l, ") ") { // definition
				name := m[3]
				if old, ok := sp[id]; ok && old != name {
					return fmt.Sprintf("line %d redefines (%d) of %s from %q to %q", ln, id, space(m[1]), old, name)
				}
				for oid, oname := range sp {
					if oname == name && oid != id {
						return fmt.Sprintf("line %d defines %q as (%d) although it already is (%d)", ln, name, id, oid)
					}
				}
				sp[id] = name
			} else if _, ok := sp[id]; !ok {
				return fmt.Sprintf("line %d refers to (%d) of %s which was never defined", ln, id, space(m[1]))
			}
		case strings.HasPrefix(l, "calls="):
			if cgCalls.FindStringSubmatch(l) == nil {
				return fmt.Sprintf("line %d %q is not a valid calls line", ln, l)
			}
			expectCallCost = true
		default:
			m := cgCost.FindStringSubmatch(l)
			if m == nil {
				return fmt.Sprintf("line %d %q matches no callgrind line form (a name probably spilled over a line break)", ln, l)
			}
			cost, _ := strconv.ParseInt(m[3], 10, 64)
			if expectCallCost {
				expectCallCost = false
				continue
			}
			// self cost line: decode the address
			var addr uint64
			switch {
			case strings.HasPrefix(m[1], "0x"):
				addr, _ = strconv.ParseUint(m[1][2:], 16, 64)
			case m[1] == "*":
				if !havePrev {
					return fmt.Sprintf("line %d uses '*' without a previous position", ln)
				}
				addr = prevAddr
			default:
				if !havePrev {
					return fmt.Sprintf("line %d uses a relative position without a previous one", ln)
				}
				d, _ := strconv.ParseInt(m[1], 10, 64)
				addr = uint64(int64(prevAddr) + d)
			}
			if !addrs[addr] {
				return fmt.Sprintf("line %d %q decodes to address %#x which is not an address of the profile (previous position %#x)", ln, l, addr, prevAddr)
			}
			prevAddr, havePrev = addr, true
			selfSum += cost
		}
	}
	var want int64
	if index < 0 {
		return "" // costs are scaled: only the grammar and the positions are checked
	}
	for _, s := range p.Sample {
		if len(s.Location) > 0 {
			want += s.Value[index]
		}
	}
	if selfSum != want {
		return fmt.Sprintf("self costs sum to %d, samples with a stack sum to %d", selfSum, want)
	}
	return ""
}

func min(a, b int) int {
	if a < b {
		return a
	}
	return b
}

func runCallgrind(c *harness.Ctx) harness.Result {
	r := c.Rng
	site, h := caseOf(c)
	p := baseProfile(r)
	plant(p, site, h)
	opts := map[string]bool{"call_tree": r.Intn(2) == 0}
	// coarse output units and per-sample means make small costs print as 0
	strs := map[string]string{}
	index := 1
	switch r.Intn(4) {
	case 0:
		for _, st := range p.SampleType {
			st.Unit = "nanoseconds"
		}
		plant(p, site, h)
		strs["unit"] = []string{"s", "hours", "ms", "us"}[r.Intn(4)]
		index = -1
	case 1:
		opts["mean"] = true
		index = -1
	}
	desc := fmt.Sprintf("site=%s hostile=%q %v %v", site, h, opts, strs)
	res := harness.Result{NonTrivial: true, Sig: desc, Sample: map[string]any{"site": site, "string": h}}
	out, e := render(p, "callgrind", opts, strs)
	c.Stat("callgrind_documents", 1)
	if e != "" {
		if strings.HasPrefix(e, "panic") {
			return harness.Violation("%s: %s", desc, e)
		}
		return res
	}
	if msg := checkCallgrind(out, p, index); msg != "" {
		res.Verdict = harness.Violated
		res.Detail = fmt.Sprintf("%s: callgrind output: %s\n%s", desc, msg, harness.Trunc(out, 3000))
	}
	return res
}

var htmlTokens = []string{`<script>alert(1)</script>`, `"><img src=x onerror=alert(1)>`, `</script><b>x</b>`, `<b onmouseover=x>`, `'><svg onload=1>`, `<!--`, `&lt;ok&gt;<i>`, `https://example.com/help?topic="><script>alert(1)</script>`, `http://h.test/p?q="onmouseover="alert(1)`}

func runHTML(c *harness.Ctx) harness.Result {
	r := c.Rng
	site := sites[c.Index%len(sites)]
	tok := htmlTokens[(c.Index/len(sites))%len(htmlTokens)]
	p := baseProfile(r)
	plant(p, site, tok)
	drv.IsolateEnv(c.Tmp)
	desc := fmt.Sprintf("site=%s token=%q", site, tok)
	res := harness.Result{NonTrivial: true, Sig: desc, Sample: map[string]any{"site": site, "token": tok}}
	web, err := drv.StartWeb(&drv.MapFetcher{Profiles: map[string]*profile.Profile{"p": p}}, []string{"p"}, nil, map[string]string{"sample_index": "1"}, nil)
	if err != nil {
		c.Stat("html_start_errors", 1)
		return res
	}
	defer web.Close()
	for _, u := range []string{"/top", "/flamegraph", "/peek?f=.", "/source?f=.", "/top?g=lines", "/flamegraph?g=files", "/disasm?f=.", "/", "/top?f=" + urlEscape(tok)} {
		code, body, pn := web.Get(u)
		if pn != "" {
			return harness.Violation("%s: GET %s panicked: %s", desc, u, harness.Trunc(pn, 1500))
		}
		c.Stat("html_pages", 1)
		_ = code
		if i := strings.Index(body, tok); i >= 0 {
			lo := i - 200
			if lo < 0 {
				lo = 0
			}
			hi := i + len(tok) + 100
			if hi > len(body) {
				hi = len(body)
			}
			res.Verdict = harness.Violated
			res.Detail = fmt.Sprintf("%s: GET %s (status %d) contains the profile-derived text verbatim (unescaped): …%s…", desc, u, code, body[lo:hi])
			return res
		}
	}
	return res
}

func urlEscape(s string) string {
	var sb strings.Builder
	for i := 0; i < len(s); i++ {
		fmt.Fprintf(&sb, "%%%02X", s[i])
	}
	return sb.String()
}

func init() {
	n := len(sites) * len(hostile)
	harness.Register(&harness.Check{
		ID:          "C18",
		Level:       "exploration",
		Rule:        "every profile-derived string site (function, system name, file, mapping file of first and second binary, build id, comment, label key, label value, numeric-label unit and key, sample type and unit, doc URL) x 35 hostile strings (quotes, backslashes incl. trailing, newlines, CR, angle brackets, braces, pipes, semicolons, DOT escapes \\l \\N, brackets, arrows, non-ASCII, callgrind look-alikes, script tags), enumerated exhaustively as (site, string) pairs, x random {granularity, call_tree, trim, tags on/off, tagroot}; a third of the profiles are diff-shaped (a sample and its negation, with equal or different numeric tags, so entries and tags of zero weight exist); callgrind additionally under coarse -unit (s, hours, ms, us) and -mean where small costs print as 0; part dot: the output must parse with the independent Graphviz grammar (string lexing per scan.l) and every edge endpoint must be declared; part callgrind: header, every line matches a callgrind line form, (n) references defined before use and never redefined, positions decode (absolute or relative to the previous position) to addresses of the profile, self costs sum to the samples' total; part html: 9 markup tokens (two of them absolute URLs with markup in the query) x sites; /top /flamegraph /peek /source /disasm / pages never contain the token verbatim. part paralleldot: several DOT documents composed at the same time from one graph equal the sequential ones and parse. non-trivial = every case; distinct = (site, string, options)",
		Assumptions: []string{"graphviz is not installed: validity is decided by the harness's own DOT grammar", "call targets in callgrind are decoded under pprof's own relative scheme only for self-cost lines"},
		Parts: []harness.Part{
			{Name: "dot", Quick: 3 * n, Thor: 120 * n, Run: runDOT},
			{Name: "callgrind", Quick: 2 * n, Thor: 60 * n, Run: runCallgrind},
			{Name: "paralleldot", Quick: 40, Thor: 2000, Run: runParallelDOT},
			{Name: "html", Quick: len(sites) * len(htmlTokens) * 2, Thor: len(sites) * len(htmlTokens) * 40, Run: runHTML},
		},
		Extra: func(tier string, st map[string]int64) map[string]any {
			return map[string]any{"site_string_pairs_enumerated": n}
		},
		MinNonTrivial: func(string) int { return 500 },
	})
}
