// Package c12 monitors symbolization: whatever the symbol sources answer (including a failure
// injected at every call index), measurements are untouched and the result stays valid.
package c12

import (
	"bytes"
	"fmt"
	"io"
	"math/rand"
	"net/http"
	"regexp"
	"sort"
	"strings"

	"github.com/google/pprof/internal/plugin"
	"github.com/google/pprof/internal/symbolizer"
	"github.com/google/pprof/profile"
	"github.com/google/pprof/verif/internal/drv"
	"github.com/google/pprof/verif/internal/harness"
	"github.com/google/pprof/verif/internal/mon"
)

// script is a deterministic scripted ObjTool + symbolz endpoint. Every call increments calls;
// the call whose index equals failAt fails.
type script struct {
	r      *rand.Rand
	calls  int
	failAt int
	log    []string
	posts  []string // request bodies sent to the symbol service
	narrow bool     // answer with the same few functions for every binary
}

func (o *script) step(what string) bool {
	o.calls++
	o.log = append(o.log, what)
	return o.calls == o.failAt
}

func (o *script) Open(file string, start, limit, offset uint64, rs string) (plugin.ObjFile, error) {
	if o.step("Open "+file) || o.r.Intn(6) == 0 {
		return nil, fmt.Errorf("injected open failure")
	}
	bid := ""
	switch o.r.Intn(4) {
	case 0:
		bid = "wrongid"
	case 1:
		bid = "id1"
	}
	return &scriptFile{o, file, bid}, nil
}
func (o *script) Disasm(string, uint64, uint64, bool) ([]plugin.Inst, error) { return nil, nil }

type scriptFile struct {
	o    *script
	name string
	bid  string
}

func (f *scriptFile) Name() string                     { return f.name }
func (f *scriptFile) ObjAddr(a uint64) (uint64, error) { return a, nil }
func (f *scriptFile) BuildID() string                  { return f.bid }
func (f *scriptFile) Close() error                     { return nil }
func (f *scriptFile) Symbols(*regexp.Regexp, uint64) ([]*plugin.Sym, error) {
	return nil, nil
}

var frameNames = []string{"", "plain", "_Z3fooi", "<unknown>", "ns::f(int)<T>", "(x)", "_ZN3foo3barEv", "operator()", "<lambda>", "[clone .cold]"}

func (f *scriptFile) SourceLine(a uint64) ([]plugin.Frame, error) {
	if f.o.step(fmt.Sprintf("SourceLine %#x", a)) {
		return nil, fmt.Errorf("injected sourceline failure")
	}
	switch f.o.r.Intn(5) {
	case 0:
		return nil, nil
	case 1:
		return nil, fmt.Errorf("err")
	}
	var fr []plugin.Frame
	for i, n := 0, 1+f.o.r.Intn(3); i < n; i++ {
		if f.o.narrow {
			// a library mapped twice / a merged multi-process profile: the same few functions everywhere
			fr = append(fr, plugin.Frame{Func: []string{"plain", "_Z3fooi"}[f.o.r.Intn(2)], File: "a.c", Line: f.o.r.Intn(3)})
			continue
		}
		fr = append(fr, plugin.Frame{Func: frameNames[f.o.r.Intn(len(frameNames))], File: []string{"", "a.c"}[f.o.r.Intn(2)], Line: f.o.r.Intn(3), Column: f.o.r.Intn(2), StartLine: f.o.r.Intn(2)})
	}
	return fr, nil
}

// RoundTrip implements the symbolz endpoint.
func (o *script) RoundTrip(req *http.Request) (*http.Response, error) {
	body, _ := io.ReadAll(req.Body)
	o.posts = append(o.posts, string(body))
	if o.step("POST " + req.URL.String()) {
		return nil, fmt.Errorf("injected transport failure")
	}
	mk := func(code int, s string) (*http.Response, error) {
		return &http.Response{StatusCode: code, Status: fmt.Sprint(code), Body: io.NopCloser(strings.NewReader(s)), Header: http.Header{}, Request: req}, nil
	}
	switch o.r.Intn(7) {
	case 0:
		return mk(500, "boom")
	case 1:
		return mk(200, "")
	case 2:
		return mk(200, "garbage\n\x00\xff 0x\n0xzz name\n")
	}
	var sb strings.Builder
	for _, a := range strings.Split(string(body), "+") {
		switch o.r.Intn(6) {
		case 0: // partial answer
			continue
		case 1: // extra address never asked for
			fmt.Fprintf(&sb, "0x%x extra_fn\n", 0x10+o.r.Intn(0x5000))
		}
		fmt.Fprintf(&sb, "%s %s\n", a, frameNames[1+o.r.Intn(len(frameNames)-1)])
	}
	if o.r.Intn(5) == 0 {
		sb.WriteString("0xffffffffffffffff overflow_fn\n")
	}
	return mk(200, sb.String())
}

var modes = []string{"", "local", "fastlocal", "local:force", "force", "none", "local:demangle=full", "local:demangle=none", "local:demangle=templates", "demangle=default", "remote", "remote:force", "local:remote", "fastlocal:force:demangle=full", "bogus", "none:force"}

func genProfile(r *rand.Rand) *profile.Profile {
	m1 := &profile.Mapping{ID: 1 + uint64(r.Intn(2))*10, Start: 0x1000, Limit: 0x2000, File: []string{"/bin/binA", "http://host/debug/pprof/profile", "[vdso]", "", "/opt/app/100%_native/server", ":foo", "1:a/b", "/a\x7fb/c", "https://host:x/y", "http://[::1"}[r.Intn(10)]}
	m2 := &profile.Mapping{ID: 2, Start: 0x3000, Limit: 0x4000, Offset: 0x1000, File: "/lib/binB"}
	if r.Intn(3) == 0 {
		// two objects reported at the same addresses: equal addresses in different mappings
		m2.Start, m2.Limit = m1.Start, m1.Limit
	}
	p := &profile.Profile{SampleType: []*profile.ValueType{{Type: "n", Unit: "count"}, {Type: "v", Unit: "ms"}}, Mapping: []*profile.Mapping{m1, m2}, PeriodType: &profile.ValueType{Type: "cpu", Unit: "ns"}, Period: 1}
	if r.Intn(4) == 0 {
		p.Mapping = append(p.Mapping, &profile.Mapping{ID: 77, Start: 0x9000, Limit: 0xa000}) // fake / dangling mapping
	}
	if r.Intn(5) == 0 {
		// a mapping without any address range but with a file name (what a converter, or pprof's own
		// stand-in mapping together with a binary named on the command line, produces)
		p.Mapping = append(p.Mapping, &profile.Mapping{ID: 55, File: "/bin/zero"})
	}
	for _, m := range p.Mapping {
		m.HasFunctions = r.Intn(2) == 0
		if r.Intn(3) == 0 {
			m.HasFilenames = true
		}
		if r.Intn(4) == 0 {
			m.HasLineNumbers = true
		}
		m.BuildID = []string{"", "id1"}[r.Intn(2)]
	}
	nf := 1 + r.Intn(5)
	for i := 0; i < nf; i++ {
		id := uint64(i*3 + 2) // sparse ids
		if r.Intn(5) == 0 {
			id = uint64(1<<40) + uint64(i)
		}
		name := []string{"f0", "_Z3fooi", "<unknown>", "ns::g(int)", "main"}[r.Intn(5)]
		f := &profile.Function{ID: id, Name: name, SystemName: name, Filename: "x.c"}
		switch r.Intn(6) {
		case 0:
			f.SystemName = "" // display name only
		case 1:
			f.SystemName = "_Zmangled" + name
		case 2:
			// one system name in several demangling states (tables merged from runs with different
			// demangle= settings, or written by another tool)
			f.SystemName = "_Z3fooi"
			f.Name = []string{"_Z3fooi", "foo(int)", "foo", "custom::name", ""}[r.Intn(5)]
		}
		p.Function = append(p.Function, f)
	}
	// occasionally make id == len(Function)+1 collide with an existing one
	if r.Intn(2) == 0 {
		p.Function[len(p.Function)-1].ID = uint64(len(p.Function) + 1 + r.Intn(3))
	}
	if nf >= 2 && r.Intn(4) == 0 {
		// a table that is neither dense nor sorted, whose last entry happens to carry the table's
		// length as its id while an earlier one lies just above it
		p.Function[nf-1].ID = uint64(nf)
		p.Function[0].ID = uint64(nf + 1 + r.Intn(2))
	}
	ids := map[uint64]bool{}
	for i := len(p.Function) - 1; i >= 0; i-- {
		f := p.Function[i]
		for ids[f.ID] {
			f.ID += 100
		}
		ids[f.ID] = true
	}
	nl := 2 + r.Intn(6)
	for i := 0; i < nl; i++ {
		l := &profile.Location{ID: uint64(i + 1), IsFolded: r.Intn(6) == 0}
		m := p.Mapping[r.Intn(len(p.Mapping))]
		l.Mapping = m
		l.Address = m.Start + []uint64{0, 1, 0x10, 0xfff, 0x20}[r.Intn(5)] // mapping edges
		if r.Intn(5) == 0 {
			l.Mapping = nil
			l.Address = []uint64{0x7000, 0x1000, 0x1010, 0x3010}[r.Intn(4)] // may equal a mapped address
		}
		if r.Intn(2) == 0 {
			for j, n := 0, 1+r.Intn(2); j < n; j++ {
				l.Line = append(l.Line, profile.Line{Function: p.Function[r.Intn(nf)], Line: int64(r.Intn(4))})
			}
		}
		p.Location = append(p.Location, l)
	}
	for i, n := 0, 1+r.Intn(6); i < n; i++ {
		s := &profile.Sample{Value: []int64{int64(1 + r.Intn(3)), int64(r.Intn(7) - 2)}}
		for j, d := 0, r.Intn(5); j < d; j++ {
			s.Location = append(s.Location, p.Location[r.Intn(nl)])
		}
		if r.Intn(3) == 0 {
			s.Label = map[string][]string{"k": {"v"}}
			s.NumLabel = map[string][]int64{"bytes": {16}}
			s.NumUnit = map[string][]string{"bytes": {"bytes"}}
		}
		p.Sample = append(p.Sample, s)
	}
	return p
}

// snap captures everything symbolization must not touch.
func snap(p *profile.Profile) string {
	var sb strings.Builder
	for _, s := range p.Sample {
		fmt.Fprintf(&sb, "S %v %v %v %v [", s.Value, s.Label, s.NumLabel, s.NumUnit)
		for _, l := range s.Location {
			fmt.Fprintf(&sb, "%d@%x ", l.ID, l.Address)
		}
		sb.WriteString("]\n")
	}
	for _, m := range p.Mapping {
		fmt.Fprintf(&sb, "M %d %x %x %x %q %q\n", m.ID, m.Start, m.Limit, m.Offset, m.File, m.BuildID)
	}
	for _, l := range p.Location {
		mid := uint64(0)
		if l.Mapping != nil {
			mid = l.Mapping.ID
		}
		fmt.Fprintf(&sb, "L %d %x m%d\n", l.ID, l.Address, mid)
	}
	fmt.Fprintf(&sb, "T %d", len(p.SampleType))
	return sb.String()
}

func keysOf(m map[string]bool) []string {
	var out []string
	for k := range m {
		out = append(out, k)
	}
	sort.Strings(out)
	return out
}

type runOut struct {
	calls int
	msg   string
	err   error
}

// one symbolization run with a failure injected at call index failAt (0 = none)
func oneRun(seed int64, mode string, failAt int) runOut {
	r := rand.New(rand.NewSource(seed))
	p := genProfile(r)
	if err := mon.Valid(p); err != nil {
		return runOut{msg: "generator: " + err.Error()}
	}
	before := snap(p)
	// "already carries symbols": has_functions for every source; for the local object-file path
	// any of has_functions / has_filenames / has_line_numbers (the symbol service only looks at
	// has_functions, so the wider rule is applied when the mode excludes it)
	localOnly := strings.Contains(mode, "local") && !strings.Contains(mode, "remote")
	// the symbol service is only asked about locations that have no lines yet: in a remote-only
	// mode every location that already has lines keeps them
	remoteOnly := strings.Contains(mode, "remote") && !strings.Contains(mode, "local")
	linesBefore := map[uint64]string{}
	for _, l := range p.Location {
		if m := l.Mapping; m != nil && (m.HasFunctions || (localOnly && (m.HasFilenames || m.HasLineNumbers))) {
			linesBefore[l.ID] = fmt.Sprint(l.Line)
		}
	}
	hadLines := map[uint64]int{}
	for _, l := range p.Location {
		hadLines[l.ID] = len(l.Line)
	}
	hadFuncFlag := map[*profile.Mapping]bool{}
	for _, m := range p.Mapping {
		hadFuncFlag[m] = m.HasFunctions
	}
	namesBefore := map[*profile.Function]string{}
	sysBefore := map[*profile.Function]string{}
	for _, f := range p.Function {
		namesBefore[f] = f.Name
		sysBefore[f] = f.SystemName
	}
	sc := &script{r: rand.New(rand.NewSource(seed ^ 0x5bd1e995)), failAt: failAt, narrow: seed%3 == 0}
	sources := plugin.MappingSources{}
	for _, m := range p.Mapping {
		src := struct {
			Source string
			Start  uint64
		}{Source: "http://host/debug/pprof/profile", Start: m.Start}
		if r.Intn(4) == 0 {
			src.Start = m.Start + 0x100 // merged-mapping adjustment
		}
		if r.Intn(6) == 0 {
			src.Start = ^uint64(0) - 5 // forces address adjustment overflow
		}
		if m.File != "" {
			sources[m.File] = append(sources[m.File], src)
		}
		if m.BuildID != "" {
			sources[m.BuildID] = append(sources[m.BuildID], src)
		}
	}
	// what the symbol service may be asked: per mapping and source, the (offset-adjusted) addresses
	// of exactly the locations that have no lines yet
	askable := map[string]bool{}
	for _, m := range p.Mapping {
		srcs := append(append([]struct {
			Source string
			Start  uint64
		}{}, sources[m.File]...), sources[m.BuildID]...)
		for _, src := range srcs {
			off := int64(src.Start) - int64(m.Start)
			var a []string
			for _, l := range p.Location {
				if l.Mapping == m && l.Address != 0 && len(l.Line) == 0 {
					a = append(a, fmt.Sprintf("%#x", uint64(int64(l.Address)+off)))
				}
			}
			askable[addrSet(strings.Join(a, "+"))] = true
		}
	}
	ui := &drv.UI{}
	s := &symbolizer.Symbolizer{Obj: sc, UI: ui, Transport: sc}
	force := strings.Contains(mode, "force") || strings.Contains(mode, "demangle=full") || strings.Contains(mode, "demangle=none") || strings.Contains(mode, "demangle=templates")
	var err error
	var panicMsg string
	func() {
		defer func() {
			if rr := recover(); rr != nil {
				panicMsg = fmt.Sprint(rr)
			}
		}()
		err = s.Symbolize(mode, sources, p)
	}()
	out := runOut{calls: sc.calls, err: err}
	ctx := fmt.Sprintf("mode=%q failAt=%d calls=%v", mode, failAt, sc.log)
	switch {
	case panicMsg != "":
		out.msg = ctx + ": panic: " + panicMsg
	case snap(p) != before:
		out.msg = fmt.Sprintf("%s: symbolization changed samples, values, labels, stack depth, addresses or mapping ranges\nbefore:\n%s\nafter:\n%s", ctx, before, snap(p))
	default:
		if remoteOnly {
			for _, body := range sc.posts {
				if !askable[addrSet(body)] {
					out.msg = fmt.Sprintf("%s: the symbol service was asked about %q; it may only be asked about the addresses of locations that have no lines yet (per mapping: %v)", ctx, body, keysOf(askable))
				}
			}
			if out.msg != "" {
				break
			}
		}
		if e := mon.Valid(p); e != nil {
			out.msg = ctx + ": profile invalid after symbolization: " + e.Error()
			break
		}
		if e := p.CheckValid(); e != nil {
			out.msg = ctx + ": CheckValid fails after symbolization: " + e.Error()
			break
		}
		if !force {
			for _, l := range p.Location {
				if w, ok := linesBefore[l.ID]; ok && fmt.Sprint(l.Line) != w {
					out.msg = fmt.Sprintf("%s: location %d belongs to a mapping that already carried symbols (has_functions, or for local-only modes has_filenames / has_line_numbers) and force was not requested, but its lines changed from %s to %v", ctx, l.ID, w, l.Line)
					break
				}
			}
		}
		// symbolization attaches information: whatever the sources answer (an empty answer included),
		// with or without force, a location that had line information does not end up without any;
		// and a mapping whose locations were given function names in this run says so in its flag
		for _, l := range p.Location {
			if hadLines[l.ID] > 0 && len(l.Line) == 0 {
				out.msg = fmt.Sprintf("%s: location %d (address %#x) had %d line records before symbolization and has none afterwards", ctx, l.ID, l.Address, hadLines[l.ID])
				break
			}
			if m := l.Mapping; m != nil && hadLines[l.ID] == 0 && len(l.Line) > 0 && !m.HasFunctions {
				named := false
				for _, ln := range l.Line {
					named = named || (ln.Function != nil && ln.Function.Name != "")
				}
				if named {
					out.msg = fmt.Sprintf("%s: location %d of mapping %d was given function names by this run, but the mapping's has_functions flag is still unset", ctx, l.ID, m.ID)
					break
				}
			}
		}
		// ... and a mapping that said it had function names keeps saying so while its locations
		// still carry them (a pass that learns nothing new takes nothing away)
		for _, l := range p.Location {
			if m := l.Mapping; m != nil && hadFuncFlag[m] && !m.HasFunctions {
				for _, ln := range l.Line {
					if ln.Function != nil && ln.Function.Name != "" {
						out.msg = fmt.Sprintf("%s: mapping %d had has_functions set and location %d still carries the function %q, but the flag was cleared", ctx, m.ID, l.ID, ln.Function.Name)
					}
				}
			}
		}
		if out.msg != "" {
			break
		}
		if !force {
			// information that is already there is not rewritten: a function that has a display name
			// of its own (different from its system name) keeps it
			for _, f := range p.Function {
				if n, old := namesBefore[f]; old && n != "" && n != sysBefore[f] && f.Name != n {
					out.msg = fmt.Sprintf("%s: function with system name %q already had the display name %q and force was not requested, but it was renamed to %q", ctx, sysBefore[f], n, f.Name)
					break
				}
			}
		}
		for f, n := range namesBefore {
			if n != "" && f.Name == "" {
				out.msg = fmt.Sprintf("%s: function name %q was replaced by an empty name", ctx, n)
				break
			}
		}
		for _, f := range p.Function {
			if _, old := namesBefore[f]; !old && f.SystemName != "" && f.Name == "" {
				out.msg = fmt.Sprintf("%s: new function with system name %q got an empty name", ctx, f.SystemName)
			}
		}
	}
	return out
}

func run(c *harness.Ctx) harness.Result {
	seed := c.Rng.Int63()
	mode := modes[c.Rng.Intn(len(modes))]
	base := oneRun(seed, mode, 0)
	res := harness.Result{NonTrivial: base.calls > 0, Sig: fmt.Sprintf("%s/%d/%d", mode, base.calls, seed), Sample: map[string]any{"mode": mode, "plugin_calls": base.calls, "seed": seed}}
	c.Stat("runs", 1)
	c.Stat("mode."+mode, 1)
	if base.msg != "" {
		res.Verdict, res.Detail = harness.Violated, base.msg
		return res
	}
	// failure injected at every call index of the scripted sequence
	for k := 1; k <= base.calls; k++ {
		c.Stat("fault_points", 1)
		o := oneRun(seed, mode, k)
		c.Stat("runs", 1)
		if o.msg != "" {
			res.Verdict, res.Detail = harness.Violated, o.msg
			return res
		}
	}
	return res
}

var _ = bytes.NewBuffer

// ---- the same through the real driver: pprof -symbolize=<mode> -proto with the scripted tools ----

func lineSig(l *profile.Location) string {
	var sb strings.Builder
	for _, ln := range l.Line {
		if ln.Function == nil {
			fmt.Fprintf(&sb, "{nil %d:%d}", ln.Line, ln.Column)
			continue
		}
		// the display name is left out: demangling rewrites it in every mode
		fmt.Fprintf(&sb, "{%q %q %d %d:%d}", ln.Function.SystemName, ln.Function.Filename, ln.Function.StartLine, ln.Line, ln.Column)
	}
	return sb.String()
}

// frame condition across a save: as snap, without the attributes the driver may legitimately fill
// in from the binaries it opens (mapping file path and build id)
func snapSaved(p *profile.Profile) string {
	var sb strings.Builder
	for _, s := range p.Sample {
		fmt.Fprintf(&sb, "S %v %v %v %v [", s.Value, s.Label, s.NumLabel, s.NumUnit)
		for _, l := range s.Location {
			fmt.Fprintf(&sb, "%d@%x ", l.ID, l.Address)
		}
		sb.WriteString("]\n")
	}
	for _, m := range p.Mapping {
		fmt.Fprintf(&sb, "M %d %x %x %x\n", m.ID, m.Start, m.Limit, m.Offset)
	}
	for _, l := range p.Location {
		mid := uint64(0)
		if l.Mapping != nil {
			mid = l.Mapping.ID
		}
		fmt.Fprintf(&sb, "L %d %x m%d\n", l.ID, l.Address, mid)
	}
	fmt.Fprintf(&sb, "T %d", len(p.SampleType))
	return sb.String()
}

func runDriver(c *harness.Ctx) harness.Result {
	seed := c.Rng.Int63()
	mode := modes[c.Rng.Intn(len(modes))]
	r := rand.New(rand.NewSource(seed))
	p := genProfile(r)
	// a sample recorded twice and a sample whose values are all zero are samples like any other
	if len(p.Sample) > 0 && r.Intn(2) == 0 {
		src := p.Sample[r.Intn(len(p.Sample))]
		dup := &profile.Sample{Value: append([]int64(nil), src.Value...), Location: src.Location, Label: src.Label, NumLabel: src.NumLabel, NumUnit: src.NumUnit}
		if r.Intn(2) == 0 {
			for i := range dup.Value {
				dup.Value[i] = 0
			}
		}
		p.Sample = append(p.Sample, dup)
	}
	// what cannot be saved is not part of the comparison (C01): take the profile after one codec trip
	var b0 bytes.Buffer
	p.WriteUncompressed(&b0)
	p, err := profile.ParseUncompressed(b0.Bytes())
	if err != nil {
		return harness.Result{Verdict: harness.Inconclusive, Detail: "generator: " + err.Error()}
	}
	failAt := 0
	if c.Rng.Intn(2) == 0 {
		failAt = 1 + c.Rng.Intn(12)
	}
	sc := &script{r: rand.New(rand.NewSource(seed ^ 0x5bd1e995)), failAt: failAt}
	ui := &drv.UI{}
	src := "http://host/debug/pprof/profile"
	drv.IsolateEnv(c.Tmp)
	sesn := &drv.Session{Flags: &drv.Flags{Bools: map[string]bool{"proto": true, "addresses": true, "flat": true}, Strs: map[string]string{"output": "out", "symbolize": mode}, Args: []string{src}},
		Fetch: &drv.MapFetcher{Profiles: map[string]*profile.Profile{src: p.Copy()}, Remote: seed%2 == 0}, Obj: sc, Sym: &symbolizer.Symbolizer{Obj: sc, UI: ui, Transport: sc}, UI: ui}
	rr := sesn.Run()
	ctx := fmt.Sprintf("pprof -symbolize=%q -proto, failAt=%d calls=%v", mode, failAt, sc.log)
	res := harness.Result{NonTrivial: sc.calls > 0, Sig: fmt.Sprintf("driver %s/%d/%d", mode, sc.calls, seed), Sample: map[string]any{"mode": mode, "plugin_calls": sc.calls, "via": "driver"}}
	c.Stat("driver_runs", 1)
	if rr.Panic != "" {
		return harness.Violation("%s: panic: %s", ctx, rr.Panic)
	}
	if rr.Err != nil {
		c.Stat("driver_errors", 1)
		return res // reported as an error (unknown mode, ...): nothing was saved
	}
	bf := sesn.Writer.Files["out"]
	if bf == nil {
		return harness.Violation("%s: no output and no error", ctx)
	}
	q, err := profile.ParseData(bf.Bytes())
	if err != nil {
		return harness.Violation("%s: saved profile unparseable: %v", ctx, err)
	}
	if a, b := snapSaved(p), snapSaved(q); a != b {
		return harness.Violation("%s: the saved profile differs from the input in samples, values, labels, stack depth, addresses or mapping ranges\nbefore:\n%s\nafter:\n%s", ctx, a, b)
	}
	if e := mon.Valid(q); e != nil {
		return harness.Violation("%s: saved profile invalid: %v", ctx, e)
	}
	force := strings.Contains(mode, "force") || strings.Contains(mode, "demangle=full") || strings.Contains(mode, "demangle=none") || strings.Contains(mode, "demangle=templates")
	byID := map[uint64]*profile.Location{}
	for _, l := range q.Location {
		byID[l.ID] = l
	}
	if !force {
		localOnly := strings.Contains(mode, "local") && !strings.Contains(mode, "remote")
		for _, l := range p.Location {
			if m := l.Mapping; m != nil && (m.HasFunctions || (localOnly && (m.HasFilenames || m.HasLineNumbers))) {
				if g := byID[l.ID]; g == nil || lineSig(g) != lineSig(l) {
					return harness.Violation("%s: location %d belongs to a mapping that already carried symbols (has_functions, or for local-only modes has_filenames / has_line_numbers) and force was not requested, but its lines changed from %s to %s", ctx, l.ID, lineSig(l), lineSig(g))
				}
			}
		}
	}
	fnBefore := map[uint64]string{}
	for _, f := range p.Function {
		fnBefore[f.ID] = f.Name
	}
	for _, f := range q.Function {
		if old, ok := fnBefore[f.ID]; ok && old != "" && f.Name == "" {
			return harness.Violation("%s: function %d name %q was replaced by an empty name", ctx, f.ID, old)
		}
	}
	return res
}

func init() {
	harness.Register(&harness.Check{
		ID:    "C12",
		Level: "fault_enumeration",
		Rule: "partly symbolized profiles (sparse and colliding function ids incl. id == len+1, several mappings incl. fake/vdso/http ones and two mappings reported at the same address range, unmapped locations whose address equals a mapped one, addresses at mapping edges, folded locations) x 16 mode strings (local, fastlocal, remote, none, force, demangle=*, combinations, unknown) x scripted ObjTool and symbolz endpoint answering deterministically from a seed: open failure, wrong/equal build id, empty/error/1-3 inline frames with hostile names, HTTP 500, empty, garbage, partial answers, extra addresses, overflowing addresses, adjusted source offsets; then the same run repeated with a failure injected at EVERY call index 1..N of the scripted sequence. " +
			"part driver: the same profiles, modes and scripted tools through the real driver (pprof -symbolize=<mode> -proto <source>, optional failure at a random call index): the saved profile is compared with the input by the same rules (mapping file path and build id excepted, which the driver fills in from the binaries it opens). oracle: snapshot frame condition (samples, values, labels, stack depth and order, location addresses, mapping ranges unchanged), independent validity + unique ids, lines of mappings that already carry symbols (has_functions; for local-only modes also has_filenames / has_line_numbers) untouched unless force, no non-empty name becomes empty; in remote-only modes every request to the symbol service (observed at the transport) lists exactly the addresses of one mapping's line-less locations. non-trivial = the plug-ins were called at least once; distinct = (mode, scripted sequence)",
		Assumptions:   []string{"function ids below 2^62 (new ids are allocated above the largest one)", "fail-at-call-k is exhaustive over the calls of each scripted sequence; the sequences themselves are sampled"},
		Parts:         []harness.Part{{Name: "symbolize", Quick: 6000, Thor: 300000, Run: run}, {Name: "driver", Quick: 1500, Thor: 60000, Run: runDriver}},
		MinNonTrivial: func(string) int { return 50 },
		Finish: func(tier string, st map[string]int64) string {
			if st["fault_points"] < 1000 {
				return fmt.Sprintf("only %d fault points enumerated", st["fault_points"])
			}
			return ""
		},
	})
}

// addrSet reduces a symbol request ("a+b+c") to the set of addresses it asks about: in which order
// and how often an address is listed is the client's business.
func addrSet(body string) string {
	seen := map[string]bool{}
	var out []string
	for _, t := range strings.Split(body, "+") {
		if !seen[t] {
			seen[t] = true
			out = append(out, t)
		}
	}
	sort.Strings(out)
	return strings.Join(out, "+")
}
