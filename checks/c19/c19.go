// Package c19 monitors saved view configurations: faithful round trips, isolation between named
// configurations, atomicity of the settings file under write failures and kills, and
// linearizability of concurrent save/delete requests.
package c19

import (
	"bytes"
	"encoding/json"
	"fmt"
	"html"
	"math/rand"
	"net/url"
	"os"
	"os/exec"
	"path/filepath"
	"regexp"
	"runtime"
	"sort"
	"strconv"
	"strings"
	"sync"
	"sync/atomic"
	"syscall"
	"time"

	"github.com/anishathalye/porcupine"
	"github.com/google/pprof/internal/driver"
	"github.com/google/pprof/profile"
	"github.com/google/pprof/verif/internal/drv"
	"github.com/google/pprof/verif/internal/harness"
)

func smallProfile() *profile.Profile {
	p := &profile.Profile{SampleType: []*profile.ValueType{{Type: "samples", Unit: "count"}, {Type: "cpu", Unit: "nanoseconds"}}, PeriodType: &profile.ValueType{Type: "cpu", Unit: "nanoseconds"}, Period: 1}
	m := &profile.Mapping{ID: 1, Start: 0x1000, Limit: 0x9000, File: "/bin/prog"}
	p.Mapping = []*profile.Mapping{m}
	for i := 0; i < 4; i++ {
		p.Function = append(p.Function, &profile.Function{ID: uint64(i + 1), Name: []string{"main", "foo", "bar", "a"}[i], SystemName: "s", Filename: "x.go"})
		p.Location = append(p.Location, &profile.Location{ID: uint64(i + 1), Mapping: m, Address: 0x1000 + uint64(i)*16, Line: []profile.Line{{Function: p.Function[i], Line: int64(i + 1)}}})
	}
	for i := 0; i < 5; i++ {
		s := &profile.Sample{Value: []int64{int64(i + 1), int64(100 * (i + 1))}, Label: map[string][]string{"k": {fmt.Sprint("v", i%2)}}, NumLabel: map[string][]int64{"bytes": {int64(16 << uint(i))}}}
		for j := 0; j <= i%4; j++ {
			s.Location = append(s.Location, p.Location[(i+j)%4])
		}
		p.Sample = append(p.Sample, s)
	}
	return p
}

var paramPool = map[string][]string{
	"f": {"foo", "a|b", "x y", "operator new ", " const$", "\tkey", " ", "é&=", "main", `main\..+Handler`, "a+b", "x%41", "a;b", "#x", "q?", "a&h=b", "50%", "+"}, "i": {"bar", "b+", "x&f=y", "false"}, "h": {"hid", "h+i", "false", "true"}, "s": {"sh|main|foo", "s+|main|foo"}, "sf": {"foo", "fo+"}, "tf": {"k=v0", "true"}, "ti": {"1kb:"}, "ts": {"k"}, "th": {"b"},
	"n": {"7", "0", "3"}, "nf": {"0.25", "0", "0.0123456789", "0.333333333333", "1e-09"}, "ef": {"0.5", "0.000123456789"}, "trim": {"f", "t"}, "calltree": {"t"}, "rel": {"t"}, "unit": {"ms", "minimum"}, "compact": {"t"},
	"mean": {"t"}, "norm": {"t"}, "sort": {"cum", "flat"}, "g": {"lines", "files", "functions"}, "noinlines": {"t"}, "showcolumns": {"t"}, "dropneg": {"t"}, "intel": {"t"}, "prunefrom": {"pf"},
	"tagroot": {"k"}, "tagleaf": {"bytes"},
}
// boolParams are the yes/no options among the URL parameters; their values are compared by
// meaning (pprof reads t, true, 1, yes, y and f, false, 0, no, n alike), all others literally.
var boolParams = map[string]bool{"trim": true, "calltree": true, "rel": true, "compact": true, "mean": true, "norm": true, "noinlines": true, "showcolumns": true, "dropneg": true, "intel": true}

func sameParam(k, a, b string) bool {
	if a == b {
		return true
	}
	if !boolParams[k] {
		return false
	}
	val := func(v string) string {
		switch strings.ToLower(v) {
		case "t", "true", "1", "yes", "y":
			return "true"
		case "f", "false", "0", "no", "n":
			return "false"
		}
		return "?" + v
	}
	return val(a) == val(b)
}

var paramDefaults = map[string]string{"n": "-1", "nf": "0.005", "ef": "0.001", "trim": "t", "unit": "minimum", "sort": "flat"}

func paramKeys() []string {
	var keys []string
	for k := range paramPool {
		keys = append(keys, k)
	}
	sort.Strings(keys)
	return keys
}

var menuRx = regexp.MustCompile(`(?s)<a href="([^"]*)">\s*(?:<span class="menu-check-mark">✓</span>)?\s*([^<\s][^<]*?)\s*(?:<span|</a>)`)

func menuOf(page string) map[string]url.Values {
	out := map[string]url.Values{}
	for _, m := range menuRx.FindAllStringSubmatch(page, -1) {
		u, err := url.Parse(html.UnescapeString(m[1]))
		if err != nil {
			continue
		}
		out[html.UnescapeString(strings.TrimSpace(m[2]))] = u.Query()
	}
	return out
}

func settingsPath(dir string) string { return filepath.Join(dir, "config", "pprof", "settings.json") }

type rawSettings struct {
	Configs []json.RawMessage `json:"configs"`
}

func readEntries(path string) (map[string]string, []string, error) {
	b, err := os.ReadFile(path)
	if err != nil {
		if os.IsNotExist(err) {
			return map[string]string{}, nil, nil
		}
		return nil, nil, err
	}
	var rs rawSettings
	if err := json.Unmarshal(b, &rs); err != nil {
		return nil, nil, fmt.Errorf("settings file is not valid JSON: %v: %q", err, harness.Trunc(string(b), 300))
	}
	out := map[string]string{}
	var order []string
	for _, raw := range rs.Configs {
		var n struct {
			Name string `json:"name"`
		}
		json.Unmarshal(raw, &n)
		out[n.Name] = string(raw)
		order = append(order, n.Name)
	}
	return out, order, nil
}

var topArgRx = regexp.MustCompile(`(?s)makeTopTable\((.*?)\);\s*\n`)

func topArgs(page string) string {
	ms := topArgRx.FindAllStringSubmatch(page, -1)
	if len(ms) == 0 {
		return "no makeTopTable call"
	}
	return ms[len(ms)-1][1]
}

func runRoundTrip(c *harness.Ctx) harness.Result {
	r := c.Rng
	drv.IsolateEnv(c.Tmp)
	path := settingsPath(c.Tmp)
	sessN := ""
	ints := map[string]int{}
	_ = ints
	strs := map[string]string{}
	if r.Intn(3) == 0 {
		strs["focus"] = "main|foo" // session config differs from the defaults
		sessN = "main|foo"
	}
	if r.Intn(5) == 0 {
		// the settings file is a relative symbolic link into another directory (dotfile managers
		// do that); pprof's working directory is yet another one
		real := filepath.Join(c.Tmp, "dotfiles", "pprof")
		os.MkdirAll(real, 0o755)
		os.MkdirAll(filepath.Dir(path), 0o755)
		os.WriteFile(filepath.Join(real, "settings.json"), []byte("{}"), 0o644)
		os.Symlink("../../dotfiles/pprof/settings.json", path)
		wd := filepath.Join(c.Tmp, "elsewhere")
		os.MkdirAll(wd, 0o755)
		if old, err := os.Getwd(); err == nil {
			defer os.Chdir(old)
		}
		os.Chdir(wd)
		c.Stat("symlinked_settings", 1)
	}
	web, err := drv.StartWeb(&drv.MapFetcher{Profiles: map[string]*profile.Profile{"p": smallProfile()}}, []string{"p"}, nil, strs, nil)
	if err != nil {
		return harness.Result{Verdict: harness.Inconclusive, Detail: err.Error()}
	}
	defer web.Close()
	keys := paramKeys()
	model := map[string]url.Values{}
	var order []string
	names := []string{"cfg0", "cfg1", "cfg 2", "çfg", "Default"}
	res := harness.Result{NonTrivial: true, Sig: fmt.Sprint("rt", c.Index)}
	var log []string
	for step, n := 0, 4+r.Intn(6); step < n; step++ {
		before, _, err := readEntries(path)
		if err != nil {
			return harness.Violation("%v", err)
		}
		name := names[r.Intn(len(names))]
		kind := "save"
		if r.Intn(4) == 0 {
			kind = "delete"
		}
		var q url.Values
		var code int
		var body string
		switch kind {
		case "save":
			q = url.Values{}
			for _, k := range keys {
				switch r.Intn(8) {
				case 0, 1, 2:
					q.Set(k, paramPool[k][r.Intn(len(paramPool[k]))])
				case 3:
					if r.Intn(3) == 0 {
						q.Set(k, "") // present but empty: the option is left as it is in the session
					}
				}
			}
			bad := r.Intn(8) == 0
			if bad {
				q.Set("n", "notanumber")
			}
			q.Set("config", name)
			code, body, _ = web.Get("/saveconfig?" + q.Encode())
			log = append(log, fmt.Sprintf("save %s %s -> %d", name, q.Encode(), code))
			c.Stat("saves", 1)
			if bad {
				if code == 200 {
					return harness.Violation("saving a configuration with an invalid value succeeded: %s", q.Encode())
				}
				after, _, _ := readEntries(path)
				if fmt.Sprint(after) != fmt.Sprint(before) {
					return harness.Violation("a rejected save changed the settings file: %s", q.Encode())
				}
				continue
			}
			if code != 200 {
				res.Verdict, res.Detail = harness.Violated, fmt.Sprintf("saving a valid configuration failed: %d %s\n%s", code, body, strings.Join(log, "\n"))
				return res
			}
			q.Del("config")
			if _, ok := model[name]; !ok {
				order = append(order, name)
			}
			model[name] = q
		case "delete":
			code, body, _ = web.Get("/deleteconfig?config=" + url.QueryEscape(name))
			log = append(log, fmt.Sprintf("delete %s -> %d", name, code))
			c.Stat("deletes", 1)
			_, had := model[name]
			if had != (code == 200) {
				res.Verdict, res.Detail = harness.Violated, fmt.Sprintf("deleting %q (exists=%v) returned %d %s\n%s", name, had, code, body, strings.Join(log, "\n"))
				return res
			}
			if had {
				delete(model, name)
				for i, o := range order {
					if o == name {
						order = append(order[:i], order[i+1:]...)
						break
					}
				}
			}
		}
		after, aorder, err := readEntries(path)
		if err != nil {
			return harness.Violation("%v\n%s", err, strings.Join(log, "\n"))
		}
		if fmt.Sprint(aorder) != fmt.Sprint(order) {
			res.Verdict, res.Detail = harness.Violated, fmt.Sprintf("settings file lists configurations %q, expected %q\n%s", aorder, order, strings.Join(log, "\n"))
			return res
		}
		for n, raw := range before {
			if n == name {
				continue
			}
			if after[n] != raw {
				res.Verdict, res.Detail = harness.Violated, fmt.Sprintf("%s of %q altered the stored configuration %q:\nbefore %s\nafter  %s", kind, name, n, raw, after[n])
				return res
			}
		}
		// menu: every stored configuration is restored with every saved option intact
		_, page, _ := web.Get("/top")
		menu := menuOf(page)
		for _, n := range order {
			got, ok := menu[n]
			if !ok {
				res.Verdict, res.Detail = harness.Violated, fmt.Sprintf("configuration %q is stored but missing from the Config menu\n%s", n, strings.Join(log, "\n"))
				return res
			}
			c.Stat("menu_entries_checked", 1)
			for _, k := range keys {
				want := model[n].Get(k)
				if k == "f" && want == "" {
					want = sessN // unset options come from the session configuration
				}
				if k == "g" && want == "" {
					want = "functions" // the harness starts every session with -functions
				}
				if want == paramDefaults[k] {
					want = ""
				}
				if !sameParam(k, got.Get(k), want) {
					res.Verdict, res.Detail = harness.Violated, fmt.Sprintf("configuration %q was saved with %s=%q but its Config-menu URL has %s=%q (menu URL %s)\n%s", n, k, model[n].Get(k), k, got.Get(k), got.Encode(), strings.Join(log, "\n"))
					return res
				}
			}
		}
	}
	// behaviour: a request with the menu URL answers like a request with the original parameters
	if len(order) > 0 {
		n := order[r.Intn(len(order))]
		_, page, _ := web.Get("/top")
		mu := menuOf(page)[n]
		_, a, _ := web.Get("/top?" + mu.Encode())
		_, b, _ := web.Get("/top?" + model[n].Encode())
		c.Stat("behaviour_comparisons", 1)
		if topArgs(a) != topArgs(b) {
			res.Verdict, res.Detail = harness.Violated, fmt.Sprintf("configuration %q: /top with its menu URL (%s) differs from /top with the parameters it was saved with (%s)\n%s\nvs\n%s", n, mu.Encode(), model[n].Encode(), harness.Trunc(topArgs(a), 600), harness.Trunc(topArgs(b), 600))
			return res
		}
	}
	res.Sample = map[string]any{"operations": log}
	return res
}

// ---- fault injection children ------------------------------------------------------------------

type faultSpec struct {
	Dir     string
	Old     []op // operations that build the previous contents (run without faults)
	Op      op   // the operation under fault
	LimitAt int  // RLIMIT_FSIZE in bytes (-1 = none)
	Marker  bool // touch marker files around the operation (for the strace pass)
	Linked  bool // the settings file has a second hard link (a backup tool's snapshot) when Op runs
	Follow  *op  // applied in the same process after Op, without any fault; the settings file as it was in between is copied to <Dir>/between
}

type op struct {
	Kind, Name, Query string
}

func apply(path string, o op) error {
	switch o.Kind {
	case "save":
		u, _ := url.Parse("/saveconfig?config=" + url.QueryEscape(o.Name) + "&" + o.Query)
		return driver.VerifSetConfig(path, *u)
	default:
		return driver.VerifRemoveConfig(path, o.Name)
	}
}

// faultChild builds the old contents, then applies one operation under the fault and reports.
func faultChild(args []string) int {
	runtime.LockOSThread()
	var spec faultSpec
	if err := json.Unmarshal([]byte(args[0]), &spec); err != nil {
		return 2
	}
	drv.IsolateEnv(spec.Dir)
	path := settingsPath(spec.Dir)
	for _, o := range spec.Old {
		if err := apply(path, o); err != nil {
			fmt.Printf("{\"setup_error\":%q}\n", err.Error())
			return 0
		}
	}
	if spec.Linked {
		os.Link(path, path+".snapshot")
	}
	if spec.LimitAt >= 0 {
		// SIGXFSZ is ignored by Go programs that do not ask for it; the write then fails with EFBIG
		var old syscall.Rlimit
		syscall.Getrlimit(syscall.RLIMIT_FSIZE, &old)
		syscall.Setrlimit(syscall.RLIMIT_FSIZE, &syscall.Rlimit{Cur: uint64(spec.LimitAt), Max: old.Max})
		defer syscall.Setrlimit(syscall.RLIMIT_FSIZE, &old)
	}
	if spec.Marker {
		os.Mkdir(filepath.Join(spec.Dir, "marker-begin"), 0o755)
	}
	err := apply(path, spec.Op)
	if spec.Marker {
		os.Mkdir(filepath.Join(spec.Dir, "marker-end"), 0o755)
	}
	msg := ""
	if err != nil {
		msg = err.Error()
	}
	rep := map[string]string{"error": msg}
	if spec.Follow != nil {
		if spec.LimitAt >= 0 {
			var cur syscall.Rlimit
			syscall.Getrlimit(syscall.RLIMIT_FSIZE, &cur)
			syscall.Setrlimit(syscall.RLIMIT_FSIZE, &syscall.Rlimit{Cur: cur.Max, Max: cur.Max})
		}
		os.WriteFile(filepath.Join(spec.Dir, "between"), []byte(contents(spec.Dir)), 0o644)
		rep["follow_error"] = ""
		if err := apply(path, *spec.Follow); err != nil {
			rep["follow_error"] = err.Error()
		}
	}
	b, _ := json.Marshal(rep)
	os.Stdout.Write(append(b, '\n'))
	return 0
}

func runChild(spec faultSpec, wrap []string) (string, string, error) {
	b, _ := json.Marshal(spec)
	argv := append(append([]string{}, wrap...), harness.Self(), "child", "c19fault", string(b))
	cmd := exec.Command(argv[0], argv[1:]...)
	var out, errb bytes.Buffer
	cmd.Stdout, cmd.Stderr = &out, &errb
	err := cmd.Run()
	return out.String(), errb.String(), err
}

func genOps(r *rand.Rand) ([]op, op) {
	var old []op
	for i, n := 0, r.Intn(4); i < n; i++ {
		old = append(old, op{"save", fmt.Sprint("c", r.Intn(3)), "f=" + strings.Repeat("x", 1+r.Intn(30)) + "&n=" + fmt.Sprint(r.Intn(9))})
	}
	o := op{"save", fmt.Sprint("c", r.Intn(3)), "f=" + strings.Repeat("y", 1+r.Intn(40)) + "&i=zz&g=lines"}
	if len(old) > 0 && r.Intn(3) == 0 {
		o = op{"delete", old[r.Intn(len(old))].Name, ""}
	}
	return old, o
}

func contents(dir string) string {
	b, err := os.ReadFile(settingsPath(dir))
	if err != nil {
		return "<absent>"
	}
	return string(b)
}

// reference contents before and after the operation, computed without faults
func reference(c *harness.Ctx, old []op, o op) (string, string, error) {
	d1, d2 := filepath.Join(c.Tmp, "ref-old"), filepath.Join(c.Tmp, "ref-new")
	os.MkdirAll(d1, 0o755)
	os.MkdirAll(d2, 0o755)
	if _, _, err := runChild(faultSpec{Dir: d1, Old: old[:max(0, len(old)-1)], Op: lastOr(old), LimitAt: -1}, nil); err != nil {
		return "", "", err
	}
	if _, _, err := runChild(faultSpec{Dir: d2, Old: old, Op: o, LimitAt: -1}, nil); err != nil {
		return "", "", err
	}
	return contents(d1), contents(d2), nil
}

// followUp is the operation applied, without any fault, after the faulted one: an interrupted or
// failed save must not affect what later saves and deletes produce. It yields a document shorter
// than the ones before it whenever it can.
func followUp(old []op) op {
	if len(old) > 0 {
		return op{"delete", old[0].Name, ""}
	}
	return op{"save", "c0", "f=z"}
}

type followRef struct {
	afterOld, afterNew string // contents after the follow-up when the faulted operation did not / did take effect
	errOld, errNew     bool
}

func childError(out string) bool {
	var rep struct {
		Error string `json:"error"`
	}
	json.Unmarshal([]byte(strings.TrimSpace(out)), &rep)
	return rep.Error != ""
}

func followReference(c *harness.Ctx, old []op, o, f op) (followRef, error) {
	var fr followRef
	d1, d2 := filepath.Join(c.Tmp, "fref-old"), filepath.Join(c.Tmp, "fref-new")
	os.MkdirAll(d1, 0o755)
	os.MkdirAll(d2, 0o755)
	out, _, err := runChild(faultSpec{Dir: d1, Old: old, Op: f, LimitAt: -1}, nil)
	if err != nil {
		return fr, err
	}
	fr.afterOld, fr.errOld = contents(d1), childError(out)
	out, _, err = runChild(faultSpec{Dir: d2, Old: append(append([]op{}, old...), o), Op: f, LimitAt: -1}, nil)
	if err != nil {
		return fr, err
	}
	fr.afterNew, fr.errNew = contents(d2), childError(out)
	return fr, nil
}

// checkFollowUp applies f in dir (whose settings file currently reads got) and compares with the reference.
func checkFollowUp(dir, got, oldC, newC string, fr followRef, f op) string {
	out, _, err := runChild(faultSpec{Dir: dir, Op: f, LimitAt: -1}, nil)
	if err != nil {
		return fmt.Sprintf("the follow-up %s of %q crashed: %v", f.Kind, f.Name, err)
	}
	after, failed := contents(dir), childError(out)
	okOld := got == oldC && after == fr.afterOld && failed == fr.errOld
	okNew := got == newC && after == fr.afterNew && failed == fr.errNew
	if okOld || okNew {
		return ""
	}
	return fmt.Sprintf("the next operation (%s of %q, no fault) on the same settings file gave\n got: %q (error reported: %v)\nwant: %q (error: %v) [or, had the faulted operation taken effect, %q (error: %v)]\nfile before it: %q", f.Kind, f.Name, after, failed, fr.afterOld, fr.errOld, fr.afterNew, fr.errNew, got)
}

func max(a, b int) int {
	if a > b {
		return a
	}
	return b
}

func lastOr(old []op) op {
	if len(old) == 0 {
		return op{"delete", "nosuch", ""}
	}
	return old[len(old)-1]
}

func runWriteFault(c *harness.Ctx) harness.Result {
	r := c.Rng
	old, o := genOps(r)
	oldC, newC, err := reference(c, old, o)
	if err != nil {
		return harness.Result{Verdict: harness.Inconclusive, Detail: "reference run: " + err.Error()}
	}
	res := harness.Result{NonTrivial: true, Sig: fmt.Sprint("wf", len(oldC), len(newC), c.Index), Sample: map[string]any{"old": oldC, "operation": o, "new": newC}}
	fop := followUp(old)
	fref, err := followReference(c, old, o, fop)
	if err != nil {
		return harness.Result{Verdict: harness.Inconclusive, Detail: "reference run: " + err.Error()}
	}
	// every byte position in thorough, a spread of positions in quick
	limit := len(newC) + 8
	var ks []int
	if c.Tier == "thorough" {
		for k := 0; k <= limit; k++ {
			ks = append(ks, k)
		}
	} else {
		ks = []int{0, 1, len(newC) / 2, len(newC) - 1, len(newC), len(newC) + 1, len(oldC), r.Intn(limit + 1), r.Intn(limit + 1), r.Intn(limit + 1)}
	}
	for ki, k := range ks {
		if k < 0 {
			continue
		}
		dir := filepath.Join(c.Tmp, fmt.Sprint("k", k, "-", ki))
		os.MkdirAll(dir, 0o755)
		// the follow-up runs in the same process for every other position (state kept in memory
		// by the failed operation would show there) and in a fresh process otherwise
		sameProc := ki%2 == 1
		fs := faultSpec{Dir: dir, Old: old, Op: o, LimitAt: k, Linked: ki%3 == 2}
		if sameProc {
			fs.Follow = &fop
		}
		out, errs, err := runChild(fs, nil)
		c.Stat("write_fault_positions", 1)
		if err != nil {
			// the child died (e.g. SIGXFSZ): allowed, but the file must still be old or new
			c.Stat("write_fault_child_died", 1)
		}
		var rep struct {
			Error       string  `json:"error"`
			SetupError  string  `json:"setup_error"`
			FollowError *string `json:"follow_error"`
		}
		json.Unmarshal([]byte(strings.TrimSpace(out)), &rep)
		if rep.SetupError != "" {
			return harness.Result{Verdict: harness.Inconclusive, Detail: "setup: " + rep.SetupError + errs}
		}
		got := contents(dir)
		after := ""
		if sameProc && rep.FollowError != nil {
			after = got
			bb, _ := os.ReadFile(filepath.Join(dir, "between"))
			got = string(bb)
		}
		switch got {
		case newC:
			c.Stat("write_fault_took_effect", 1)
		case oldC:
			c.Stat("write_fault_no_effect", 1)
			if err == nil && rep.Error == "" && oldC != newC {
				res.Verdict, res.Detail = harness.Violated, fmt.Sprintf("with the file size limited to %d bytes the %s of %q did not take effect but no error was reported", k, o.Kind, o.Name)
				return res
			}
		default:
			res.Verdict = harness.Violated
			res.Detail = fmt.Sprintf("a write failure after %d bytes (RLIMIT_FSIZE) during %s of %q left the settings file in a state that is neither the previous nor the new contents:\n got: %q\n old: %q\n new: %q\n reported error: %q", k, o.Kind, o.Name, got, oldC, newC, rep.Error)
			return res
		}
		if sameProc && rep.FollowError != nil {
			failed := *rep.FollowError != ""
			okOld := got == oldC && after == fref.afterOld && failed == fref.errOld
			okNew := got == newC && after == fref.afterNew && failed == fref.errNew
			if !okOld && !okNew {
				res.Verdict = harness.Violated
				res.Detail = fmt.Sprintf("after a write failure at byte %d (RLIMIT_FSIZE) during %s of %q, the next operation of the same process (%s of %q, no fault) gave\n got: %q (error reported: %v)\nwant: %q (error: %v) [or, had the faulted operation taken effect, %q (error: %v)]\nfile before it: %q", k, o.Kind, o.Name, fop.Kind, fop.Name, after, failed, fref.afterOld, fref.errOld, fref.afterNew, fref.errNew, got)
				return res
			}
			c.Stat("follow_up_same_process", 1)
		} else if sameProc {
			c.Stat("follow_up_skipped_child_died", 1)
		} else if msg := checkFollowUp(dir, got, oldC, newC, fref, fop); msg != "" {
			res.Verdict, res.Detail = harness.Violated, fmt.Sprintf("after a write failure at byte %d (RLIMIT_FSIZE) during %s of %q, %s", k, o.Kind, o.Name, msg)
			return res
		}
		c.Stat("follow_up_operations", 1)
		os.RemoveAll(dir)
	}
	return res
}

var traceLineRx = regexp.MustCompile(`^(\d+)\s+([a-z0-9_]+)\((.*)$`)

func runKill(c *harness.Ctx) harness.Result {
	r := c.Rng
	if _, err := exec.LookPath("strace"); err != nil {
		return harness.Result{Verdict: harness.Inconclusive, Detail: "strace not available"}
	}
	old, o := genOps(r)
	oldC, newC, err := reference(c, old, o)
	if err != nil {
		return harness.Result{Verdict: harness.Inconclusive, Detail: "reference run: " + err.Error()}
	}
	res := harness.Result{NonTrivial: true, Sig: fmt.Sprint("kill", len(oldC), len(newC), c.Index), Sample: map[string]any{"old": oldC, "operation": o, "new": newC}}
	fop := followUp(old)
	fref, err := followReference(c, old, o, fop)
	if err != nil {
		return harness.Result{Verdict: harness.Inconclusive, Detail: "reference run: " + err.Error()}
	}
	calls := "openat,open,creat,write,pwrite64,rename,renameat,renameat2,fsync,fdatasync,fchmod,fchmodat,close,unlink,unlinkat,ftruncate,truncate,mkdir,mkdirat,link,linkat"
	// tracing pass: which syscalls does the operation make (in the locked main thread)?
	tdir := filepath.Join(c.Tmp, "trace")
	os.MkdirAll(tdir, 0o755)
	tfile := filepath.Join(c.Tmp, "trace.txt")
	linked := c.Index%2 == 1
	if _, errs, err := runChild(faultSpec{Dir: tdir, Old: old, Op: o, LimitAt: -1, Marker: true, Linked: linked}, []string{"strace", "-f", "-o", tfile, "-e", "trace=" + calls}); err != nil {
		return harness.Result{Verdict: harness.Inconclusive, Detail: fmt.Sprintf("strace tracing pass failed: %v %s", err, harness.Trunc(errs, 500))}
	}
	tb, _ := os.ReadFile(tfile)
	type pt struct {
		name string
		ord  int
		line string
	}
	var points []pt
	counts := map[string]map[string]int{} // tid -> syscall -> count
	in := false
	for _, l := range strings.Split(string(tb), "\n") {
		m := traceLineRx.FindStringSubmatch(l)
		if m == nil {
			continue
		}
		tid, name := m[1], m[2]
		if counts[tid] == nil {
			counts[tid] = map[string]int{}
		}
		counts[tid][name]++
		if strings.Contains(l, "marker-begin") {
			in = true
			continue
		}
		if strings.Contains(l, "marker-end") {
			in = false
			continue
		}
		if in && (strings.Contains(l, "settings.json") || name == "write" || name == "fsync" || name == "fchmod" || name == "close" || name == "pwrite64" || name == "ftruncate") {
			points = append(points, pt{name, counts[tid][name], harness.Trunc(l, 160)})
		}
	}
	if len(points) == 0 {
		return harness.Result{Verdict: harness.Inconclusive, Detail: "tracing pass found no syscalls touching the settings file:\n" + harness.Trunc(string(tb), 1500)}
	}
	for _, p := range points {
		dir := filepath.Join(c.Tmp, fmt.Sprintf("kill-%s-%d", p.name, p.ord))
		os.MkdirAll(dir, 0o755)
		_, _, _ = runChild(faultSpec{Dir: dir, Old: old, Op: o, LimitAt: -1, Marker: true, Linked: linked}, []string{"strace", "-f", "-o", filepath.Join(dir, "trace.txt"), "-e", "trace=" + calls, "-e", fmt.Sprintf("inject=%s:signal=SIGKILL:when=%d", p.name, p.ord)})
		c.Stat("kill_points", 1)
		c.Seen(p.name)
		if _, err := os.Stat(filepath.Join(dir, "marker-end")); err == nil {
			c.Stat("kill_missed", 1) // the process survived: the injection hit another thread's count
		} else {
			c.Stat("killed", 1)
		}
		got := contents(dir)
		if got != oldC && got != newC {
			res.Verdict = harness.Violated
			res.Detail = fmt.Sprintf("pprof killed just before syscall #%d of kind %s (%s) during %s of %q left the settings file neither old nor new:\n got: %q\n old: %q\n new: %q", p.ord, p.name, p.line, o.Kind, o.Name, got, oldC, newC)
			return res
		}
		// the crash must not matter to the next (fault-free) operation either
		if msg := checkFollowUp(dir, got, oldC, newC, fref, fop); msg != "" {
			res.Verdict, res.Detail = harness.Violated, fmt.Sprintf("after pprof was killed just before syscall #%d of kind %s (%s) during %s of %q, %s", p.ord, p.name, p.line, o.Kind, o.Name, msg)
			return res
		}
		c.Stat("follow_up_operations", 1)
		os.RemoveAll(dir)
		// the same point failing instead of the process dying: an open of the settings file (for
		// reading the previous contents, or of the new file) that returns an error
		if (p.name == "openat" || p.name == "open") && strings.Contains(p.line, "settings.json") {
			errno := []string{"EMFILE", "EACCES", "EIO", "ENFILE"}[(p.ord+c.Index)%4]
			edir := filepath.Join(c.Tmp, fmt.Sprintf("err-%s-%d", p.name, p.ord))
			os.MkdirAll(edir, 0o755)
			out, _, _ := runChild(faultSpec{Dir: edir, Old: old, Op: o, LimitAt: -1, Marker: true, Linked: linked}, []string{"strace", "-f", "-o", filepath.Join(edir, "trace.txt"), "-e", "trace=" + calls, "-e", fmt.Sprintf("inject=%s:error=%s:when=%d", p.name, errno, p.ord)})
			var rep struct {
				Error string `json:"error"`
			}
			json.Unmarshal([]byte(strings.TrimSpace(out)), &rep)
			c.Stat("open_error_points", 1)
			got := contents(edir)
			if got != oldC && got != newC {
				res.Verdict = harness.Violated
				res.Detail = fmt.Sprintf("with open call #%d (%s) failing with %s during %s of %q the settings file ended up neither old nor new (reported error: %q):\n got: %q\n old: %q\n new: %q", p.ord, p.line, errno, o.Kind, o.Name, rep.Error, got, oldC, newC)
				return res
			}
			if got == oldC && oldC != newC && rep.Error == "" {
				res.Verdict = harness.Violated
				res.Detail = fmt.Sprintf("with open call #%d (%s) failing with %s the %s of %q did not take effect but no error was reported", p.ord, p.line, errno, o.Kind, o.Name)
				return res
			}
			if msg := checkFollowUp(edir, got, oldC, newC, fref, fop); msg != "" {
				res.Verdict, res.Detail = harness.Violated, fmt.Sprintf("after open call #%d (%s) failed with %s during %s of %q, %s", p.ord, p.line, errno, o.Kind, o.Name, msg)
				return res
			}
			os.RemoveAll(edir)
		}
	}
	return res
}

// ---- concurrency: linearizability of save / delete / list ---------------------------------------

type sop struct {
	Kind, Name, Val string
}
type sres struct {
	OK   bool
	List string
}

var pauseOnce sync.Once

func runConcurrent(c *harness.Ctx) harness.Result {
	r := c.Rng
	drv.IsolateEnv(c.Tmp)
	path := settingsPath(c.Tmp)
	if c.Index%2 == 1 {
		// the settings file is a symbolic link (dotfile managers do that) and already holds a
		// number of saved configurations, so that it takes a moment to write
		real := filepath.Join(c.Tmp, "dotfiles")
		os.MkdirAll(real, 0o755)
		os.MkdirAll(filepath.Dir(path), 0o755)
		var sb strings.Builder
		sb.WriteString(`{"configs":[`)
		for i := 0; i < 60; i++ {
			if i > 0 {
				sb.WriteString(",")
			}
			fmt.Fprintf(&sb, `{"name":"keep%02d","focus":"%s","nodecount":%d}`, i, strings.Repeat("f", 200), i+1)
		}
		sb.WriteString(`]}`)
		os.WriteFile(filepath.Join(real, "settings.json"), []byte(sb.String()), 0o644)
		os.Symlink(filepath.Join(real, "settings.json"), path)
		c.Stat("concurrent_symlinked_settings", 1)
	}
	web, err := drv.StartWeb(&drv.MapFetcher{Profiles: map[string]*profile.Profile{"p": smallProfile()}}, []string{"p"}, nil, nil, nil)
	if err != nil {
		return harness.Result{Verdict: harness.Inconclusive, Detail: err.Error()}
	}
	defer web.Close()
	// widen the read-modify-write window: yield between reading and writing the settings
	driver.VerifSetPause(func(string) {
		for i := 0; i < 3; i++ {
			runtime.Gosched()
		}
		time.Sleep(time.Duration(50+rand.Intn(200)) * time.Microsecond)
	})
	defer driver.VerifSetPause(nil)
	nClients := 2 + r.Intn(5)
	var clock int64
	var mu sync.Mutex
	var ops []porcupine.Operation
	var wg sync.WaitGroup
	torn := int64(0)
	for cl := 0; cl < nClients; cl++ {
		wg.Add(1)
		seed := r.Int63()
		go func(cl int, seed int64) {
			defer wg.Done()
			rr := rand.New(rand.NewSource(seed))
			for i := 0; i < 5; i++ {
				name := fmt.Sprintf("n%d", rr.Intn(2))
				var in sop
				var out sres
				call := atomic.AddInt64(&clock, 1)
				switch rr.Intn(3) {
				case 0:
					in = sop{"save", name, fmt.Sprintf("c%dv%d", cl, i)} // unique value per write
					code, _, _ := web.Get("/saveconfig?config=" + name + "&f=" + in.Val)
					out.OK = code == 200
				case 1:
					in = sop{"delete", name, ""}
					code, _, _ := web.Get("/deleteconfig?config=" + name)
					out.OK = code == 200
				default:
					in = sop{Kind: "list"}
					b, err := os.ReadFile(path)
					m := map[string]string{}
					out.OK = true
					if err == nil {
						var js struct {
							Configs []struct {
								Name  string `json:"name"`
								Focus string `json:"focus"`
							} `json:"configs"`
						}
						if json.Unmarshal(b, &js) != nil {
							out.OK = false
							atomic.AddInt64(&torn, 1)
						}
						for _, cfg := range js.Configs {
							if !strings.HasPrefix(cfg.Name, "keep") { // configurations that were there before
								m[cfg.Name] = cfg.Focus
							}
						}
					}
					out.List = canon(m)
				}
				ret := atomic.AddInt64(&clock, 1)
				mu.Lock()
				ops = append(ops, porcupine.Operation{ClientId: cl, Input: in, Call: call, Output: out, Return: ret})
				mu.Unlock()
			}
		}(cl, seed)
	}
	wg.Wait()
	overlaps := 0
	for i := range ops {
		for j := i + 1; j < len(ops); j++ {
			if ops[i].Call < ops[j].Return && ops[j].Call < ops[i].Return {
				overlaps++
			}
		}
	}
	c.Stat("histories", 1)
	c.Stat("operations", int64(len(ops)))
	c.Stat("overlapping_pairs", int64(overlaps))
	res := harness.Result{NonTrivial: overlaps > 0, Sig: fmt.Sprint("conc", nClients, c.Index), Sample: map[string]any{"clients": nClients, "operations": len(ops), "overlapping_pairs": overlaps}}
	if torn > 0 {
		res.Verdict, res.Detail = harness.Violated, fmt.Sprintf("%d reads of the settings file during concurrent requests saw invalid JSON (torn write)", torn)
		return res
	}
	model := porcupine.Model{
		Init: func() interface{} { return "" },
		Step: func(st, in, out interface{}) (bool, interface{}) {
			m := map[string]string{}
			if s := st.(string); s != "" {
				json.Unmarshal([]byte(s), &m)
			}
			i, o := in.(sop), out.(sres)
			switch i.Kind {
			case "save":
				if !o.OK {
					return false, st
				}
				m[i.Name] = i.Val
			case "delete":
				_, has := m[i.Name]
				if has != o.OK {
					return false, st
				}
				delete(m, i.Name)
			case "list":
				if !o.OK || canon(m) != o.List {
					return false, st
				}
			}
			return true, canon(m)
		},
		DescribeOperation: func(in, out interface{}) string { return fmt.Sprintf("%+v -> %+v", in, out) },
	}
	switch porcupine.CheckOperationsTimeout(model, ops, 30*time.Second) {
	case porcupine.Ok:
	case porcupine.Unknown:
		return harness.Result{Verdict: harness.Inconclusive, Detail: "linearizability checker timed out"}
	default:
		sort.Slice(ops, func(i, j int) bool { return ops[i].Call < ops[j].Call })
		var sb strings.Builder
		for _, o := range ops {
			fmt.Fprintf(&sb, "client %d [%d,%d] %+v -> %+v\n", o.ClientId, o.Call, o.Return, o.Input, o.Output)
		}
		res.Verdict = harness.Violated
		res.Detail = fmt.Sprintf("history of %d concurrent save/delete/list operations by %d clients is not linearizable (no sequential order of the requests explains the results):\n%s", len(ops), nClients, sb.String())
	}
	return res
}

func canon(m map[string]string) string {
	b, _ := json.Marshal(m)
	return string(b)
}

var _ = strconv.Itoa

func init() {
	harness.Children["c19fault"] = faultChild
	harness.Register(&harness.Check{
		ID:          "C19",
		Level:       "fault_enumeration",
		CaseTimeout: 15 * time.Minute,
		Rule:        "part roundtrip: 4-9 save/delete operations per session over 5 configuration names and 28 URL parameters (valid values, default values, empty = unset, one invalid value), through the real /saveconfig and /deleteconfig handlers in a private XDG_CONFIG_HOME (every fifth session with settings.json being a relative symbolic link into another directory while pprof runs in a third one); after every operation: stored names and order, every other stored entry byte-identical, every stored configuration present in the Config menu with every saved parameter (modulo default elision; unset = session value), and /top with the menu URL equals /top with the original parameters. part writefault (fault enumeration): the operation runs in a child with RLIMIT_FSIZE = k for k at 10 positions around the old/new sizes (quick) or EVERY byte 0..len+8 (thorough); afterwards the file must equal the complete previous or the complete new contents and an operation without effect must report an error; then a fault-free follow-up operation (a delete or a short save, giving a shorter document) in the same directory must produce exactly what it produces without the earlier fault. part kill (fault enumeration): a tracing pass under strace lists every syscall of the operation that touches the settings file (and every write/fsync/fchmod/close/ftruncate); then one run per (syscall name, ordinal) with SIGKILL injected just before it; same outcome rule, same follow-up operation. part concurrent: 2-6 client goroutines issue 5 operations each (save with unique values, delete, list) while the pause hook between read and write yields; the recorded history (one atomic clock) is checked with porcupine against a sequential map model; unparseable reads count as torn. non-trivial = every case (concurrent: at least one really overlapping pair); distinct = case; distinct_observed = syscall kinds killed at",
		Assumptions: []string{"kill = SIGKILL on syscall entry (strace fault injection); power loss / page-cache loss is out of reach", "porcupine timeout 30 s => inconclusive", "stray temporary files are allowed after a fault"},
		Parts: []harness.Part{
			{Name: "roundtrip", Quick: 300, Thor: 20000, Run: runRoundTrip},
			{Name: "writefault", Quick: 24, Thor: 60, Run: runWriteFault},
			{Name: "kill", Quick: 6, Thor: 60, Run: runKill},
			{Name: "concurrent", Quick: 200, Thor: 10000, Run: runConcurrent},
		},
		MinNonTrivial: func(string) int { return 150 },
		Finish: func(tier string, st map[string]int64) string {
			if st["killed"] == 0 {
				return fmt.Sprintf("no kill point was exercised (kill_points=%d, missed=%d)", st["kill_points"], st["kill_missed"])
			}
			if st["overlapping_pairs"] == 0 {
				return "concurrent histories never overlapped"
			}
			if st["write_fault_no_effect"] == 0 || st["write_fault_took_effect"] == 0 {
				return "write faults never produced both outcomes"
			}
			return ""
		},
	})
}
