// Package c17 monitors the flame-graph stack index (report.Stacks and the JSON in /flamegraph).
package c17

import (
	"encoding/json"
	"fmt"
	"strings"

	"github.com/google/pprof/internal/report"
	"github.com/google/pprof/profile"
	"github.com/google/pprof/verif/checks/c04"
	"github.com/google/pprof/verif/internal/drv"
	"github.com/google/pprof/verif/internal/gen"
	"github.com/google/pprof/verif/internal/harness"
)

// neutral mirror of the JSON
type jSlot struct{ Stack, Pos int }
type jSource struct {
	FullName   string
	FileName   string
	UniqueName string
	Inlined    bool
	Display    []string
	Places     []jSlot
	Self       int64
}
type jStack struct {
	Value   int64
	Sources []int
}
type jSet struct {
	Total   int64
	Stacks  []jStack
	Sources []jSource
}

type expFrame struct {
	full, file string
	inlined    bool
	key        string
}

func lineInfo(s string, line, col int64) string {
	if col != 0 {
		return fmt.Sprint(s, ":", line, ":", col)
	}
	if line != 0 {
		return fmt.Sprint(s, ":", line)
	}
	return s
}

// expected frames of a sample of the (already aggregated) profile, caller first
func expFrames(s *profile.Sample) []expFrame {
	var out []expFrame
	for i := len(s.Location) - 1; i >= 0; i-- {
		l := s.Location[i]
		for j := len(l.Line) - 1; j >= 0; j-- {
			ln := l.Line[j]
			fn := ln.Function
			inl := j != len(l.Line)-1
			// what is shown is the cleaned-up file name (the working-directory prefix of remote
			// builds is dropped); what tells two frames apart is the name as recorded
			shown := strings.TrimPrefix(strings.TrimPrefix(fn.Filename, "/proc/self/cwd/./"), "/proc/self/cwd/")
			f := expFrame{file: shown, inlined: inl, key: fmt.Sprintf("%q|%q|%d|%d|%v", fn.Name, fn.Filename, ln.Line, ln.Column, inl)}
			if fn.Name != "" {
				f.full = lineInfo(fn.Name, ln.Line, ln.Column)
			} else {
				f.full = lineInfo(shown, ln.Line, ln.Column)
			}
			out = append(out, f)
		}
	}
	return out
}

// checkSet verifies the invariants of a stack set against the aggregated profile q.
func checkSet(ss *jSet, q *profile.Profile, index int) string {
	if len(ss.Stacks) != len(q.Sample) {
		return fmt.Sprintf("%d stacks for %d samples", len(ss.Stacks), len(q.Sample))
	}
	if len(ss.Sources) == 0 || ss.Sources[0].FullName != "root" {
		return "source 0 is not the synthetic root"
	}
	var sum, abs, wantSum int64
	self := make([]int64, len(ss.Sources))
	keyToSrc := map[string]int{}
	srcToKey := map[int]string{}
	for i, st := range ss.Stacks {
		v := q.Sample[i].Value[index]
		wantSum += v
		if st.Value != v {
			return fmt.Sprintf("stack %d has value %d, its sample has %d", i, st.Value, v)
		}
		sum += st.Value
		if v < 0 {
			abs -= v
		} else {
			abs += v
		}
		if len(st.Sources) == 0 || st.Sources[0] != 0 {
			return fmt.Sprintf("stack %d is not rooted at the synthetic root: %v", i, st.Sources)
		}
		for _, s := range st.Sources {
			if s < 0 || s >= len(ss.Sources) {
				return fmt.Sprintf("stack %d refers to source %d of %d", i, s, len(ss.Sources))
			}
		}
		want := expFrames(q.Sample[i])
		if len(st.Sources) != len(want)+1 {
			return fmt.Sprintf("stack %d has %d frames below the root, the sample has %d (inlined frames expanded)", i, len(st.Sources)-1, len(want))
		}
		for j, f := range want {
			si := st.Sources[j+1]
			src := ss.Sources[si]
			if si == 0 {
				return fmt.Sprintf("stack %d frame %d is the root", i, j)
			}
			if src.FullName != f.full || src.Inlined != f.inlined || src.FileName != f.file {
				return fmt.Sprintf("stack %d frame %d (caller first): source {%q file=%q inlined=%v}, sample frame is {%q file=%q inlined=%v}", i, j, src.FullName, src.FileName, src.Inlined, f.full, f.file, f.inlined)
			}
			if k, ok := srcToKey[si]; ok && k != f.key {
				return fmt.Sprintf("source %d stands for two different frames: %s and %s", si, k, f.key)
			}
			if s0, ok := keyToSrc[f.key]; ok && s0 != si {
				return fmt.Sprintf("frame %s is represented by two sources (%d and %d)", f.key, s0, si)
			}
			srcToKey[si], keyToSrc[f.key] = f.key, si
		}
		self[st.Sources[len(st.Sources)-1]] += st.Value
	}
	if sum != wantSum {
		return fmt.Sprintf("stack values sum to %d, signed total of the selected sample value is %d", sum, wantSum)
	}
	if ss.Total != abs {
		return fmt.Sprintf("Total %d, sum of absolute sample values is %d", ss.Total, abs)
	}
	for si, src := range ss.Sources {
		if src.Self != self[si] {
			return fmt.Sprintf("source %d (%q) Self=%d, the stacks it terminates sum to %d", si, src.FullName, src.Self, self[si])
		}
		if src.Display == nil || src.Places == nil {
			return fmt.Sprintf("source %d (%q) has a null array", si, src.FullName)
		}
		if len(src.Display) == 0 {
			return fmt.Sprintf("source %d (%q, file %q) has an empty Display list", si, src.FullName, src.FileName)
		}
		seen := map[int]bool{}
		for _, pl := range src.Places {
			if pl.Stack < 0 || pl.Stack >= len(ss.Stacks) {
				return fmt.Sprintf("source %d place refers to stack %d of %d", si, pl.Stack, len(ss.Stacks))
			}
			if seen[pl.Stack] {
				return fmt.Sprintf("source %d lists stack %d twice", si, pl.Stack)
			}
			seen[pl.Stack] = true
			st := ss.Stacks[pl.Stack]
			if pl.Pos < 0 || pl.Pos >= len(st.Sources) || st.Sources[pl.Pos] != si {
				return fmt.Sprintf("source %d place {stack %d pos %d} does not point at itself", si, pl.Stack, pl.Pos)
			}
			for k := 0; k < pl.Pos; k++ {
				if st.Sources[k] == si {
					return fmt.Sprintf("source %d place in stack %d is at %d, but its outermost occurrence is %d", si, pl.Stack, pl.Pos, k)
				}
			}
		}
		for i, st := range ss.Stacks {
			has := false
			for _, s := range st.Sources {
				if s == si {
					has = true
				}
			}
			if has != seen[i] {
				return fmt.Sprintf("source %d: stack %d contains it = %v, listed in Places = %v", si, i, has, seen[i])
			}
		}
	}
	return ""
}

func aggregateFor(q *profile.Profile, gran string, noinl, cols bool) error {
	inl := !noinl
	switch gran {
	case "functions":
		return q.Aggregate(inl, true, false, false, cols, false)
	case "filefunctions":
		return q.Aggregate(inl, true, true, false, cols, false)
	case "files":
		return q.Aggregate(inl, false, true, false, cols, false)
	case "lines":
		return q.Aggregate(inl, true, true, true, cols, false)
	case "addresses":
		if !inl {
			return q.Aggregate(inl, true, true, true, cols, true)
		}
	}
	return nil
}

// coarse: at a granularity without line numbers a frame carries neither a line nor a column
// (whatever showcolumns says), so the frames of one function are one source.
func coarse(q *profile.Profile, gran string) string {
	if gran != "functions" && gran != "filefunctions" && gran != "files" {
		return ""
	}
	for _, l := range q.Location {
		for _, ln := range l.Line {
			if ln.Line != 0 || ln.Column != 0 {
				name := ""
				if ln.Function != nil {
					name = ln.Function.Name
				}
				return fmt.Sprintf("at granularity %s a frame of %q still carries line %d column %d: the frames of one function are shown as several sources", gran, name, ln.Line, ln.Column)
			}
		}
	}
	return ""
}

func runAPI(c *harness.Ctx) harness.Result {
	r := c.Rng
	p := c04.GenReportProfile(r)
	if r.Intn(3) == 0 && len(p.Function) > 0 {
		p.Function[0].Name = ""
	}
	if r.Intn(4) == 0 && len(p.Function) > 0 {
		// a real function that happens to be called like the synthetic root of the stack set
		f := p.Function[r.Intn(len(p.Function))]
		f.Name, f.SystemName = "root", "root"
		if r.Intn(2) == 0 {
			f.Filename = ""
		}
	}
	if r.Intn(5) == 0 && len(p.Function) > 0 {
		// a function known by neither name nor file
		f := p.Function[r.Intn(len(p.Function))]
		f.Name, f.SystemName, f.Filename = "", "", ""
	}
	if r.Intn(6) == 0 && len(p.Sample) > 0 && len(p.Location) > 0 {
		// a very deep stack (more than 64 frames), half of the time in the first sample
		smp := p.Sample[0]
		if r.Intn(2) == 0 {
			smp = p.Sample[r.Intn(len(p.Sample))]
		}
		for len(smp.Location) < 66+r.Intn(40) {
			smp.Location = append(smp.Location, p.Location[r.Intn(len(p.Location))])
		}
	}
	if r.Intn(4) == 0 && len(p.Function) > 0 {
		// the same function name in two files that differ only in the working-directory prefix of
		// a remote build: two functions, shown under the same cleaned-up file name
		f := p.Function[r.Intn(len(p.Function))]
		if f.Filename != "" && !strings.HasPrefix(f.Filename, "/") {
			var maxF, maxL uint64
			for _, x := range p.Function {
				if x.ID > maxF {
					maxF = x.ID
				}
			}
			for _, x := range p.Location {
				if x.ID > maxL {
					maxL = x.ID
				}
			}
			if maxF < 1<<62 && maxL < 1<<62 && len(p.Sample) > 0 {
				tw := &profile.Function{ID: maxF + 1, Name: f.Name, SystemName: f.SystemName, Filename: "/proc/self/cwd/" + f.Filename, StartLine: f.StartLine}
				tl := &profile.Location{ID: maxL + 1, Address: 0x7770000, Line: []profile.Line{{Function: tw, Line: 3}}}
				p.Function, p.Location = append(p.Function, tw), append(p.Location, tl)
				sm := p.Sample[r.Intn(len(p.Sample))]
				sm.Location = append([]*profile.Location{tl}, sm.Location...)
			}
		}
	}
	gran := []string{"functions", "filefunctions", "files", "lines", "addresses"}[r.Intn(5)]
	noinl, cols := r.Intn(4) == 0, r.Intn(3) == 0
	index := r.Intn(len(p.SampleType))
	q := p.Copy()
	if err := aggregateFor(q, gran, noinl, cols); err != nil {
		return harness.Result{Verdict: harness.Inconclusive, Detail: err.Error()}
	}
	res := harness.Result{NonTrivial: len(p.Sample) >= 2, Sig: gran + gen.Shape(p), Sample: map[string]any{"granularity": gran, "noinlines": noinl, "sample_index": index, "profile": gen.Describe(p)}}
	if msg := coarse(q, gran); msg != "" {
		res.Verdict, res.Detail = harness.Violated, fmt.Sprintf("granularity=%s noinlines=%v showcolumns=%v: %s\nprofile:\n%s", gran, noinl, cols, msg, harness.Trunc(p.String(), 3000))
		return res
	}
	ref := q.Copy()
	// divide_by only changes how values are displayed (the set's scale factor), not the values
	ratio := []float64{0, 0, 0, 1, 0.5, 0.001, 3}[r.Intn(7)]
	rpt := report.New(q, &report.Options{OutputFormat: report.Dot, SampleValue: func(v []int64) int64 { return v[index] }, SampleType: p.SampleType[index].Type, SampleUnit: p.SampleType[index].Unit, Ratio: ratio})
	ss := rpt.Stacks()
	b, err := json.Marshal(ss)
	if err != nil {
		return harness.Violation("stack set cannot be serialised: %v", err)
	}
	if strings.Contains(string(b), "null") {
		res.Verdict, res.Detail = harness.Violated, "JSON of the stack set contains null: "+harness.Trunc(string(b), 800)
		return res
	}
	var js jSet
	if err := json.Unmarshal(b, &js); err != nil {
		return harness.Violation("stack JSON unparseable: %v", err)
	}
	c.Stat("stack_sets", 1)
	c.Stat("stacks", int64(len(js.Stacks)))
	c.Stat("sources", int64(len(js.Sources)))
	if msg := checkSet(&js, ref, index); msg != "" {
		res.Verdict, res.Detail = harness.Violated, fmt.Sprintf("granularity=%s noinlines=%v columns=%v index=%d: %s\nprofile:\n%s", gran, noinl, cols, index, msg, harness.Trunc(p.String(), 3000))
	}
	return res
}

// extractJSON finds the stack data in a flame graph page: the first JSON object with the members
// "Sources" and "Stacks" inside a script element, wherever and under whatever name the page hands
// it to its viewer. Script elements are delimited the way a browser does it.
func extractJSON(page string) (string, error) {
	lower := strings.ToLower(page)
	pos, scripts := 0, 0
	for {
		i := strings.Index(lower[pos:], "<script")
		if i < 0 {
			break
		}
		i += pos
		g := strings.Index(lower[i:], ">")
		if g < 0 {
			break
		}
		start := i + g + 1
		// a browser ends the script element at the first "</script" (any case), wherever it stands
		end := len(page)
		if j := strings.Index(lower[start:], "</script"); j >= 0 {
			end = start + j
		}
		text := page[start:end]
		scripts++
		for k := 0; k < len(text); {
			b := strings.Index(text[k:], "{\"")
			if b < 0 {
				break
			}
			b += k
			dec := json.NewDecoder(strings.NewReader(text[b:]))
			var raw json.RawMessage
			if err := dec.Decode(&raw); err == nil {
				var members map[string]json.RawMessage
				if json.Unmarshal(raw, &members) == nil && members["Sources"] != nil && members["Stacks"] != nil {
					return string(raw), nil
				}
				k = b + len(raw)
				continue
			}
			k = b + 2
		}
		pos = end
		if pos >= len(page) {
			break
		}
	}
	return "", fmt.Errorf("no JSON object with the members Sources and Stacks in any of the %d script elements of the page (as a browser delimits them)", scripts)
}

func runWeb(c *harness.Ctx) harness.Result {
	r := c.Rng
	p := c04.GenReportProfile(r)
	if r.Intn(4) == 0 && len(p.Function) > 0 {
		// names a demangler or a template engine can produce: markup inside the name
		f := p.Function[r.Intn(len(p.Function))]
		f.Name = []string{"ns::tmpl<a</script><b>x", "op</SCRIPT >", "<!--x", "a<b>c&d\"e'", "</script"}[r.Intn(5)] + f.Name
		if r.Intn(2) == 0 {
			f.Filename = "dir/</script>/" + f.Filename
		}
		c.Stat("web_profiles_with_markup_in_names", 1)
	}
	drv.IsolateEnv(c.Tmp)
	web, err := drv.StartWeb(&drv.MapFetcher{Profiles: map[string]*profile.Profile{"p": p}}, []string{"p"}, nil, nil, nil)
	if err != nil {
		return harness.Result{Verdict: harness.Inconclusive, Detail: err.Error()}
	}
	defer web.Close()
	res := harness.Result{NonTrivial: len(p.Sample) >= 2, Sig: "web" + gen.Shape(p), Sample: map[string]any{"profile": gen.Describe(p)}}
	// three random views, then one view per sample type with everything else equal (requests to
	// one server that differ only in the selected sample type)
	sweepGran := []string{"", "functions", "lines"}[r.Intn(3)]
	for k := 0; k < 3+len(p.SampleType); k++ {
		gran := []string{"", "functions", "filefunctions", "files", "lines"}[r.Intn(5)]
		index := r.Intn(len(p.SampleType))
		noinl := r.Intn(4) == 0
		if k >= 3 {
			gran, index, noinl = sweepGran, k-3, false
		}
		url := fmt.Sprintf("/flamegraph?si=%s", p.SampleType[index].Type)
		if gran != "" {
			url += "&g=" + gran
		}
		if noinl {
			url += "&noinlines=t"
		}
		cols := r.Intn(4) == 0
		if cols {
			url += "&showcolumns=t"
		}
		code, body, pn := web.Get(url)
		if pn != "" {
			return harness.Violation("GET %s panicked: %s", url, pn)
		}
		if code != 200 {
			return harness.Violation("GET %s -> %d %s", url, code, harness.Trunc(body, 300))
		}
		raw, err := extractJSON(body)
		if err != nil {
			return harness.Violation("GET %s: %v", url, err)
		}
		if strings.Contains(raw, "null") {
			return harness.Violation("GET %s: JSON contains null: %s", url, harness.Trunc(raw, 600))
		}
		var js jSet
		if err := json.Unmarshal([]byte(raw), &js); err != nil {
			return harness.Violation("GET %s: JSON unparseable: %v", url, err)
		}
		g := gran
		if g == "" {
			g = "functions" // the session was started with -functions (drv.StartWeb always names a granularity)
		}
		q := p.Copy()
		if err := aggregateFor(q, g, noinl, cols); err != nil {
			continue
		}
		if msg := coarse(q, g); msg != "" {
			res.Verdict, res.Detail = harness.Violated, fmt.Sprintf("GET %s: %s", url, msg)
			return res
		}
		c.Stat("web_stack_sets", 1)
		if msg := checkSet(&js, q, index); msg != "" {
			res.Verdict, res.Detail = harness.Violated, fmt.Sprintf("GET %s: %s\nprofile:\n%s", url, msg, harness.Trunc(p.String(), 3000))
			return res
		}
	}
	return res
}

func init() {
	harness.Register(&harness.Check{
		ID:    "C17",
		Level: "exploration",
		Rule: "report-class profiles (recursion, inlining, nameless functions, empty stacks, equal names in different files, unsymbolized frames) x granularity x noinlines x showcolumns x sample_index; part api: report.Stacks() on the aggregated profile; part web: the JSON embedded in /flamegraph of a real in-process web session. " +
			"oracle (structural invariant monitor): one stack per sample in order, rooted at source 0, frames = the sample's frames caller-first with inlined frames expanded and flagged and names carrying the line info of the granularity; a source stands for exactly one frame identity; sum of stack values = signed total, Total = sum |v|, Self = sum of stacks a source terminates, Places = every containing stack once at the outermost occurrence; indices in range; no null; Display non-empty. non-trivial = at least 2 samples; distinct = (granularity, profile shape)",
		Assumptions: []string{"a location without lines contributes no frame (admissible either way by the statement)"},
		Parts: []harness.Part{
			{Name: "api", Quick: 6000, Thor: 300000, Run: runAPI},
			{Name: "web", Quick: 600, Thor: 20000, Run: runWeb},
		},
		MinNonTrivial: func(string) int { return 500 },
	})
}
