// Package c07 monitors linearity of combining and subtracting profiles through the real driver:
// multi-source sums, -base / -diff_base differences, unit and sample-type alignment, -normalize.
package c07

import (
	"fmt"
	"math"
	"math/big"
	"math/rand"
	"sort"
	"strings"

	"github.com/google/pprof/profile"
	"github.com/google/pprof/verif/internal/drv"
	"github.com/google/pprof/verif/internal/harness"
	"github.com/google/pprof/verif/internal/parse"
	"github.com/google/pprof/verif/internal/ref"
)

// KnownNormalize is the known finding: Profile.Normalize (through ScaleN) drops a sample whose
// rescaled columns all round to zero even when a column whose ratio is exactly 1 holds a non-zero
// value. Pinned by profile.TestNormalizeByDifferentProfile.
const KnownNormalize = "C07-normalize-drops-sample-with-unscaled-nonzero-column"

var unitFactor = map[string]int64{"count": 1, "nanoseconds": 1, "microseconds": 1000, "milliseconds": 1000000, "bytes": 1, "kilobytes": 1024, "nanogcu": 1, "microgcu": 1000, "milligcu": 1000000, "gcu": 1000000000}

type tspec struct {
	name  string
	units []string
}

// "t" and "w" draw from the same unit family, so one unit string can occur in two columns of a
// profile that need different conversions
var typePool = []tspec{{"n", []string{"count"}}, {"t", []string{"milliseconds", "nanoseconds", "microseconds"}}, {"b", []string{"bytes", "kilobytes"}}, {"w", []string{"milliseconds", "microseconds", "nanoseconds"}}, {"g", []string{"nanogcu", "microgcu", "milligcu", "gcu", "nanogcu"}}}

// universe of named frames shared by all profiles of a tuple
func genOne(r *rand.Rand, types [][2]string, nfn int) *profile.Profile {
	p := &profile.Profile{PeriodType: &profile.ValueType{Type: "cpu", Unit: "nanoseconds"}, Period: 1}
	for _, t := range types {
		p.SampleType = append(p.SampleType, &profile.ValueType{Type: t[0], Unit: t[1]})
	}
	// the binary is loaded at another address in every run (ASLR)
	shift := uint64(r.Intn(4)) * 0x100000
	if r.Intn(2) == 0 {
		shift = 0
	}
	m := &profile.Mapping{ID: 1, Start: 0x1000 + shift, Limit: 0x9000 + shift, File: "/bin/prog"}
	p.Mapping = []*profile.Mapping{m}
	// every profile holds its own subset of the tuple's nfn functions, in its own order, with
	// dense ids: table sizes and id assignments differ from one profile of a tuple to the next
	sub := r.Perm(nfn)[:1+r.Intn(nfn)]
	for i, u := range sub {
		// equally named functions of different source files (file-local helpers) are different functions
		p.Function = append(p.Function, &profile.Function{ID: uint64(i + 1), Name: fmt.Sprintf("f%d", u), SystemName: fmt.Sprintf("f%d", u), Filename: []string{"x.go", "x.go", "x.go", "y.go"}[r.Intn(4)]})
	}
	// one location per function plus one inlined pair; a quarter of the profiles come from another
	// build installed at the same path: the same offsets hold other functions there
	rot := 0
	if r.Intn(4) == 0 {
		rot = r.Intn(nfn)
	}
	for i, u := range sub {
		p.Location = append(p.Location, &profile.Location{ID: uint64(i + 1), Mapping: m, Address: m.Start + uint64((u+rot)%nfn)*16, Line: []profile.Line{{Function: p.Function[i], Line: 1}}})
	}
	if r.Intn(2) == 0 {
		a, b := r.Intn(len(sub)), r.Intn(len(sub))
		p.Location = append(p.Location, &profile.Location{ID: uint64(len(sub) + 1), Mapping: m, Address: m.Start + 0x800 + uint64(sub[a]*16+sub[b]), Line: []profile.Line{{Function: p.Function[a], Line: 2}, {Function: p.Function[b], Line: 3}}})
	}
	for i, n := 0, 1+r.Intn(6); i < n; i++ {
		s := &profile.Sample{}
		for range types {
			v := int64(r.Intn(6))
			if r.Intn(3) == 0 {
				v = 0
			}
			s.Value = append(s.Value, v)
		}
		for j, d := 0, r.Intn(4); j < d; j++ {
			s.Location = append(s.Location, p.Location[r.Intn(len(p.Location))])
		}
		if r.Intn(4) == 0 {
			s.Label = map[string][]string{"k": {[]string{"a", "b"}[r.Intn(2)]}}
		}
		p.Sample = append(p.Sample, s)
	}
	return p
}

type input struct {
	name string
	p    *profile.Profile
	sign int64
}

func typeIndex(p *profile.Profile, name string) int {
	for i, st := range p.SampleType {
		if st.Type == name {
			return i
		}
	}
	return -1
}

type expEntry struct{ flat, cum int64 }

// expected entries: entry-wise signed sum of the individual reports, values converted to the finest unit
func expected(ins []input, tname string) (map[string]expEntry, int64) {
	return expectedAt(ins, tname, "")
}

func expectedAt(ins []input, tname, gran string) (map[string]expEntry, int64) {
	finest := int64(math.MaxInt64)
	for _, in := range ins {
		f := unitFactor[in.p.SampleType[typeIndex(in.p, tname)].Unit]
		if f < finest {
			finest = f
		}
	}
	out := map[string]expEntry{}
	for _, in := range ins {
		idx := typeIndex(in.p, tname)
		f := unitFactor[in.p.SampleType[idx].Unit] / finest
		rep := ref.Report(in.p, ref.ROpts{Index: idx, Gran: gran})
		for k, e := range rep.Entries {
			x := out[k.Printable()]
			x.flat += in.sign * f * e.Flat
			x.cum += in.sign * f * e.Cum
			out[k.Printable()] = x
		}
	}
	for k, e := range out {
		if e.flat == 0 && e.cum == 0 {
			delete(out, k)
		}
	}
	return out, finest
}

// total of the merged profile: samples with equal (stack, labels) are summed first
// expectedAddr is expected at address granularity: entries are told apart by their address
// relative to the binary's start, and shown at the address they have in the first source.
func expectedAddr(ins []input, tname string) map[string]expEntry {
	finest := int64(math.MaxInt64)
	for _, in := range ins {
		f := unitFactor[in.p.SampleType[typeIndex(in.p, tname)].Unit]
		if f < finest {
			finest = f
		}
	}
	first := ins[0].p.Mapping[0].Start
	out := map[string]expEntry{}
	for _, in := range ins {
		idx := typeIndex(in.p, tname)
		f := unitFactor[in.p.SampleType[idx].Unit] / finest
		rep := ref.Report(in.p, ref.ROpts{Gran: "addresses", Index: idx})
		for k, e := range rep.Entries {
			k.Addr = k.Addr - in.p.Mapping[0].Start + first
			x := out[k.Printable()]
			x.flat += in.sign * f * e.Flat
			x.cum += in.sign * f * e.Cum
			out[k.Printable()] = x
		}
	}
	for k, e := range out {
		if e.flat == 0 && e.cum == 0 {
			delete(out, k)
		}
	}
	return out
}

func mergedTotal(ins []input, tname string, finest int64, diffBase bool) int64 {
	sums := map[string]int64{}
	var baseTotal int64
	for _, in := range ins {
		idx := typeIndex(in.p, tname)
		f := unitFactor[in.p.SampleType[idx].Unit] / finest
		for _, rec := range ref.View(in.p) {
			key := rec.StackKey() + "||" + rec.LabelKey()
			if in.sign < 0 && diffBase {
				key += "||base"
			}
			// a sample is only kept by the merge if some column is non-zero; zero contributions do not matter
			sums[key] += in.sign * f * rec.Values[idx]
		}
	}
	var total int64
	for k, v := range sums {
		total += ref.Abs64(v)
		if strings.HasSuffix(k, "||base") {
			baseTotal += ref.Abs64(v)
		}
	}
	if diffBase && baseTotal > 0 {
		return baseTotal
	}
	return total
}

func rowsToMap(rows []parse.TopRow) map[string]expEntry {
	m := map[string]expEntry{}
	for _, r := range rows {
		x := m[r.Name]
		x.flat += r.Flat
		x.cum += r.Cum
		m[r.Name] = x
	}
	for k, e := range m {
		if e.flat == 0 && e.cum == 0 {
			delete(m, k)
		}
	}
	return m
}

func fmtMap(m map[string]expEntry) string {
	var ks []string
	for k := range m {
		ks = append(ks, k)
	}
	sort.Strings(ks)
	var sb strings.Builder
	for _, k := range ks {
		fmt.Fprintf(&sb, "%s:{flat %d cum %d} ", k, m[k].flat, m[k].cum)
	}
	return sb.String()
}

func runTop(profs map[string]*profile.Profile, srcs, bases []string, mode, tname, unit string, extra map[string]bool, format string) (string, string) {
	b := map[string]bool{format: true, "trim": false}
	for k, v := range extra {
		b[k] = v
	}
	lists := map[string][]string{}
	if len(bases) > 0 {
		lists[mode] = bases
	}
	out, ui, res := drv.Report(profs, srcs, b, map[string]string{"sample_index": tname, "unit": unit}, nil, nil, lists)
	if res.Panic != "" {
		return "", "panic: " + res.Panic
	}
	if res.Err != nil {
		return "", fmt.Sprintf("error: %v (ui: %v)", res.Err, ui.Errs)
	}
	return out, ""
}

func describe(ins []input) string {
	var sb strings.Builder
	for _, in := range ins {
		fmt.Fprintf(&sb, "%s (sign %+d):\n%s\n", in.name, in.sign, harness.Trunc(in.p.String(), 1200))
	}
	return sb.String()
}

func runLinear(c *harness.Ctx) harness.Result {
	r := c.Rng
	nfn := 2 + r.Intn(6)
	// choose the set of types each profile has: all share at least the chosen type
	order := r.Perm(len(typePool))
	chosen := typePool[order[0]]
	mkTypes := func() [][2]string {
		var ts [][2]string
		for _, i := range r.Perm(len(typePool)) {
			t := typePool[i]
			if t.name != chosen.name && r.Intn(4) == 0 {
				continue // partially overlapping sample types
			}
			ts = append(ts, [2]string{t.name, t.units[r.Intn(len(t.units))]})
		}
		return ts
	}
	ns, nb := 1+r.Intn(3), r.Intn(3)
	mode := ""
	if nb > 0 {
		mode = []string{"base", "diff_base"}[r.Intn(2)]
	}
	profs := map[string]*profile.Profile{}
	var ins []input
	var srcs, bases []string
	for i := 0; i < ns; i++ {
		name := fmt.Sprintf("s%d", i)
		p := genOne(r, mkTypes(), nfn)
		profs[name] = p
		srcs = append(srcs, name)
		ins = append(ins, input{name, p, 1})
	}
	dup := r.Intn(8) == 0
	self := false
	for i := 0; i < nb; i++ {
		name := fmt.Sprintf("b%d", i)
		var p *profile.Profile
		if ns == 1 && nb == 1 && r.Intn(3) == 0 {
			// a profile minus itself (expressed in another unit / type order) is empty
			self = true
			p = variant(r, ins[0].p)
		} else {
			p = genOne(r, mkTypes(), nfn)
		}
		profs[name] = p
		bases = append(bases, name)
		ins = append(ins, input{name, p, -1})
	}
	if c.Index%100 == 7 && !self {
		// many sources (pprof fetches and merges them in batches): a few profiles named over and over
		distinct := len(srcs)
		for want := []int{129, 131, 201, 257, 128, 130}[r.Intn(6)]; len(srcs) < want; {
			name := fmt.Sprintf("s%d", len(srcs)%distinct)
			srcs = append(srcs, name)
			ins = append(ins, input{name, profs[name], 1})
		}
		c.Stat("runs_with_over_128_sources", 1)
	}
	if !self && r.Intn(8) == 0 {
		// one source that cannot be fetched, anywhere in the list: the others add up as before
		at := r.Intn(len(srcs) + 1)
		srcs = append(srcs[:at], append([]string{"missing"}, srcs[at:]...)...)
		c.Stat("runs_with_an_unfetchable_source", 1)
	}
	if dup && !self {
		// the same source named twice counts twice
		first := srcs[0]
		if first == "missing" {
			first = srcs[1]
		}
		srcs = append(srcs, first)
		ins = append(ins, input{first, profs[first], 1})
	}
	want, finest := expected(ins, chosen.name)
	unit := ""
	for u, f := range unitFactor {
		if f == finest {
			for _, x := range chosen.units {
				if x == u {
					unit = u
				}
			}
		}
	}
	desc := fmt.Sprintf("sources=%v %s=%v sample_index=%s unit=%s self=%v", srcs, mode, bases, chosen.name, unit, self)
	res := harness.Result{NonTrivial: ns+nb >= 2, Sig: desc + fmt.Sprint(len(want), nfn), Sample: map[string]any{"run": desc, "types_of_first_source": fmt.Sprint(typesOf(ins[0].p))}}
	c.Stat("runs", 1)
	c.Stat("mode."+mode, 1)
	out, e := runTop(profs, srcs, bases, mode, chosen.name, unit, nil, "top")
	if e != "" {
		res.Verdict, res.Detail = harness.Violated, desc+": pprof failed on compatible profiles: "+e+"\n"+describe(ins)
		return res
	}
	h, rows, err := parse.Top(out)
	if err != nil {
		return harness.Violation("%s: -top unparseable: %v\n%s", desc, err, out)
	}
	got := rowsToMap(rows)
	if fmtMap(got) != fmtMap(want) {
		res.Verdict = harness.Violated
		res.Detail = fmt.Sprintf("%s: report is not the entry-wise signed sum of the individual reports (in %s)\n got: %s\nwant: %s\n%s\n%s", desc, unit, fmtMap(got), fmtMap(want), out, describe(ins))
		return res
	}
	if self && len(got) != 0 {
		return harness.Violation("%s: a profile minus itself is not empty: %s", desc, fmtMap(got))
	}
	// the same with the source file as part of an entry's identity
	if c.Index%3 == 1 {
		outF, e := runTop(profs, srcs, bases, mode, chosen.name, unit, map[string]bool{"filefunctions": true}, "top")
		if e != "" {
			return harness.Violation("%s -filefunctions: %s", desc, e)
		}
		_, rowsF, err := parse.Top(outF)
		if err != nil {
			return harness.Violation("%s: -top -filefunctions unparseable: %v\n%s", desc, err, outF)
		}
		c.Stat("file_level_runs", 1)
		wantF, _ := expectedAt(ins, chosen.name, "filefunctions")
		if gotF := rowsToMap(rowsF); fmtMap(gotF) != fmtMap(wantF) {
			res.Verdict = harness.Violated
			res.Detail = fmt.Sprintf("%s -filefunctions: report is not the entry-wise signed sum of the individual reports per (function, file)\n got: %s\nwant: %s\n%s\n%s", desc, fmtMap(gotF), fmtMap(wantF), outF, describe(ins))
			return res
		}
	}
	// the same at address granularity (the binary is loaded at different addresses in the inputs)
	if c.Index%3 == 0 {
		outA, e := runTop(profs, srcs, bases, mode, chosen.name, unit, map[string]bool{"addresses": true}, "top")
		if e != "" {
			return harness.Violation("%s -addresses: %s", desc, e)
		}
		_, rowsA, err := parse.Top(outA)
		if err != nil {
			return harness.Violation("%s: -top -addresses unparseable: %v\n%s", desc, err, outA)
		}
		c.Stat("address_level_runs", 1)
		if gotA, wantA := rowsToMap(rowsA), expectedAddr(ins, chosen.name); fmtMap(gotA) != fmtMap(wantA) {
			res.Verdict = harness.Violated
			res.Detail = fmt.Sprintf("%s -addresses: report is not the entry-wise signed sum per address relative to the binary (shown at the first source's addresses)\n got: %s\nwant: %s\n%s\n%s", desc, fmtMap(gotA), fmtMap(wantA), outA, describe(ins))
			return res
		}
	}
	wantTotal := mergedTotal(ins, chosen.name, finest, mode == "diff_base")
	if h.Found && h.Total != wantTotal {
		res.Verdict = harness.Violated
		res.Detail = fmt.Sprintf("%s: header total %d, expected %d (%s)\n%s\n%s", desc, h.Total, wantTotal, map[bool]string{true: "sum of |base| values: percentages are relative to the base", false: "sum of |merged values|"}[mode == "diff_base"], out, describe(ins))
		return res
	}
	// saved with -proto and reopened: same report
	if mode != "" && c.Index%2 == 0 {
		pb, e := runTop(profs, srcs, bases, mode, chosen.name, unit, nil, "proto")
		if e != "" {
			return harness.Violation("%s: -proto failed: %s", desc, e)
		}
		saved, err := profile.ParseData([]byte(pb))
		if err != nil {
			return harness.Violation("%s: -proto output unparseable: %v", desc, err)
		}
		out2, e := runTop(map[string]*profile.Profile{"saved": saved}, []string{"saved"}, nil, "", chosen.name, unit, nil, "top")
		if e != "" {
			return harness.Violation("%s: reopening the saved profile failed: %s", desc, e)
		}
		c.Stat("proto_reopen", 1)
		h2, rows2, err := parse.Top(out2)
		if err != nil || fmtMap(rowsToMap(rows2)) != fmtMap(got) || h2.Total != h.Total || h2.Accounting != h.Accounting {
			res.Verdict = harness.Violated
			res.Detail = fmt.Sprintf("%s: the profile saved with -proto and reopened gives a different report\n--- direct\n%s--- reopened\n%s", desc, out, out2)
			return res
		}
	}
	return res
}

func typesOf(p *profile.Profile) []string {
	var s []string
	for _, t := range p.SampleType {
		s = append(s, t.Type+"/"+t.Unit)
	}
	return s
}

// variant re-expresses p with permuted sample types and other units (values converted exactly)
func variant(r *rand.Rand, p *profile.Profile) *profile.Profile {
	q := p.Copy()
	perm := r.Perm(len(q.SampleType))
	st := make([]*profile.ValueType, len(perm))
	for i, j := range perm {
		st[i] = q.SampleType[j]
	}
	mult := make([]int64, len(perm))
	for i, t := range st {
		mult[i] = 1
		// to a finer unit only (exact)
		switch t.Unit {
		case "milliseconds":
			if r.Intn(2) == 0 {
				t.Unit, mult[i] = "microseconds", 1000
			} else {
				t.Unit, mult[i] = "nanoseconds", 1000000
			}
		case "microseconds":
			t.Unit, mult[i] = "nanoseconds", 1000
		case "kilobytes":
			t.Unit, mult[i] = "bytes", 1024
		}
	}
	q.SampleType = st
	for _, s := range q.Sample {
		v := make([]int64, len(perm))
		for i, j := range perm {
			v[i] = s.Value[j] * mult[i]
		}
		s.Value = v
	}
	return q
}

// ---- normalize ---------------------------------------------------------------------------

func runNormalize(c *harness.Ctx) harness.Result {
	r := c.Rng
	nfn := 2 + r.Intn(3)
	types := [][2]string{{"n", "count"}, {"t", "nanoseconds"}}
	src, base := genOne(r, types, nfn), genOne(r, types, nfn)
	if r.Intn(4) == 0 {
		// seconds of CPU time in nanoseconds: value x total no longer fits in 63 bits
		for _, q := range []*profile.Profile{src, base} {
			for _, sm := range q.Sample {
				sm.Value[1] *= 700000001
			}
		}
		c.Stat("normalize_runs_with_seconds_of_ns", 1)
	}
	if r.Intn(3) == 0 {
		// make one column's totals equal (ratio exactly 1)
		var ts, tb int64
		for _, s := range src.Sample {
			ts += s.Value[0]
		}
		for _, s := range base.Sample {
			tb += s.Value[0]
		}
		if d := ts - tb; d > 0 {
			base.Sample[0].Value[0] += d
		} else {
			src.Sample[0].Value[0] -= d
		}
	}
	mode := []string{"base", "diff_base"}[r.Intn(2)]
	idx := r.Intn(2)
	tname := types[idx][0]
	desc := fmt.Sprintf("-normalize -%s sample_index=%s", mode, tname)
	res := harness.Result{NonTrivial: true, Sig: desc + fmt.Sprint(len(src.Sample), len(base.Sample), nfn, c.Index), Sample: map[string]any{"run": desc}}
	var tot, btot [2]int64
	for _, s := range src.Sample {
		tot[0] += s.Value[0]
		tot[1] += s.Value[1]
	}
	for _, s := range base.Sample {
		btot[0] += s.Value[0]
		btot[1] += s.Value[1]
	}
	profs := map[string]*profile.Profile{"s": src, "b": base}
	out, e := runTop(profs, []string{"s"}, []string{"b"}, mode, tname, types[idx][1], map[string]bool{"normalize": true}, "top")
	if e != "" {
		return harness.Violation("%s: pprof failed: %s", desc, e)
	}
	_, rows, err := parse.Top(out)
	if err != nil {
		return harness.Violation("%s: unparseable: %v\n%s", desc, err, out)
	}
	got := rowsToMap(rows)
	c.Stat("normalize_runs", 1)
	// exact rational expectation per entry and rounding bound (one half per contributing sample)
	eval := func(drop bool) (string, bool) {
		ratio := [2]*big.Rat{new(big.Rat), new(big.Rat)}
		for i := 0; i < 2; i++ {
			if tot[i] != 0 {
				ratio[i] = big.NewRat(btot[i], tot[i])
			}
		}
		one := big.NewRat(1, 1)
		type acc struct {
			flat, cum *big.Rat
			n         int
		}
		exp := map[string]*acc{}
		get := func(k string) *acc {
			if exp[k] == nil {
				exp[k] = &acc{new(big.Rat), new(big.Rat), 0}
			}
			return exp[k]
		}
		dropped := false
		for _, s := range src.Sample {
			if drop {
				// deviation model: the sample survives only if a column whose ratio is not 1 scales to non-zero
				keep := false
				for i := 0; i < 2; i++ {
					if ratio[i].Cmp(one) != 0 {
						f, _ := new(big.Rat).Mul(ratio[i], big.NewRat(s.Value[i], 1)).Float64()
						if int64(math.Round(f)) != 0 {
							keep = true
						}
					}
				}
				if !keep {
					if ratio[idx].Cmp(one) == 0 && s.Value[idx] != 0 {
						dropped = true
					}
					continue
				}
			}
			ks := ref.KeySample(s, ref.ROpts{Index: idx})
			v := new(big.Rat).Mul(ratio[idx], big.NewRat(s.Value[idx], 1))
			seen := map[string]bool{}
			for i, k := range ks.Keys {
				name := k.Printable()
				a := get(name)
				if !seen[name] {
					seen[name] = true
					a.cum.Add(a.cum, v)
					a.n++
				}
				if i == len(ks.Keys)-1 {
					a.flat.Add(a.flat, v)
				}
			}
		}
		brep := ref.Report(base, ref.ROpts{Index: idx})
		for k, e := range brep.Entries {
			a := get(k.Printable())
			a.flat.Sub(a.flat, big.NewRat(e.Flat, 1))
			a.cum.Sub(a.cum, big.NewRat(e.Cum, 1))
		}
		for name, a := range exp {
			g := got[name]
			tol := big.NewRat(int64(a.n)+1, 2)
			for _, pair := range [][2]*big.Rat{{big.NewRat(g.flat, 1), a.flat}, {big.NewRat(g.cum, 1), a.cum}} {
				d := new(big.Rat).Sub(pair[0], pair[1])
				if d.Abs(d).Cmp(tol) > 0 {
					ef, _ := a.flat.Float64()
					ec, _ := a.cum.Float64()
					return fmt.Sprintf("entry %q: reported flat=%d cum=%d, scaled source minus base is flat=%.2f cum=%.2f (tolerance %s for %d contributing samples)", name, g.flat, g.cum, ef, ec, tol.FloatString(1), a.n), dropped
				}
			}
		}
		for name := range got {
			if exp[name] == nil {
				return fmt.Sprintf("entry %q reported but neither in source nor base", name), dropped
			}
		}
		return "", dropped
	}
	msg, _ := eval(false)
	if msg == "" {
		return res
	}
	if dmsg, inClass := eval(true); dmsg == "" && inClass {
		res.Verdict, res.KnownID = harness.Known, KnownNormalize
		res.Detail = fmt.Sprintf("%s, source total %v, base total %v: %s", desc, tot, btot, msg)
		return res
	}
	res.Verdict = harness.Violated
	res.Detail = fmt.Sprintf("%s (source totals %v, base totals %v): %s\n%s\nsource:\n%s\nbase:\n%s", desc, tot, btot, msg, out, src.String(), base.String())
	return res
}

func init() {
	harness.Register(&harness.Check{
		ID:    "C07",
		Level: "exploration",
		Rule: "part linear: tuples of 1-3 sources (one of them sometimes listed twice) and 0-2 bases over one universe of 2-7 named frames of which every profile holds its own subset in its own order with dense ids (table sizes and id assignments differ from profile to profile), sample types n/count, t/{ms,us,ns}, w/{ms,us,ns} (same unit family as t), b/{bytes,kb} in permuted order and partially overlapping, zero columns next to non-zero ones, a base that is the source itself re-expressed in other units / type order; modes plain, -base, -diff_base; observed through the real driver's -top (trim=false, unit = finest unit), -top -addresses (the binary is mapped at a different start address in every input; entries are matched by address relative to it) and -proto reopened. part normalize: -normalize with -base / -diff_base, columns whose totals are made equal (ratio exactly 1). " +
			"oracle: entry-wise signed sum of the individual reference reports with exact integer unit conversion; header total = sum |merged values| (diff_base: sum |base|); p - p empty; saved -proto reopened gives the same rows and header; normalize: every entry within half a unit per contributing sample of (base total / source total) x source - base in exact rationals. non-trivial = at least 2 profiles; distinct = run description",
		Assumptions: []string{"units convert exactly because values are converted to the finest unit present", "sample types are matched by name in first-profile order; types absent from some profile are not reported"},
		Parts: []harness.Part{
			{Name: "linear", Quick: 5000, Thor: 200000, Run: runLinear},
			{Name: "normalize", Quick: 3000, Thor: 100000, Run: runNormalize},
		},
		MinNonTrivial: func(string) int { return 500 },
	})
}
