// Package c08 monitors determinism: strict-total-order laws of the exported sorts by exhaustive
// permutation, and byte-identical output of repeated renderings (in-process and cross-process).
package c08

import (
	"bytes"
	"compress/gzip"
	"crypto/sha256"
	"encoding/binary"
	"encoding/json"
	"fmt"
	"github.com/google/pprof/internal/report"
	"github.com/google/pprof/verif/internal/legacy"
	"github.com/google/pprof/verif/internal/sess"
	"io"
	"math/rand"
	"os"
	"os/exec"
	"sort"
	"strconv"
	"strings"
	"sync"
	"time"

	"github.com/google/pprof/internal/graph"
	"github.com/google/pprof/profile"
	"github.com/google/pprof/verif/checks/c16"
	"github.com/google/pprof/verif/internal/drv"
	"github.com/google/pprof/verif/internal/gen"
	"github.com/google/pprof/verif/internal/harness"
)

func perms(n int, f func([]int)) {
	p := make([]int, n)
	for i := range p {
		p[i] = i
	}
	var rec func(k int)
	rec = func(k int) {
		if k == n {
			f(p)
			return
		}
		for i := k; i < n; i++ {
			p[k], p[i] = p[i], p[k]
			rec(k + 1)
			p[k], p[i] = p[i], p[k]
		}
	}
	rec(0)
}

var tieVals = []int64{0, 1, -1, 2, -2, 5, -5}

func runOrderLaws(c *harness.Ctx) harness.Result {
	r := c.Rng
	n := 3 + r.Intn(4) // 3..6 elements: 6..720 permutations
	kind := c.Index % 10
	res := harness.Result{NonTrivial: true}
	results := map[string]bool{}
	var desc string
	switch {
	case kind <= 1: // tags, flat or cum mode
		flat := kind == 0
		type tg struct {
			name      string
			flat, cum int64
		}
		var ts []tg
		for i := 0; i < n; i++ {
			ts = append(ts, tg{fmt.Sprintf("t%d", i), tieVals[r.Intn(len(tieVals))], tieVals[r.Intn(len(tieVals))]})
		}
		if c.Index%20 >= 10 {
			// names that differ in letter case only (method=GET / method=get) are different tags
			pool := []string{"get", "GET", "Get", "gEt", "put", "PUT", "Put"}
			r.Shuffle(len(pool), func(i, j int) { pool[i], pool[j] = pool[j], pool[i] })
			for i := range ts {
				ts[i].name = pool[i]
			}
		}
		desc = fmt.Sprintf("SortTags(flat=%v) over %v", flat, ts)
		perms(n, func(p []int) {
			var in []*graph.Tag
			for _, i := range p {
				in = append(in, &graph.Tag{Name: ts[i].name, Flat: ts[i].flat, Cum: ts[i].cum})
			}
			s := ""
			for _, x := range graph.SortTags(in, flat) {
				s += x.Name + ","
			}
			results[s] = true
			c.Stat("sort_calls", 1)
		})
	case kind <= 8: // nodes, 7 orders
		order := graph.NodeOrder(kind - 2)
		type nd struct {
			info      graph.NodeInfo
			flat, cum int64
		}
		var ns []nd
		seen := map[graph.NodeInfo]bool{}
		for len(ns) < n {
			info := graph.NodeInfo{Name: []string{"f", "g", "f", "", "F"}[r.Intn(5)], Address: uint64(r.Intn(3)), File: []string{"x", "y", ""}[r.Intn(3)], StartLine: r.Intn(2), Lineno: r.Intn(2), Objfile: []string{"", "o"}[r.Intn(2)]}
			if seen[info] {
				continue
			}
			seen[info] = true
			ns = append(ns, nd{info, tieVals[r.Intn(len(tieVals))], tieVals[r.Intn(len(tieVals))]})
		}
		// random edges between them (for the entropy order)
		type ed struct {
			a, b int
			w    int64
		}
		var es []ed
		for i, k := 0, r.Intn(2*n); i < k; i++ {
			a, b := r.Intn(n), r.Intn(n)
			if a != b {
				es = append(es, ed{a, b, tieVals[r.Intn(len(tieVals))]})
			}
		}
		desc = fmt.Sprintf("Nodes.Sort(order %d) over %v edges %v", order, ns, es)
		perms(n, func(p []int) {
			nodes := make([]*graph.Node, n)
			for i := range ns {
				nodes[i] = &graph.Node{Info: ns[i].info, Flat: ns[i].flat, Cum: ns[i].cum, In: graph.EdgeMap{}, Out: graph.EdgeMap{}}
			}
			for _, e := range es {
				edge := &graph.Edge{Src: nodes[e.a], Dest: nodes[e.b], Weight: e.w}
				nodes[e.a].Out[nodes[e.b]] = edge
				nodes[e.b].In[nodes[e.a]] = edge
			}
			var in graph.Nodes
			for _, i := range p {
				in = append(in, nodes[i])
			}
			in.Sort(order)
			s := ""
			for _, x := range in {
				s += fmt.Sprint(x.Info, ";")
			}
			results[s] = true
			c.Stat("sort_calls", 1)
		})
	default: // edges (input order is a map: repeat)
		type de struct {
			info graph.NodeInfo
			w    int64
		}
		var ds []de
		seen := map[graph.NodeInfo]bool{}
		for len(ds) < n {
			info := graph.NodeInfo{Name: []string{"a", "b", "a"}[r.Intn(3)], Objfile: []string{"", "other"}[r.Intn(2)], Address: uint64(r.Intn(2))}
			if seen[info] {
				continue
			}
			seen[info] = true
			ds = append(ds, de{info, []int64{4, -4, 4, -4, 1}[r.Intn(5)]})
		}
		desc = fmt.Sprintf("EdgeMap.Sort over %v", ds)
		src := &graph.Node{Info: graph.NodeInfo{Name: "s"}, In: graph.EdgeMap{}, Out: graph.EdgeMap{}}
		for k := 0; k < 60; k++ {
			em := graph.EdgeMap{}
			for _, d := range ds {
				dn := &graph.Node{Info: d.info, In: graph.EdgeMap{}, Out: graph.EdgeMap{}}
				em[dn] = &graph.Edge{Src: src, Dest: dn, Weight: d.w}
			}
			s := ""
			for _, e := range em.Sort() {
				s += fmt.Sprint(e.Dest.Info, e.Weight, ";")
			}
			results[s] = true
			c.Stat("sort_calls", 1)
		}
	}
	res.Sig = desc
	res.Sample = desc
	if len(results) != 1 {
		var rs []string
		for k := range results {
			rs = append(rs, k)
		}
		sort.Strings(rs)
		if len(rs) > 4 {
			rs = rs[:4]
		}
		res.Verdict = harness.Violated
		res.Detail = fmt.Sprintf("%s: %d different results over the permutations of the same elements (the order is not a strict total order), e.g.\n%s", desc, len(results), strings.Join(rs, "\n"))
	}
	return res
}

// ---- end to end ----------------------------------------------------------------------

// TieProfile generates a profile of the tie class.
func TieProfile(r *rand.Rand) *profile.Profile {
	o := gen.Opt{Types: [][2]string{{"samples", "count"}, {"v", "count"}}, Labels: true, NumLabels: true, Recursion: true, EmptyStacks: true, Unsym: true, NoMapping: true, Header: true,
		ValueClass: 0, MaxSamples: 14, MinSamples: 3, MaxDepth: 5, MaxFuncs: 5, MaxLocs: 8, Columns: true, SameFile: r.Intn(2) == 0, IDMode: 1 + r.Intn(3),
		LabelVals: []string{"a", "b", "A"}, LabelKeys: []string{"k", "j"}, NumUnits: []string{"", "bytes"}}
	o.NameFn = func(r *rand.Rand) string { return []string{"f", "g", "h"}[r.Intn(3)] }
	p := gen.Profile(r, o)
	// diff shape: append negated copies of some samples with permuted order
	n := len(p.Sample)
	for _, i := range r.Perm(n) {
		if r.Intn(2) == 0 {
			s := p.Sample[i]
			neg := &profile.Sample{Location: s.Location, Label: s.Label, NumLabel: s.NumLabel, NumUnit: s.NumUnit}
			for _, v := range s.Value {
				neg.Value = append(neg.Value, -v)
			}
			// attach to a different leaf so that it does not simply cancel
			if len(neg.Location) > 1 && r.Intn(2) == 0 {
				neg.Location = neg.Location[1:]
			}
			p.Sample = append(p.Sample, neg)
		}
	}
	// several numeric label keys whose units are inconsistent across samples (pprof warns about
	// each of them; the warnings are part of what a run prints)
	if r.Intn(2) == 0 {
		for i, smp := range p.Sample {
			if smp.NumLabel == nil {
				smp.NumLabel = map[string][]int64{}
			}
			if smp.NumUnit == nil {
				smp.NumUnit = map[string][]string{}
			}
			for _, k := range []string{"ka", "kb", "kc"} {
				smp.NumLabel[k] = []int64{int64(1 + i)}
				smp.NumUnit[k] = []string{[]string{"bytes", "kb", "mb"}[(i+len(k))%3]}
			}
		}
	}
	// twins: a second location at the same address of the same binary with other line
	// information (the same code symbolized against another source revision), used by some samples
	if r.Intn(2) == 0 && len(p.Location) > 0 {
		var maxID uint64
		for _, l := range p.Location {
			if l.ID > maxID {
				maxID = l.ID
			}
		}
		for k, n := 0, 1+r.Intn(2); k < n && maxID < 1<<62; k++ {
			l := p.Location[r.Intn(len(p.Location))]
			maxID++
			tw := &profile.Location{ID: maxID, Mapping: l.Mapping, Address: l.Address, IsFolded: l.IsFolded}
			for _, ln := range l.Line {
				tw.Line = append(tw.Line, profile.Line{Function: ln.Function, Line: ln.Line + int64(1+r.Intn(3)), Column: ln.Column})
			}
			p.Location = append(p.Location, tw)
			for _, s := range p.Sample {
				for i, sl := range s.Location {
					if sl == l && r.Intn(2) == 0 {
						s.Location[i] = tw
					}
				}
			}
		}
	}
	return p
}

type spec struct {
	name  string
	bools map[string]bool
	strs  map[string]string
}

func formats(r *rand.Rand) []spec {
	gran := []string{"functions", "lines", "files", "addresses", "filefunctions"}[r.Intn(5)]
	sortk := []string{"flat", "cum"}[r.Intn(2)]
	si := []string{"samples", "v"}[r.Intn(2)]
	base := func(f string, extra ...string) spec {
		s := spec{name: f, bools: map[string]bool{f: true, gran: true, sortk: true}, strs: map[string]string{"sample_index": si}}
		for _, e := range extra {
			if kv := strings.SplitN(e, "=", 2); len(kv) == 2 {
				s.strs[kv[0]] = kv[1]
				if kv[0] == f {
					delete(s.bools, f)
				}
			} else {
				s.bools[e] = true
			}
			s.name += "," + e
		}
		s.name += "," + gran + "," + sortk + "," + si
		return s
	}
	nc := fmt.Sprint(1 + r.Intn(4))
	return []spec{
		base("top"), base("top", "nodecount="+nc), base("tree"), base("tree", "nodecount="+nc), base("peek", "peek=."), base("dot"), base("dot", "nodecount="+nc), base("dot", "call_tree"), base("dot", "call_tree", "nodecount=1"), base("dot", "call_tree", "nodecount=2"), base("dot", "call_tree", "nodecount=3"), base("dot", "call_tree", "nodecount=4"), base("dot", "call_tree", "nodecount=6"),
		base("callgrind"), base("callgrind", "call_tree"), base("tags"), base("traces"), base("raw"), base("proto"), base("topproto"), base("text", "tagroot=k", "tagleaf=j"),
		base("disasm", "disasm=."), base("proto", "show_from=g"), base("raw", "show_from=f|h"), base("proto", "focus=f", "hide=g"), base("raw", "prune_from=g"), base("proto", "tagfocus=a", "taghide=j"),
		base("proto", "symbolize=local"), base("raw", "symbolize=local"), base("top", "symbolize=local"), base("comments"), base("list", "list=."),
		// two options of one group on the command line (an error, or whatever pprof makes of it: the same every time)
		base("top", "cum", "flat"), base("top", "lines", "functions"),
	}
}

func render(p *profile.Profile, s spec) ([]byte, string) {
	ints := map[string]int{}
	strs := map[string]string{}
	for k, v := range s.strs {
		if k == "nodecount" {
			n, _ := strconv.Atoi(v)
			ints["nodecount"] = n
			continue
		}
		strs[k] = v
	}
	out, ui, res := drv.ReportObj(&drv.FakeObj{Prof: p, Symbolize: strs["symbolize"] != ""}, map[string]*profile.Profile{"p": p}, []string{"p"}, s.bools, strs, ints)
	if res.Panic != "" {
		return nil, "panic: " + res.Panic
	}
	if res.Err != nil {
		return []byte("ERROR: " + res.Err.Error()), ""
	}
	// what the run printed for the user (warnings) is part of its output
	msgs := "\nMESSAGES:\n" + strings.Join(ui.Errs, "\n")
	b := []byte(out)
	if len(b) > 2 && b[0] == 0x1f && b[1] == 0x8b {
		if zr, err := gzip.NewReader(bytes.NewReader(b)); err == nil {
			if raw, err := io.ReadAll(zr); err == nil {
				b = raw
			}
		}
	}
	return append(b, msgs...), ""
}

func firstDiff(a, b []byte) string {
	i := 0
	for i < len(a) && i < len(b) && a[i] == b[i] {
		i++
	}
	lo := i - 120
	if lo < 0 {
		lo = 0
	}
	hiA, hiB := i+120, i+120
	if hiA > len(a) {
		hiA = len(a)
	}
	if hiB > len(b) {
		hiB = len(b)
	}
	return fmt.Sprintf("first difference at byte %d:\n  run A: …%q\n  run B: …%q", i, a[lo:hiA], b[lo:hiB])
}

// Digests renders every format once and returns name -> sha256.
func Digests(seed int64) (map[string]string, string) {
	r := rand.New(rand.NewSource(seed))
	p := TieProfile(r)
	out := map[string]string{}
	for _, s := range formats(r) {
		b, e := render(p, s)
		if e != "" {
			return nil, s.name + ": " + e
		}
		out[s.name] = fmt.Sprintf("%x", sha256.Sum256(b))
	}
	// the data behind the flame graph view (sources with their display attributes, stacks)
	for _, gran := range [][]bool{{true, true, false, false, false, false}, {true, false, true, false, false, false}} {
		q := p.Copy()
		q.Aggregate(gran[0], gran[1], gran[2], gran[3], gran[4], gran[5])
		rpt := report.NewDefault(q, report.Options{})
		js, err := json.Marshal(rpt.Stacks())
		if err != nil {
			return nil, "stacks: " + err.Error()
		}
		out[fmt.Sprintf("flamegraph-data,%v", gran[1])] = fmt.Sprintf("%x", sha256.Sum256(js))
	}
	return out, ""
}

func runE2E(c *harness.Ctx) harness.Result {
	seed := c.Rng.Int63()
	r := rand.New(rand.NewSource(seed))
	p := TieProfile(r)
	fs := formats(r)
	res := harness.Result{NonTrivial: true, Sig: gen.Shape(p), Sample: map[string]any{"profile": gen.Describe(p), "formats": len(fs)}}
	first := map[string][]byte{}
	for rep := 0; rep < 8; rep++ {
		for _, s := range fs {
			b, e := render(p, s)
			if e != "" {
				return harness.Violation("%s: %s", s.name, e)
			}
			c.Stat("renderings", 1)
			if rep == 0 {
				first[s.name] = b
				continue
			}
			if !bytes.Equal(first[s.name], b) {
				res.Verdict = harness.Violated
				res.Detail = fmt.Sprintf("format %s: repetition %d differs from the first rendering of the same profile and options\n%s\nprofile:\n%s", s.name, rep, firstDiff(first[s.name], b), harness.Trunc(p.String(), 2500))
				return res
			}
		}
	}
	// the same profile arriving from a remote source (pprof then also saves a copy): saved twice
	// with -proto, the two results are the same bytes (nothing of the moment of retrieval is in them)
	drv.IsolateEnv(c.Tmp)
	var saved [2][]byte
	for k := range saved {
		sesn := &drv.Session{Flags: &drv.Flags{Bools: map[string]bool{"proto": true, "addresses": true}, Strs: map[string]string{"output": "out", "symbolize": "none"}, Args: []string{"http://host.test/pprof/profile"}},
			Fetch: &drv.MapFetcher{Profiles: map[string]*profile.Profile{"http://host.test/pprof/profile": p}, Remote: true}}
		if rr := sesn.Run(); rr.Panic == "" && rr.Err == nil && sesn.Writer.Files["out"] != nil {
			saved[k] = sesn.Writer.Files["out"].Bytes()
		}
		c.Stat("remote_renderings", 1)
		if k == 0 {
			time.Sleep(2 * time.Millisecond)
		}
	}
	if saved[0] != nil && saved[1] != nil && !bytes.Equal(saved[0], saved[1]) {
		a, _ := profile.ParseData(saved[0])
		b, _ := profile.ParseData(saved[1])
		da, db := "", ""
		if a != nil && b != nil {
			da, db = a.String(), b.String()
		}
		res.Verdict = harness.Violated
		res.Detail = fmt.Sprintf("pprof -proto of a remotely fetched profile run twice gives different bytes\n%s", firstDiff([]byte(da), []byte(db)))
		return res
	}
	// web views: two requests to one server and one to a second server
	var pages [3]map[string]string
	urls := []string{"/top", "/flamegraph", "/top?g=lines&sort=cum", "/peek?f=.", "/source?f=f"}
	for k := 0; k < 2; k++ {
		web, err := drv.StartWeb(&drv.MapFetcher{Profiles: map[string]*profile.Profile{"p": p}}, []string{"p"}, nil, nil, nil)
		if err != nil {
			return harness.Result{Verdict: harness.Inconclusive, Detail: err.Error()}
		}
		for rep := 0; rep < 2-k; rep++ {
			m := map[string]string{}
			for _, u := range urls {
				_, body, pn := web.Get(u)
				if pn != "" {
					web.Close()
					return harness.Violation("GET %s panicked: %s", u, pn)
				}
				m[u] = body
				c.Stat("web_renderings", 1)
			}
			pages[k*2+rep] = m
		}
		web.Close()
	}
	for _, u := range urls {
		for k := 1; k < 3; k++ {
			if pages[k][u] != pages[0][u] {
				res.Verdict = harness.Violated
				res.Detail = fmt.Sprintf("GET %s: response %d differs from the first one\n%s", u, k, firstDiff([]byte(pages[0][u]), []byte(pages[k][u])))
				return res
			}
		}
	}
	return res
}

// the same command typed several times into one interactive session, with other commands
// (also failing ones) in between, prints the same bytes every time
// part bigdot: graphs beyond the default node limit. 130-260 callers reach 1-3 destinations through
// a hub; some callers also reach a destination through a rarely sampled function that the node
// cutoff removes, which leaves residual edges whose fate (dropped as redundant or kept) is decided by
// a search over the destination's ancestors.
func hubProfile(r *rand.Rand) (*profile.Profile, float64) {
	p := &profile.Profile{SampleType: []*profile.ValueType{{Type: "samples", Unit: "count"}}, PeriodType: &profile.ValueType{Type: "cpu", Unit: "ns"}, Period: 1}
	m := &profile.Mapping{ID: 1, Start: 0x1000, Limit: 0x100000, File: "/bin/prog"}
	p.Mapping = []*profile.Mapping{m}
	loc := func(name string) *profile.Location {
		f := &profile.Function{ID: uint64(len(p.Function) + 1), Name: name, SystemName: name, Filename: "x.go"}
		p.Function = append(p.Function, f)
		l := &profile.Location{ID: uint64(len(p.Location) + 1), Mapping: m, Address: 0x1000 + uint64(len(p.Location))*16, Line: []profile.Line{{Function: f, Line: 1}}}
		p.Location = append(p.Location, l)
		return l
	}
	n := 130 + r.Intn(131)
	var callers, dsts, hubs, mids []*profile.Location
	for i := 0; i < n; i++ {
		callers = append(callers, loc(fmt.Sprintf("c%d", i)))
	}
	for i, k := 0, 1+r.Intn(3); i < k; i++ {
		dsts = append(dsts, loc(fmt.Sprintf("dst%d", i)))
	}
	for i, k := 0, 1+r.Intn(2); i < k; i++ {
		hubs = append(hubs, loc(fmt.Sprintf("hub%d", i)))
	}
	for i, k := 0, 1+r.Intn(4); i < k; i++ {
		mids = append(mids, loc(fmt.Sprintf("mid%d", i)))
	}
	var total int64
	add := func(v int64, stack ...*profile.Location) {
		p.Sample = append(p.Sample, &profile.Sample{Value: []int64{v}, Location: stack})
		total += v
	}
	for _, c := range callers {
		add(20, dsts[r.Intn(len(dsts))], hubs[r.Intn(len(hubs))], c)
	}
	// each rarely sampled function stays below the cutoff: at most 8 in all (the cutoff is 12, everything else has 20 or more)
	for _, md := range mids {
		for k, left := 0, int64(5); k < 3 && left > 0; k++ {
			v := 1 + r.Int63n(left)
			left -= v
			add(v, dsts[r.Intn(len(dsts))], md, callers[r.Intn(len(callers))])
		}
	}
	// callers that reach a destination only through a removed function: their residual edge stays
	for i, k := 0, 1+r.Intn(3); i < k; i++ {
		solo := loc(fmt.Sprintf("solo%d", i))
		add(20, solo)
		add(1, dsts[r.Intn(len(dsts))], mids[i%len(mids)], solo)
	}
	r.Shuffle(len(p.Sample), func(i, j int) { p.Sample[i], p.Sample[j] = p.Sample[j], p.Sample[i] })
	return p, 12.5 / float64(total)
}

func runBigDot(c *harness.Ctx) harness.Result {
	r := c.Rng
	p, nf := hubProfile(r)
	res := harness.Result{NonTrivial: true, Sig: fmt.Sprintf("hub %d fns %d samples", len(p.Function), len(p.Sample)), Sample: map[string]any{"functions": len(p.Function), "nodefraction": nf}}
	for _, v := range []struct {
		name string
		b    map[string]bool
		n    int
	}{{"dot nodecount=0", map[string]bool{"dot": true}, 0}, {"dot nodecount=400", map[string]bool{"dot": true}, 400}, {"dot nodecount=0 call_tree", map[string]bool{"dot": true, "call_tree": true}, 0}} {
		var first string
		for rep := 0; rep < 10; rep++ {
			out, _, rr := drv.Report(map[string]*profile.Profile{"p": p}, []string{"p"}, v.b, nil, map[string]int{"nodecount": v.n}, map[string]float64{"nodefraction": nf, "edgefraction": 0}, nil)
			if rr.Panic != "" || rr.Err != nil {
				return harness.Violation("%s: %s %v", v.name, rr.Panic, rr.Err)
			}
			c.Stat("big_graph_renderings", 1)
			if rep == 0 {
				first = out
				c.Max("big_graph_nodes", int64(strings.Count(out, "id=\"node")))
				c.Stat("big_graph_dotted_edges", int64(strings.Count(out, "style=\"dotted\"")))
				continue
			}
			if out != first {
				res.Verdict = harness.Violated
				res.Detail = fmt.Sprintf("%s with nodefraction=%v over a graph of %d functions: repetition %d differs from the first rendering\n%s", v.name, nf, len(p.Function), rep, firstDiff([]byte(first), []byte(out)))
				return res
			}
		}
	}
	return res
}

// part samewrite: one profile serialized by several goroutines at once (two clients downloading
// it, a copy taken while it is written): every serialization is the bytes of a lone one.
func runSameWrite(c *harness.Ctx) harness.Result {
	r := c.Rng
	p := TieProfile(r)
	var lone, loneZ bytes.Buffer
	p.WriteUncompressed(&lone)
	p.Write(&loneZ)
	res := harness.Result{NonTrivial: true, Sig: fmt.Sprint("samewrite", gen.Shape(p)), Sample: "8 goroutines x 25 serializations of one profile"}
	var wg sync.WaitGroup
	bad := make([]string, 8)
	for g := 0; g < 8; g++ {
		wg.Add(1)
		go func(g int) {
			defer wg.Done()
			for k := 0; k < 25 && bad[g] == ""; k++ {
				var b bytes.Buffer
				switch (g + k) % 3 {
				case 0:
					p.WriteUncompressed(&b)
					if !bytes.Equal(b.Bytes(), lone.Bytes()) {
						bad[g] = fmt.Sprintf("WriteUncompressed while others serialize the same profile wrote %d bytes that differ from the %d bytes of a lone write", b.Len(), lone.Len())
					}
				case 1:
					p.Write(&b)
					if !bytes.Equal(b.Bytes(), loneZ.Bytes()) {
						bad[g] = fmt.Sprintf("Write while others serialize the same profile wrote %d bytes that differ from the %d bytes of a lone write", b.Len(), loneZ.Len())
					}
				default:
					p.Copy().WriteUncompressed(&b)
					if !bytes.Equal(b.Bytes(), lone.Bytes()) {
						bad[g] = fmt.Sprintf("a Copy taken while others serialize the same profile serializes to %d bytes that differ from the %d bytes of a lone write", b.Len(), lone.Len())
					}
				}
			}
		}(g)
	}
	wg.Wait()
	c.Stat("concurrent_serializations", 200)
	for _, b := range bad {
		if b != "" {
			res.Verdict, res.Detail = harness.Violated, b
			return res
		}
	}
	return res
}

// part reparse: parsing is a function of the bytes: a legacy document (any family; and binary CPU
// profiles of one to four samples, where pprof's signal-frame heuristic looks at every sample)
// parsed thirty times gives thirty equal profiles.
func runReparse(c *harness.Ctx) harness.Result {
	r := c.Rng
	var doc []byte
	kind := "legacy document"
	if r.Intn(2) == 0 {
		doc, kind = legacy.RandomDoc(r)
	} else {
		kind = "binary cpu profile"
		var b bytes.Buffer
		w := func(vs ...uint64) {
			for _, v := range vs {
				binary.Write(&b, binary.LittleEndian, v)
			}
		}
		w(0, 3, 0, 10000, 0)
		for i, n := 0, 1+r.Intn(4); i < n; i++ {
			depth := 2 + r.Intn(3)
			w(uint64(1+r.Intn(5)), uint64(depth))
			for j := 0; j < depth; j++ {
				w(0x400000 + uint64(r.Intn(6))*0x10)
			}
		}
		w(0, 1, 0)
		b.WriteString("00400000-00500000 r-xp 00000000 00:00 0 /bin/prog\n")
		doc = b.Bytes()
	}
	res := harness.Result{NonTrivial: true, Sig: fmt.Sprintf("reparse %s %x", kind, sha256.Sum256(doc)), Sample: kind}
	first := ""
	for k := 0; k < 30; k++ {
		p, err := profile.ParseData(doc)
		got := ""
		if err != nil {
			got = "error: " + err.Error()
		} else {
			got = p.String()
		}
		c.Stat("reparses", 1)
		if k == 0 {
			first = got
		} else if got != first {
			res.Verdict = harness.Violated
			res.Detail = fmt.Sprintf("the same %s (%d bytes) parsed again (attempt %d) gives another profile\n%s\ndocument: %q", kind, len(doc), k+1, firstDiff([]byte(first), []byte(got)), harness.Trunc(string(doc), 600))
			return res
		}
	}
	return res
}

func runSession(c *harness.Ctx) harness.Result {
	r := c.Rng
	p := TieProfile(r)
	var buf bytes.Buffer
	if err := p.WriteUncompressed(&buf); err != nil {
		return harness.Result{Verdict: harness.Inconclusive, Detail: err.Error()}
	}
	cmds := []string{"top", "top -cum", "tree", "traces", "tags", "raw", "peek .", "dot", "callgrind", "top 3", "comments", "text f", "help", "o", "help top", "options"}
	between := []string{"o", "help", "options", "list zzznomatch", "peek zzznomatch", "disasm zzznomatch", "weblist zzznomatch", "web", "svg", "top", "tags", "traces", "tree", "dot", "nosuchcommand", "top ("}
	cmd := cmds[r.Intn(len(cmds))]
	if strings.HasPrefix(cmd, "help") {
		between = []string{"o", "options", "top"} // what help lists must not depend on what was listed before
	}
	// an option set, used by a report and put back to its default between two repetitions
	excursions := [][2]string{{"source_path=/x/app", "source_path="}, {"source_path=/x/work:/y/app", "source_path="}, {"trim_path=/src", "trim_path="}, {"granularity=lines", "granularity=functions"},
		{"nodecount=2", "nodecount=-1"}, {"sort=cum", "sort=flat"}, {"divide_by=2", "divide_by=1"}, {"relative_percentages=true", "relative_percentages=false"}, {"focus=f", "focus="},
		{"call_tree=true", "call_tree=false"}, {"compact_labels=false", "compact_labels=true"}, {"unit=kb", "unit=minimum"}, {"noinlines=true", "noinlines=false"}, {"mean=true", "mean=false"}}
	var lines []string
	gran := ""
	if r.Intn(2) == 0 {
		for _, f := range p.Function {
			if f.Filename != "" {
				f.Filename = []string{"/src/work/app/", "/src/app/", "/proc/self/cwd/app/"}[r.Intn(3)] + f.Filename
			}
		}
		buf.Reset()
		p.WriteUncompressed(&buf)
		gran = []string{"granularity=lines", "granularity=files", "granularity=filefunctions"}[r.Intn(3)]
		lines = append(lines, gran)
	}
	// a third of the sessions have such an excursion before the command is typed for the first time;
	// a second fresh session without it then says what the command prints
	plain := append([]string(nil), lines...)
	lead := r.Intn(3) == 0
	if lead {
		ex := excursions[r.Intn(3)]
		if r.Intn(2) == 0 {
			ex = excursions[r.Intn(len(excursions))]
		}
		if ex[0] == "granularity=lines" {
			if gran == "" {
				ex = excursions[1] // the session's granularity is "not set": nothing to put it back to
			} else {
				ex[1] = gran
			}
		}
		lines = append(lines, ex[0], []string{"top", "tree", "dot", "traces", "list ."}[r.Intn(5)], ex[1])
	}
	plain = append(plain, cmd)
	reps := map[int]bool{len(lines): true}
	lines = append(lines, cmd)
	for k := 0; k < 3; k++ {
		if r.Intn(2) == 0 {
			ex := excursions[r.Intn(len(excursions))]
			if ex[0] == "granularity=lines" {
				if gran == "" {
					ex = excursions[1]
				} else {
					ex[1] = gran
				}
			}
			lines = append(lines, ex[0], []string{"top", "tree", "dot", "traces", "list ."}[r.Intn(5)], ex[1])
		}
		for j, n := 0, 1+r.Intn(2); j < n; j++ {
			lines = append(lines, between[r.Intn(len(between))])
		}
		reps[len(lines)] = true
		lines = append(lines, cmd)
	}
	res := harness.Result{NonTrivial: true, Sig: fmt.Sprintf("session %q %s", lines, gen.Shape(p)), Sample: map[string]any{"lines": lines}}
	sr, err := sess.Run(sess.Spec{Profile: buf.Bytes(), Mode: "interactive", Lines: lines, Dir: c.Tmp + "/s"}, 2*time.Minute)
	if err != nil {
		return harness.Result{Verdict: harness.Inconclusive, Detail: "session: " + err.Error()}
	}
	if sr.Panic != "" || len(sr.Segments) < len(lines) {
		return harness.Violation("session panicked or stopped early: %s\nlines: %q", harness.Trunc(sr.Panic, 1500), lines)
	}
	c.Stat("sessions", 1)
	text := func(seg sess.Segment) string {
		var sb strings.Builder
		sb.WriteString(seg.Stdout)
		for _, l := range seg.UIOut {
			sb.WriteString("\nOUT " + drv.NormalizeTmpNames(l))
		}
		for _, l := range seg.UIErr {
			sb.WriteString("\nERR " + drv.NormalizeTmpNames(l))
		}
		var names []string
		for n := range seg.Files {
			names = append(names, n)
		}
		sort.Strings(names)
		for _, n := range names {
			sb.WriteString("\nFILE " + drv.NormalizeTmpNames(n) + "\n" + seg.Files[n])
		}
		return sb.String()
	}
	first := ""
	if lead {
		pr, err := sess.Run(sess.Spec{Profile: buf.Bytes(), Mode: "interactive", Lines: plain, Dir: c.Tmp + "/p"}, 2*time.Minute)
		if err != nil || pr.Panic != "" || len(pr.Segments) < len(plain) {
			return harness.Result{Verdict: harness.Inconclusive, Detail: fmt.Sprintf("plain session: %v %s", err, pr.Panic)}
		}
		first = text(pr.Segments[len(plain)-1])
		c.Stat("sessions_with_leading_excursion", 1)
	}
	for i := range lines {
		if !reps[i] {
			continue
		}
		t := text(sr.Segments[i])
		c.Stat("session_repetitions", 1)
		if first == "" {
			first = t
		} else if t != first {
			res.Verdict = harness.Violated
			res.Detail = fmt.Sprintf("%q typed again as line %d of the session %q prints something else than the first time (or, as the first repetition after a leading option excursion, than in a fresh session without the excursion)\n%s", cmd, i, lines[:i+1], firstDiff([]byte(first), []byte(t)))
			return res
		}
	}
	return res
}

// cross-process: three fresh processes must agree with this one
func runXProc(c *harness.Ctx) harness.Result {
	seed := c.Rng.Int63()
	mine, e := Digests(seed)
	if e != "" {
		return harness.Violation("%s", e)
	}
	res := harness.Result{NonTrivial: true, Sig: fmt.Sprint(seed), Sample: fmt.Sprintf("tie-class profile of seed %d rendered in this process and in 3 fresh processes", seed)}
	for k := 0; k < 3; k++ {
		cmd := exec.Command(harness.Self(), "child", "c08digest", fmt.Sprint(seed))
		cmd.Env = append(os.Environ(), "HOME="+c.Tmp, "XDG_CONFIG_HOME="+c.Tmp)
		out, err := cmd.Output()
		if err != nil {
			return harness.Result{Verdict: harness.Inconclusive, Detail: fmt.Sprintf("child failed: %v", err)}
		}
		var theirs map[string]string
		if err := json.Unmarshal(out, &theirs); err != nil {
			return harness.Result{Verdict: harness.Inconclusive, Detail: "child output: " + err.Error()}
		}
		c.Stat("processes", 1)
		for name, d := range mine {
			if theirs[name] != d {
				res.Verdict = harness.Violated
				res.Detail = fmt.Sprintf("format %s differs between two processes for the same profile and options (seed %d)", name, seed)
				return res
			}
		}
	}
	return res
}

// multi-source: the completion order of the concurrent fetches must not reach the output
func runFetchOrder(c *harness.Ctx) harness.Result {
	r := c.Rng
	drv.IsolateEnv(c.Tmp)
	n := 2 + r.Intn(5)
	profs := map[string]*profile.Profile{}
	var srcs []string
	for i := 0; i < n; i++ {
		p := TieProfile(rand.New(rand.NewSource(r.Int63())))
		// make the sources differ in order-sensitive attributes: main binary, comments, drop_frames
		for _, m := range p.Mapping {
			m.File = fmt.Sprintf("/bin/prog%d", i)
			break
		}
		p.Comments = []string{fmt.Sprintf("comment %d", i), "shared"}
		name := fmt.Sprintf("src%d", i)
		profs[name] = p
		srcs = append(srcs, name)
	}
	res := harness.Result{NonTrivial: true, Sig: fmt.Sprint("fetchorder", n, c.Index), Sample: map[string]any{"sources": n}}
	for _, format := range []string{"top", "traces", "comments", "raw", "proto", "tags"} {
		var first []byte
		for k := 0; k < 4; k++ {
			g := c16.NewGate(srcs)
			g.Profiles, g.Kind = profs, map[string]string{}
			g.Drive([][]string{srcs, nil}, int64(k)*977+int64(c.Index))
			s := &drv.Session{Flags: &drv.Flags{Bools: map[string]bool{format: true, "functions": true, "flat": true}, Strs: map[string]string{"output": "out", "symbolize": "none"}, Args: srcs}, Fetch: g}
			rr := s.Run()
			g.Stop()
			if rr.Panic != "" || rr.Err != nil {
				return harness.Violation("multi-source -%s failed: %v %s", format, rr.Err, rr.Panic)
			}
			b := s.Writer.Files["out"].Bytes()
			if len(b) > 2 && b[0] == 0x1f && b[1] == 0x8b {
				if zr, err := gzip.NewReader(bytes.NewReader(b)); err == nil {
					b, _ = io.ReadAll(zr)
				}
			}
			c.Stat("fetch_order_renderings", 1)
			if k == 0 {
				first = append([]byte(nil), b...)
			} else if !bytes.Equal(first, b) {
				res.Verdict = harness.Violated
				res.Detail = fmt.Sprintf("-%s of %d sources differs between two completion orders of the concurrent fetches\n%s", format, n, firstDiff(first, b))
				return res
			}
		}
	}
	return res
}

func init() {
	harness.Children["c08digest"] = func(args []string) int {
		seed, _ := strconv.ParseInt(args[0], 10, 64)
		d, e := Digests(seed)
		if e != "" {
			fmt.Fprintln(os.Stderr, e)
			return 1
		}
		b, _ := json.Marshal(d)
		os.Stdout.Write(b)
		return 0
	}
	harness.Register(&harness.Check{
		ID:          "C08",
		Level:       "exploration",
		Rule:        "part orderlaws: tie-rich element sets of 3..6 distinct elements (values in {0,+-1,+-2,+-5}, equal names at different addresses/files/binaries) - EVERY permutation (6..720) is sorted by SortTags (flat, cum) and Nodes.Sort (7 orders incl. entropy with random edges); EdgeMap.Sort is repeated 60x (its input order is a map); the result sequence must be unique (sort.Sort is an insertion sort at these sizes, so any pair the comparator leaves unordered yields two results). part e2e: tie-class profiles (values -2..2, +/- cancelling diff shapes, equal names in several files, duplicate label values, comments and header fields, twin locations at one address with different line information) x 32 format/option combinations (top, tree, peek, dot, dot+call_tree, callgrind(+call_tree), tags, traces, raw, proto (gunzipped), topproto, tagroot/tagleaf; with and without nodecount; list (source files absent: routine headers and per-file errors), disasm through a fake object tool whose instructions carry no line information; proto/raw under show_from, focus+hide, prune_from, tagfocus+taghide; proto/raw/top with -symbolize=local through the real symbolizer over a fake object tool that names every address) rendered 8x in one process (fresh map seeds each time) plus web /top /flamegraph /peek /source on two servers; all byte strings (report bytes plus the messages printed for the user, e.g. unit warnings) equal. part xproc: the same renderings, and the data behind the flame graph view (Report.Stacks as JSON, colours included), in 3 fresh processes. part session: one command typed four times into a fresh interactive session with 1-2 other commands (succeeding and failing) in between, and in half of the gaps an option (source_path, trim_path, granularity, nodecount, sort, divide_by, focus, unit, ...) that is set, used by a report and put back to its default; half of the sessions run at a file-bearing granularity over file names that trim_path/source_path rewrite; a third of the sessions have such an excursion before the first repetition, whose answer is then compared with a second fresh session without it; all four answers equal. part bigdot: graphs of 130-260 callers reaching 1-3 destinations through 1-2 hubs, some also through rarely sampled functions that a node cutoff removes (residual edges whose redundancy is decided by a search over the destination's many ancestors), rendered as dot (nodecount 0, 400; call_tree) 10x each; bytes equal. part fetchorder: 2-6 sources differing in main binary and comments fetched through the gated fetcher under 4 forced completion orders x 6 formats; bytes must be equal. part samewrite: one profile serialized by 8 goroutines x 25 times at once (Write, WriteUncompressed, Copy + WriteUncompressed); every result equals that of a lone call. part reparse: legacy documents (random text documents, binary cpu profiles of 1-4 samples) parsed thirty times; all results serialize to the same bytes. The e2e part also fetches a remote profile without a time stamp twice and compares the saved copies. non-trivial = every case; distinct = element set / profile shape",
		Assumptions: []string{"elements of one sort call have distinct identities (names of tags within a node, NodeInfo of nodes in a graph), as in pprof's own data structures", "schedule coverage = map-iteration seeds of repeated runs and fresh processes, plus forced fetch completion orders (more of them in C16)"},
		Parts: []harness.Part{
			{Name: "orderlaws", Quick: 3000, Thor: 100000, Run: runOrderLaws},
			{Name: "e2e", Quick: 1500, Thor: 30000, Run: runE2E},
			{Name: "xproc", Quick: 16, Thor: 1500, Run: runXProc},
			{Name: "session", Quick: 150, Thor: 5000, Run: runSession},
			{Name: "fetchorder", Quick: 100, Thor: 5000, Run: runFetchOrder},
			{Name: "bigdot", Quick: 60, Thor: 3000, Run: runBigDot},
			{Name: "samewrite", Quick: 60, Thor: 3000, Run: runSameWrite},
			{Name: "reparse", Quick: 400, Thor: 20000, Run: runReparse},
		},
		MinNonTrivial: func(string) int { return 300 },
	})
}
