// Package c11 monitors the frame-dropping rules (Prune, RemoveUninteresting, PruneFrom)
// against a frame-level reference that follows the property statement literally.
package c11

import (
	"fmt"
	"math/rand"
	"regexp"
	"strings"

	"github.com/google/pprof/profile"
	"github.com/google/pprof/verif/internal/drv"
	"github.com/google/pprof/verif/internal/harness"
	"github.com/google/pprof/verif/internal/mon"
)

// KnownPruneMixed is the known finding: Prune works per location. A location that mixes matching
// and non-matching lines and lies on the root side of the sample's first location without any
// matching line has its matching line (and the lines leafward of it inside the location) removed,
// while the sample's leaf side is kept. Pinned by internal/driver TestParse goldens.
const KnownPruneMixed = "C11-prune-mixed-location-before-first-user-location"

// RefSimplify re-implements the documented name simplification: strip a leading '.', cut the
// argument list at the first '(' that is not part of "(anonymous namespace)" or "operator()".
func RefSimplify(f string) string {
	f = strings.TrimPrefix(f, ".")
	for i := 0; i < len(f); {
		switch {
		case strings.HasPrefix(f[i:], "(anonymous namespace)"):
			i += len("(anonymous namespace)")
		case strings.HasPrefix(f[i:], "operator()"):
			i += len("operator()")
		case f[i] == '(':
			return f[:i]
		default:
			i++
		}
	}
	return f
}

type frame struct {
	name string // "" for unsymbolized / unnamed
	addr uint64
	pos  int // line index inside the location
	loc  int // location index inside the sample (leaf = 0)
	sym  bool
}

func (f frame) String() string {
	if !f.sym {
		return fmt.Sprintf("?@%x", f.addr)
	}
	return fmt.Sprintf("%q@%x", f.name, f.addr)
}

// frames root -> leaf
func framesOf(s *profile.Sample) []frame {
	var out []frame
	for i := len(s.Location) - 1; i >= 0; i-- {
		l := s.Location[i]
		if len(l.Line) == 0 {
			out = append(out, frame{addr: l.Address, loc: i})
			continue
		}
		for j := len(l.Line) - 1; j >= 0; j-- {
			out = append(out, frame{name: l.Line[j].Function.Name, addr: l.Address, pos: j, loc: i, sym: true})
		}
	}
	return out
}

func fstr(fs []frame) string {
	var p []string
	for _, f := range fs {
		p = append(p, f.String())
	}
	return "[" + strings.Join(p, " ") + "]"
}

func matches(f frame, drop, keep *regexp.Regexp) bool {
	if !f.sym || f.name == "" {
		return false
	}
	n := RefSimplify(f.name)
	return drop.MatchString(n) && (keep == nil || !keep.MatchString(n))
}

// refPrune: scan root->leaf, skip until one non-matching frame was seen, remove the first matching
// frame after that together with everything leafward.
func refPrune(fs []frame, drop, keep *regexp.Regexp) []frame {
	seenUser := false
	for i, f := range fs {
		if !matches(f, drop, keep) {
			seenUser = true
			continue
		}
		if seenUser {
			return fs[:i]
		}
	}
	return fs
}

// devPrune is the deviation model of the known finding: pprof's location-level scan.
func devPrune(s *profile.Sample, drop, keep *regexp.Regexp) []frame {
	type cls struct {
		whole, beneath bool
		cut            int // lines [cut:] are kept for beneath locations
	}
	classify := func(l *profile.Location) cls {
		for i := len(l.Line) - 1; i >= 0; i-- {
			if matches(frame{name: l.Line[i].Function.Name, sym: true}, drop, keep) {
				if i == len(l.Line)-1 {
					return cls{whole: true}
				}
				return cls{beneath: true, cut: i + 1}
			}
		}
		return cls{}
	}
	emit := func(out []frame, l *profile.Location, li, from int) []frame {
		if len(l.Line) == 0 {
			return append(out, frame{addr: l.Address, loc: li})
		}
		for j := len(l.Line) - 1; j >= from; j-- {
			out = append(out, frame{name: l.Line[j].Function.Name, addr: l.Address, pos: j, loc: li, sym: true})
		}
		return out
	}
	var out []frame
	foundUser := false
	for i := len(s.Location) - 1; i >= 0; i-- {
		l := s.Location[i]
		c := classify(l)
		if !c.whole && !c.beneath {
			foundUser = true
			out = emit(out, l, i, 0)
			continue
		}
		if !foundUser {
			out = emit(out, l, i, c.cut) // beneath locations are trimmed globally even here
			continue
		}
		if c.whole {
			return out
		}
		return emit(out, l, i, c.cut)
	}
	return out
}

// inClass: scanning locations root->leaf, before the first location without any matching line
// there is a location that has both matching and non-matching lines.
func inClass(s *profile.Sample, drop, keep *regexp.Regexp) bool {
	for i := len(s.Location) - 1; i >= 0; i-- {
		l := s.Location[i]
		nm, nu := 0, 0
		if len(l.Line) == 0 {
			nu = 1
		}
		for _, ln := range l.Line {
			if matches(frame{name: ln.Function.Name, sym: true}, drop, keep) {
				nm++
			} else {
				nu++
			}
		}
		if nm == 0 {
			return false
		}
		if nu > 0 {
			return true
		}
	}
	return false
}

var nameSets = [][]string{
	{"user1", "user2", "drop1", "drop2", "dropkeep", ""},
	{"ns::user(int)", "drop1(char*)", "(anonymous namespace)::drop2()", "dropkeep::operator()(int)", ".drop1", "operator()", "user(drop1)"},
}

var exprs = [][2]string{
	{"drop.*", "dropkeep"},
	{"drop.*", ""},
	{"drop1|.*namespace.::drop2", "dropkeep.*"},
	{".*", "user.*"},
	{"nomatch", ""},
	{"drop1", "drop1"},
	{"dropkeep::operator\\(\\)|drop.*", ""},
	{"drop(1|2|keep)", ""},
	{"(drop1|user9|drop2)|nomatch", "drop(0|1|3)"},
	{"dr[o|p]+(1|2|3)", ""},
}

func genProfile(r *rand.Rand) *profile.Profile {
	names := nameSets[r.Intn(len(nameSets))]
	var fns []*profile.Function
	for i, n := range names {
		fns = append(fns, &profile.Function{ID: uint64(i + 1), Name: n, SystemName: n})
	}
	nl := 2 + r.Intn(6)
	var locs []*profile.Location
	// ids are distinct but neither dense nor ordered (values just above the table size included)
	lid := r.Perm(2*nl + 1)
	if r.Intn(4) == 0 {
		// ids of a profile that once had many more locations: any values up to a few hundred
		for i := range lid {
			lid[i] = []int{lid[i], 31 + lid[i], 32*lid[i] + 1, 61 + 31*lid[i]}[r.Intn(4)]
		}
		seenID := map[int]bool{}
		for i := range lid {
			for seenID[lid[i]] {
				lid[i]++
			}
			seenID[lid[i]] = true
		}
	}
	arith := nl >= 3 && r.Intn(8) == 0
	if arith {
		// ids 1, 2 and 32: two stacks of equal depth over them, (1 32) and (2 1), agree in every
		// simple positional checksum
		lid[0], lid[1], lid[2] = 0, 1, 31
		for i := 3; i < nl; i++ {
			lid[i] = 40 + i
		}
	}
	for i := 0; i < nl; i++ {
		l := &profile.Location{ID: uint64(lid[i] + 1), Address: uint64(0x1000 + i)}
		for j, n := 0, r.Intn(4); j < n; j++ {
			l.Line = append(l.Line, profile.Line{Function: fns[r.Intn(len(fns))], Line: int64(j)})
		}
		locs = append(locs, l)
	}
	p := &profile.Profile{SampleType: []*profile.ValueType{{Type: "n", Unit: "count"}, {Type: "t", Unit: "ms"}}, Function: fns, Location: locs}
	for i, n := 0, 1+r.Intn(6); i < n; i++ {
		s := &profile.Sample{Value: []int64{int64(i + 1), int64(r.Intn(7) - 3)}}
		for j, d := 0, r.Intn(6); j < d; j++ {
			s.Location = append(s.Location, locs[r.Intn(nl)])
		}
		if len(p.Sample) > 0 && r.Intn(4) == 0 {
			// profiles built in memory may hand the same stack slice (or a tail of it) to several samples
			o := p.Sample[r.Intn(len(p.Sample))].Location
			s.Location = o[r.Intn(len(o)+1):]
		}
		if r.Intn(3) == 0 {
			s.Label = map[string][]string{"k": {"v"}}
		}
		if r.Intn(4) == 0 {
			s.NumLabel = map[string][]int64{"bytes": {int64(r.Intn(100))}}
		}
		p.Sample = append(p.Sample, s)
	}
	if arith {
		p.Sample = append(p.Sample, &profile.Sample{Value: []int64{7, 1}, Location: []*profile.Location{locs[0], locs[2]}}, &profile.Sample{Value: []int64{8, 1}, Location: []*profile.Location{locs[1], locs[0]}})
	}
	return p
}

func meta(p *profile.Profile) []string {
	var out []string
	for _, s := range p.Sample {
		out = append(out, fmt.Sprintf("%v %v %v %v", s.Value, s.Label, s.NumLabel, s.NumUnit))
	}
	return out
}

func runPrune(c *harness.Ctx) harness.Result {
	r := c.Rng
	p := genProfile(r)
	e := exprs[r.Intn(len(exprs))]
	viaHeader := r.Intn(2) == 0
	drop := regexp.MustCompile("^(" + e[0] + ")$")
	var keep *regexp.Regexp
	if e[1] != "" {
		keep = regexp.MustCompile("^(" + e[1] + ")$")
	}
	var want, dev [][]frame
	var cls []bool
	var orig [][]frame
	for _, s := range p.Sample {
		fs := framesOf(s)
		orig = append(orig, fs)
		want = append(want, refPrune(fs, drop, keep))
		dev = append(dev, devPrune(s, drop, keep))
		cls = append(cls, inClass(s, drop, keep))
	}
	metaBefore := meta(p)
	desc := p.String()
	if viaHeader {
		p.DropFrames, p.KeepFrames = e[0], e[1]
		if err := p.RemoveUninteresting(); err != nil {
			return harness.Violation("RemoveUninteresting failed on valid expressions %q: %v", e, err)
		}
	} else {
		p.Prune(drop, keep)
	}
	res := harness.Result{NonTrivial: true, Sig: fmt.Sprintf("%v %d", e, len(desc))}
	var firstSample string
	if len(orig) > 0 {
		firstSample = fstr(orig[0])
	}
	res.Sample = map[string]any{"drop": e[0], "keep": e[1], "via_header": viaHeader, "first_sample_frames_root_to_leaf": firstSample}
	if err := mon.Valid(p); err != nil {
		return harness.Violation("profile invalid after Prune: %v", err)
	}
	if got := meta(p); fmt.Sprint(got) != fmt.Sprint(metaBefore) {
		return harness.Violation("Prune changed the number of samples, their values or labels:\nbefore %v\nafter  %v", metaBefore, got)
	}
	known := ""
	for i, s := range p.Sample {
		got := framesOf(s)
		c.Stat("samples", 1)
		if len(got) != len(orig[i]) {
			c.Stat("samples_cut", 1)
		}
		if len(orig[i]) > 0 && len(got) == 0 {
			return harness.Violation("sample %d had frames %s and became empty (drop=%q keep=%q)", i, fstr(orig[i]), e[0], e[1])
		}
		if fstr(got) == fstr(want[i]) {
			continue
		}
		if cls[i] && fstr(got) == fstr(dev[i]) {
			c.Stat("known_class_samples", 1)
			if known == "" {
				known = fmt.Sprintf("drop=%q keep=%q frames(root->leaf) %s -> %s; the statement gives %s", e[0], e[1], fstr(orig[i]), fstr(got), fstr(want[i]))
			}
			continue
		}
		res.Verdict = harness.Violated
		res.Detail = fmt.Sprintf("sample %d, drop=%q keep=%q: frames(root->leaf) %s became %s, expected %s (known-finding class=%v, deviation model gives %s)\nprofile before:\n%s", i, e[0], e[1], fstr(orig[i]), fstr(got), fstr(want[i]), cls[i], fstr(dev[i]), harness.Trunc(desc, 2500))
		return res
	}
	if known != "" {
		res.Verdict, res.KnownID, res.Detail = harness.Known, KnownPruneMixed, known
	}
	return res
}

func runUntouched(c *harness.Ctx) harness.Result {
	p := genProfile(c.Rng)
	before := mon.Fingerprint(p)
	if err := p.RemoveUninteresting(); err != nil {
		return harness.Violation("RemoveUninteresting without expressions failed: %v", err)
	}
	res := harness.Result{NonTrivial: true, Sig: fmt.Sprint(len(before)), Sample: "RemoveUninteresting on a profile without drop/keep expressions"}
	if mon.Fingerprint(p) != before {
		res.Verdict, res.Detail = harness.Violated, "a profile without drop_frames/keep_frames was modified by RemoveUninteresting"
	}
	// keep_frames alone must not do anything either
	p.KeepFrames = "user.*"
	p.RemoveUninteresting()
	p.KeepFrames = ""
	if mon.Fingerprint(p) != before {
		res.Verdict, res.Detail = harness.Violated, "a profile with only keep_frames was modified by RemoveUninteresting"
	}
	// invalid expression: error, untouched
	p.DropFrames = "("
	if err := p.RemoveUninteresting(); err == nil {
		res.Verdict, res.Detail = harness.Violated, "invalid drop_frames expression not reported"
	}
	p.DropFrames = ""
	if mon.Fingerprint(p) != before {
		res.Verdict, res.Detail = harness.Violated, "profile modified although drop_frames was invalid"
	}
	return res
}

// refPruneFrom: keep the leafmost matching frame and everything rootward of it.
func refPruneFrom(fs []frame, rx *regexp.Regexp) []frame {
	for i := len(fs) - 1; i >= 0; i-- {
		if matches(fs[i], rx, nil) {
			return fs[:i+1]
		}
	}
	return fs
}

func runPruneFrom(c *harness.Ctx) harness.Result {
	r := c.Rng
	p := genProfile(r)
	e := exprs[r.Intn(len(exprs))][0]
	rx := regexp.MustCompile("^(" + e + ")$")
	var want, orig [][]frame
	for _, s := range p.Sample {
		fs := framesOf(s)
		orig = append(orig, fs)
		want = append(want, refPruneFrom(fs, rx))
	}
	metaBefore := meta(p)
	desc := p.String()
	p.PruneFrom(rx)
	res := harness.Result{NonTrivial: true, Sig: fmt.Sprintf("pf %s %d", e, len(desc)), Sample: map[string]any{"prune_from": e, "profile": harness.Trunc(desc, 400)}}
	if err := mon.Valid(p); err != nil {
		return harness.Violation("profile invalid after PruneFrom(%q): %v\n%s", e, err, desc)
	}
	if got := meta(p); fmt.Sprint(got) != fmt.Sprint(metaBefore) {
		return harness.Violation("PruneFrom changed the number of samples, their values or labels")
	}
	for i, s := range p.Sample {
		got := framesOf(s)
		c.Stat("samples", 1)
		if len(got) != len(orig[i]) {
			c.Stat("samples_cut", 1)
		}
		if fstr(got) != fstr(want[i]) {
			res.Verdict = harness.Violated
			res.Detail = fmt.Sprintf("PruneFrom(%q) sample %d: frames(root->leaf) %s became %s, expected %s\nprofile before:\n%s", e, i, fstr(orig[i]), fstr(got), fstr(want[i]), harness.Trunc(desc, 2500))
			return res
		}
	}
	return res
}

// through the driver: profile-embedded drop/keep expressions are applied when the profile is
// fetched, -prune_from when a report is made
func runDriver(c *harness.Ctx) harness.Result {
	r := c.Rng
	p := genProfile(r)
	for i, s := range p.Sample {
		if s.Label == nil {
			s.Label = map[string][]string{}
		}
		s.Label["id"] = []string{fmt.Sprint(i)}
	}
	// a single source is not merged: a sample recorded twice stays two samples, and a sample whose
	// values are all zero stays
	injected := false
	if r.Intn(3) == 0 && len(p.Sample) > 0 {
		injected = true
		src := p.Sample[r.Intn(len(p.Sample))]
		dup := &profile.Sample{Value: append([]int64(nil), src.Value...), Location: src.Location, Label: src.Label, NumLabel: src.NumLabel, NumUnit: src.NumUnit}
		if r.Intn(2) == 0 {
			dup.Label = map[string][]string{"id": {fmt.Sprint(len(p.Sample))}}
			for i := range dup.Value {
				dup.Value[i] = 0
			}
		}
		p.Sample = append(p.Sample, dup)
	}
	e := exprs[r.Intn(len(exprs))]
	pf := ""
	if r.Intn(2) == 0 {
		pf = exprs[r.Intn(len(exprs))][0]
	}
	p.DropFrames, p.KeepFrames = e[0], e[1]
	drop := regexp.MustCompile("^(" + e[0] + ")$")
	var keep *regexp.Regexp
	if e[1] != "" {
		keep = regexp.MustCompile("^(" + e[1] + ")$")
	}
	type exp struct {
		frames        string
		known         bool
		dev           string
		gone, devGone bool // removed by the name filter (which sees the stack before prune_from cuts it)
	}
	// a name filter next to prune_from: it is applied to the stacks as drop_frames left them
	nameOpt, nameRx := "", ""
	if pf != "" && r.Intn(2) == 0 {
		nameOpt = []string{"focus", "ignore"}[r.Intn(2)]
		nameRx = []string{"user1", "drop2", "user", "keep", "drop1", "operator"}[r.Intn(6)]
	}
	filtered := func(fs []frame) bool {
		if nameOpt == "" {
			return false
		}
		rx := regexp.MustCompile(nameRx)
		hit := false
		for _, f := range fs {
			if f.sym && rx.MatchString(f.name) {
				hit = true
			}
		}
		return hit == (nameOpt == "ignore")
	}
	want := map[string]exp{}
	for _, s := range p.Sample {
		fs := refPrune(framesOf(s), drop, keep)
		dv := devPrune(s, drop, keep)
		x := exp{known: inClass(s, drop, keep)}
		x.gone, x.devGone = filtered(fs), filtered(dv)
		if pf != "" {
			rx := regexp.MustCompile(pf)
			fs = refPruneFrom(fs, rx)
			dv = refPruneFrom(dv, rx)
		}
		x.frames, x.dev = fstr(fs), fstr(dv)
		want[s.Label["id"][0]] = x
	}
	desc := fmt.Sprintf("drop_frames=%q keep_frames=%q prune_from=%q", e[0], e[1], pf)
	if nameOpt != "" {
		desc += fmt.Sprintf(" %s=%q", nameOpt, nameRx)
		c.Stat("driver_runs_with_name_filter", 1)
	}
	res := harness.Result{NonTrivial: true, Sig: desc + fmt.Sprint(len(p.Sample), c.Index), Sample: map[string]any{"options": desc}}
	profs, srcs, extra := map[string]*profile.Profile{"p": p}, []string{"p"}, 0
	if !injected && r.Intn(3) == 0 {
		// a second source with rules of its own: the rules of the first source listed apply
		o := exprs[r.Intn(len(exprs))]
		p2 := &profile.Profile{DropFrames: o[0], KeepFrames: o[1], Sample: []*profile.Sample{{Value: make([]int64, len(p.SampleType)), Label: map[string][]string{"id": {"x"}}}}}
		if r.Intn(2) == 0 {
			p2.KeepFrames = ".*"
		}
		for _, st := range p.SampleType {
			p2.SampleType = append(p2.SampleType, &profile.ValueType{Type: st.Type, Unit: st.Unit})
		}
		p2.Sample[0].Value[0] = 1
		profs["p2"], srcs, extra = p2, []string{"p", "p2"}, 1
		desc += fmt.Sprintf(" + second source with drop_frames=%q keep_frames=%q", p2.DropFrames, p2.KeepFrames)
		c.Stat("driver_runs_two_sources", 1)
	}
	opts := map[string]string{"prune_from": pf}
	if nameOpt != "" {
		opts[nameOpt] = nameRx
	}
	out, ui, rr := drv.Report(profs, srcs, map[string]bool{"proto": true, "addresses": true}, opts, nil, nil, nil)
	if rr.Panic != "" {
		return harness.Violation("%s: panic %s", desc, rr.Panic)
	}
	if rr.Err != nil {
		return harness.Violation("%s: pprof -proto failed: %v %v", desc, rr.Err, ui.Errs)
	}
	got, err := profile.ParseData([]byte(out))
	if err != nil {
		return harness.Violation("%s: output unparseable: %v", desc, err)
	}
	c.Stat("driver_runs", 1)
	if nameOpt == "" && len(got.Sample) != len(p.Sample)+extra {
		res.Verdict, res.Detail = harness.Violated, fmt.Sprintf("%s: %d samples in, %d out", desc, len(p.Sample)+extra, len(got.Sample))
		return res
	}
	known := ""
	present := map[string]bool{}
	for _, s := range got.Sample {
		if v := s.Label["id"]; len(v) == 1 {
			present[v[0]] = true
		}
	}
	for id, w := range want {
		switch {
		case nameOpt == "" || present[id] == !w.gone:
		case w.known && present[id] == !w.devGone:
			known = fmt.Sprintf("%s (through the driver): sample %s present=%v; the statement gives present=%v", desc, id, present[id], !w.gone)
		default:
			res.Verdict = harness.Violated
			res.Detail = fmt.Sprintf("%s: sample %s present in the output: %v; the name filter applied to the stack that drop_frames leaves (before prune_from cuts it) gives present=%v\nprofile:\n%s", desc, id, present[id], !w.gone, harness.Trunc(p.String(), 2500))
			return res
		}
	}
	for _, s := range got.Sample {
		id := ""
		if v := s.Label["id"]; len(v) == 1 {
			id = v[0]
		}
		if id == "x" && extra == 1 {
			continue
		}
		w, ok := want[id]
		if !ok {
			return harness.Violation("%s: sample lost its labels: %v", desc, s.Label)
		}
		g := fstr(framesOf(s))
		if g == w.frames {
			continue
		}
		if w.known && g == w.dev {
			known = fmt.Sprintf("%s (through the driver): sample %s became %s; the statement gives %s", desc, id, g, w.frames)
			continue
		}
		res.Verdict = harness.Violated
		res.Detail = fmt.Sprintf("%s: sample %s frames(root->leaf) %s, expected %s\nprofile:\n%s", desc, id, g, w.frames, harness.Trunc(p.String(), 2500))
		return res
	}
	if known != "" {
		res.Verdict, res.KnownID, res.Detail = harness.Known, KnownPruneMixed, known
	}
	return res
}

func runSimplify(c *harness.Ctx) harness.Result {
	// the simplification itself is observable through Prune on a single-frame-after-user sample
	r := c.Rng
	parts := []string{"f", "(anonymous namespace)", "::", "operator()", "(", ")", "int", ".", "g<T>", " ", "drop"}
	var sb strings.Builder
	for i, n := 0, 1+r.Intn(6); i < n; i++ {
		sb.WriteString(parts[r.Intn(len(parts))])
	}
	name := sb.String()
	simp := RefSimplify(name)
	fnU := &profile.Function{ID: 1, Name: "user", SystemName: "user"}
	fnX := &profile.Function{ID: 2, Name: name, SystemName: name}
	lu := &profile.Location{ID: 1, Address: 1, Line: []profile.Line{{Function: fnU}}}
	lx := &profile.Location{ID: 2, Address: 2, Line: []profile.Line{{Function: fnX}}}
	p := &profile.Profile{SampleType: []*profile.ValueType{{Type: "n", Unit: "count"}}, Function: []*profile.Function{fnU, fnX}, Location: []*profile.Location{lu, lx},
		Sample: []*profile.Sample{{Value: []int64{1}, Location: []*profile.Location{lx, lu}}}}
	rx := regexp.MustCompile("^(" + regexp.QuoteMeta(simp) + ")$")
	p.Prune(rx, nil)
	res := harness.Result{NonTrivial: name != simp, Sig: name, Sample: fmt.Sprintf("name %q simplifies to %q", name, simp)}
	wantCut := name != ""
	gotCut := len(p.Sample[0].Location) == 1
	if simp == "user" {
		// the root frame matches as well; nothing before it is a user frame, so the leaf is cut after 'user'... skip this degenerate name
		return harness.Result{Sig: name}
	}
	if gotCut != wantCut {
		res.Verdict, res.Detail = harness.Violated, fmt.Sprintf("frame named %q (simplified %q) vs drop expression ^(%s)$: cut=%v, expected cut=%v", name, simp, regexp.QuoteMeta(simp), gotCut, wantCut)
	}
	return res
}

func init() {
	harness.Register(&harness.Check{
		ID:    "C11",
		Level: "exploration",
		Rule: "generated profiles with 0..3 inline lines per location (match at every line position), location ids distinct but neither dense nor ordered (values just above the table size included), locations shared between samples as cut point / rootward / leafward, matches at root and leaf, keep overrides, unnamed and unsymbolized frames, C++ names needing simplification; 7 drop/keep expression pairs; through Prune, RemoveUninteresting (profile-embedded expressions) and PruneFrom, and through the real driver (profile-embedded drop_frames/keep_frames applied at fetch, -prune_from at report time, observed with -proto). " +
			"oracle: frame-level reference written from the statement; sample count, values, labels unchanged; never empties a sample; no expressions => fingerprint unchanged. Deviation of the listed known finding is accepted only inside its input class and only if the output equals the deviation model. non-trivial = every case; distinct = (expressions, profile text length)",
		Assumptions: []string{"a frame without function name never matches", "within a location Line[0] is the leaf-most inlined frame"},
		Parts: []harness.Part{
			{Name: "prune", Quick: 8000, Thor: 400000, Run: runPrune},
			{Name: "prunefrom", Quick: 5000, Thor: 250000, Run: runPruneFrom},
			{Name: "untouched", Quick: 500, Thor: 20000, Run: runUntouched},
			{Name: "simplify", Quick: 2000, Thor: 100000, Run: runSimplify},
			{Name: "driver", Quick: 3000, Thor: 100000, Run: runDriver},
		},
		MinNonTrivial: func(string) int { return 1000 },
	})
}
