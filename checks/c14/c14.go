// Package c14 monitors the conversion of legacy text and binary profiles.
package c14

import (
	"bytes"

	"github.com/google/pprof/verif/internal/ref"
	"os"
	"path/filepath"

	"fmt"
	"github.com/google/pprof/verif/internal/drv"
	"math/rand"

	"github.com/google/pprof/profile"
	"github.com/google/pprof/verif/internal/harness"
	"github.com/google/pprof/verif/internal/legacy"
	"github.com/google/pprof/verif/internal/mon"
)

func run(printer func(*rand.Rand) *legacy.Doc) func(c *harness.Ctx) harness.Result {
	return func(c *harness.Ctx) harness.Result {
		d := printer(c.Rng)
		res := harness.Result{NonTrivial: d.Records > 0, Sig: fmt.Sprintf("%s n=%d %x", d.Kind, d.Records, fnv(d.Bytes)), Sample: map[string]any{"kind": d.Kind, "document": harness.Trunc(fmt.Sprintf("%q", d.Bytes), 500)}}
		for _, f := range d.Features {
			c.Stat("feature."+f, 1)
		}
		c.Stat("records", int64(d.Records))
		p, err := profile.ParseData(d.Bytes)
		if err != nil {
			res.Verdict = harness.Violated
			res.Detail = fmt.Sprintf("well-formed %s document rejected: %v\n%q", d.Kind, err, d.Bytes)
			return res
		}
		if err := mon.Valid(p); err != nil {
			res.Verdict = harness.Violated
			res.Detail = fmt.Sprintf("%s document parsed to an invalid profile: %v\n%q", d.Kind, err, d.Bytes)
			return res
		}
		if msg := d.Check(p); msg != "" {
			res.Verdict = harness.Violated
			res.Detail = fmt.Sprintf("%s: %s\ndocument: %q", d.Kind, msg, d.Bytes)
		}
		return res
	}
}

// the same documents opened by the real driver: pprof -proto <file> must carry what the parser
// produced (same expectations), and -raw / -traces must work on it
func runDriver(c *harness.Ctx) harness.Result {
	d := legacy.Random(c.Rng)
	res := harness.Result{NonTrivial: d.Records > 0, Sig: fmt.Sprintf("driver %s n=%d %x", d.Kind, d.Records, fnv(d.Bytes)), Sample: map[string]any{"kind": d.Kind, "via": "pprof -proto <file>"}}
	drv.IsolateEnv(c.Tmp)
	path := filepath.Join(c.Tmp, "legacy.prof")
	if err := os.WriteFile(path, d.Bytes, 0o644); err != nil {
		return harness.Result{Verdict: harness.Inconclusive, Detail: err.Error()}
	}
	render := func(format string) (string, string) {
		s := &drv.Session{Flags: &drv.Flags{Bools: map[string]bool{format: true, "addresses": true, "flat": true}, Strs: map[string]string{"output": "out", "symbolize": "none"}, Args: []string{path}}}
		rr := s.Run()
		if rr.Panic != "" {
			return "", "panic: " + rr.Panic
		}
		if rr.Err != nil {
			return "", fmt.Sprintf("error: %v %v", rr.Err, s.UI.Errs)
		}
		if bf := s.Writer.Files["out"]; bf != nil {
			return bf.String(), ""
		}
		return "", "no output"
	}
	out, e := render("proto")
	c.Stat("driver_runs", 1)
	if e != "" {
		res.Verdict, res.Detail = harness.Violated, fmt.Sprintf("pprof -proto on a well-formed %s document: %s\n%q", d.Kind, e, d.Bytes)
		return res
	}
	q, err := profile.ParseData([]byte(out))
	if err != nil {
		return harness.Violation("pprof -proto output of a %s document is not a profile: %v", d.Kind, err)
	}
	// reference: what the parser makes of the document (checked against the documented values by
	// the other parts), after one codec round trip (proto3 cannot carry a numeric label 0 without unit)
	p0, err := profile.ParseData(d.Bytes)
	if err != nil {
		return res // reported by the family's own part
	}
	var b0 bytes.Buffer
	p0.WriteUncompressed(&b0)
	p1, err := profile.ParseUncompressed(b0.Bytes())
	if err != nil {
		return res
	}
	line := func(p *profile.Profile) []string {
		var out []string
		for _, rec := range ref.View(p) {
			out = append(out, fmt.Sprintf("%v %s || %s", rec.Values, rec.StackKey(), rec.LabelKey()))
		}
		return out
	}
	hdr := func(p *profile.Profile) string {
		pt := ""
		if p.PeriodType != nil {
			pt = p.PeriodType.Type + "/" + p.PeriodType.Unit
		}
		var st []string
		for _, t := range p.SampleType {
			st = append(st, t.Type+"/"+t.Unit)
		}
		return fmt.Sprintf("types=%v period=%d %s", st, p.Period, pt)
	}
	if len(p1.Mapping) == 0 {
		// documented: a profile without mappings gets one fake mapping covering everything
		for _, l := range q.Location {
			l.Mapping = nil
		}
	}
	want, got := line(p1), line(q)
	if hdr(p1) != hdr(q) || fmt.Sprint(want) != fmt.Sprint(got) {
		res.Verdict = harness.Violated
		res.Detail = fmt.Sprintf("%s opened by the driver and saved with -proto differs from what the parser returns\n got: %s %q\nwant: %s %q\ndocument: %q", d.Kind, hdr(q), harness.Trunc(fmt.Sprint(got), 1500), hdr(p1), harness.Trunc(fmt.Sprint(want), 1500), d.Bytes)
		return res
	}
	for _, f := range []string{"raw", "traces"} {
		if _, e := render(f); e != "" {
			res.Verdict, res.Detail = harness.Violated, fmt.Sprintf("pprof -%s on a well-formed %s document: %s\n%q", f, d.Kind, e, d.Bytes)
			return res
		}
	}
	return res
}

func fnv(b []byte) uint64 {
	h := uint64(14695981039346656037)
	for _, c := range b {
		h = (h ^ uint64(c)) * 1099511628211
	}
	return h
}

func init() {
	harness.Register(&harness.Check{
		ID:    "C14",
		Level: "exploration",
		Rule: "documents printed from an arbitrary model by one printer per legacy family (heap: heap/heap_v2/heapz_v2/heapprofile/growth/fragmentation with and without alloc columns and rate; Go count; contentionz/mutex/contention with optional cycles/second, sampling period, ms since reset; threadz with 'same as previous thread'; binary CPU 32/64-bit x LE/BE with near-universal second frame and duplicated leaf; Java heapz/contentionz), with comment/blank lines and an optional trailing memory map in /proc/maps or brief form; " +
			"part driver: documents of a random family opened as files by the real driver; the profile saved with -proto must hold the samples (order, values, frames with binary, labels) and header the parser returns, and -raw / -traces must succeed. oracle: one sample per record in input order, addresses (call sites -1, leaf kept where documented, signal frame / duplicated leaf removed), values (raw, x period, unsampled 1/(1-exp(-size/rate)) in float64), bytes label, sample/period types, mapping assignment by containment. non-trivial = at least one record; distinct = distinct document bytes",
		Assumptions: []string{"memory maps stay in the documented regime: mappings of different files do not touch, main binary at 0x400000 offset 0 (no fix-up heuristics); a mapping listed in 2-4 adjacent pieces with consecutive offsets is expected back as one mapping (documented merge)", "addresses >= 1 so that -1 does not wrap"},
		Parts: []harness.Part{
			{Name: "heap", Quick: 6000, Thor: 300000, Run: run(legacy.Heap)},
			{Name: "count", Quick: 2000, Thor: 100000, Run: run(legacy.Count)},
			{Name: "contention", Quick: 2000, Thor: 100000, Run: run(legacy.Contention)},
			{Name: "threadz", Quick: 2000, Thor: 100000, Run: run(legacy.Thread)},
			{Name: "cpu", Quick: 2000, Thor: 100000, Run: run(legacy.CPU)},
			{Name: "java", Quick: 2000, Thor: 100000, Run: run(legacy.Java)},
			{Name: "driver", Quick: 800, Thor: 30000, Run: runDriver},
		},
		MinNonTrivial: func(string) int { return 1000 },
	})
}
