// Package c14 monitors the conversion of legacy text and binary profiles.
package c14

import (
	"fmt"
	"math/rand"

	"github.com/google/pprof/profile"
	"github.com/google/pprof/verif/internal/harness"
	"github.com/google/pprof/verif/internal/legacy"
	"github.com/google/pprof/verif/internal/mon"
)

func run(printer func(*rand.Rand) *legacy.Doc) func(c *harness.Ctx) harness.Result {
	return func(c *harness.Ctx) harness.Result {
		d := printer(c.Rng)
		res := harness.Result{NonTrivial: d.Records > 0, Sig: fmt.Sprintf("%s n=%d %x", d.Kind, d.Records, fnv(d.Bytes)), Sample: map[string]any{"kind": d.Kind, "document": harness.Trunc(fmt.Sprintf("%q", d.Bytes), 500)}}
		for _, f := range d.Features {
			c.Stat("feature."+f, 1)
		}
		c.Stat("records", int64(d.Records))
		p, err := profile.ParseData(d.Bytes)
		if err != nil {
			res.Verdict = harness.Violated
			res.Detail = fmt.Sprintf("well-formed %s document rejected: %v\n%q", d.Kind, err, d.Bytes)
			return res
		}
		if err := mon.Valid(p); err != nil {
			res.Verdict = harness.Violated
			res.Detail = fmt.Sprintf("%s document parsed to an invalid profile: %v\n%q", d.Kind, err, d.Bytes)
			return res
		}
		if msg := d.Check(p); msg != "" {
			res.Verdict = harness.Violated
			res.Detail = fmt.Sprintf("%s: %s\ndocument: %q", d.Kind, msg, d.Bytes)
		}
		return res
	}
}

func fnv(b []byte) uint64 {
	h := uint64(14695981039346656037)
	for _, c := range b {
		h = (h ^ uint64(c)) * 1099511628211
	}
	return h
}

func init() {
	harness.Register(&harness.Check{
		ID:    "C14",
		Level: "exploration",
		Rule: "documents printed from an arbitrary model by one printer per legacy family (heap: heap/heap_v2/heapz_v2/heapprofile/growth/fragmentation with and without alloc columns and rate; Go count; contentionz/mutex/contention with optional cycles/second, sampling period, ms since reset; threadz with 'same as previous thread'; binary CPU 32/64-bit x LE/BE with near-universal second frame and duplicated leaf; Java heapz/contentionz), with comment/blank lines and an optional trailing memory map in /proc/maps or brief form; " +
			"oracle: one sample per record in input order, addresses (call sites -1, leaf kept where documented, signal frame / duplicated leaf removed), values (raw, x period, unsampled 1/(1-exp(-size/rate)) in float64), bytes label, sample/period types, mapping assignment by containment. non-trivial = at least one record; distinct = distinct document bytes",
		Assumptions: []string{"memory maps stay in the documented regime: non-adjacent mappings, main binary at 0x400000 offset 0 (no merging / fix-up heuristics)", "addresses >= 1 so that -1 does not wrap"},
		Parts: []harness.Part{
			{Name: "heap", Quick: 6000, Thor: 300000, Run: run(legacy.Heap)},
			{Name: "count", Quick: 2000, Thor: 100000, Run: run(legacy.Count)},
			{Name: "contention", Quick: 2000, Thor: 100000, Run: run(legacy.Contention)},
			{Name: "threadz", Quick: 2000, Thor: 100000, Run: run(legacy.Thread)},
			{Name: "cpu", Quick: 2000, Thor: 100000, Run: run(legacy.CPU)},
			{Name: "java", Quick: 2000, Thor: 100000, Run: run(legacy.Java)},
		},
		MinNonTrivial: func(string) int { return 1000 },
	})
}
