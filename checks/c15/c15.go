// Package c15 monitors unit conversion and value formatting against exact rational arithmetic.
package c15

import (
	"fmt"
	"math"
	"math/big"
	"math/rand"
	"regexp"
	"sort"
	"strconv"
	"strings"
	"sync"

	"github.com/google/pprof/internal/measurement"
	"github.com/google/pprof/profile"
	"github.com/google/pprof/verif/internal/drv"
	"github.com/google/pprof/verif/internal/harness"
)

type unit struct {
	canon   string
	aliases []string
	factor  *big.Rat
}

func rat(a, b int64) *big.Rat { return big.NewRat(a, b) }

type family struct {
	units []unit
	def   string // canonical name of the default unit
}

var families = []family{
	{[]unit{
		{"B", []string{"b", "byte"}, rat(1, 1)},
		{"kB", []string{"kb", "kbyte", "kilobyte"}, rat(1<<10, 1)},
		{"MB", []string{"mb", "mbyte", "megabyte"}, rat(1<<20, 1)},
		{"GB", []string{"gb", "gbyte", "gigabyte"}, rat(1<<30, 1)},
		{"TB", []string{"tb", "tbyte", "terabyte"}, rat(1<<40, 1)},
		{"PB", []string{"pb", "pbyte", "petabyte"}, rat(1<<50, 1)},
	}, "B"},
	{[]unit{
		{"ns", []string{"ns", "nanosecond"}, rat(1, 1)},
		{"us", []string{"μs", "us", "microsecond"}, rat(1000, 1)},
		{"ms", []string{"ms", "millisecond"}, rat(1000000, 1)},
		{"s", []string{"s", "sec", "second"}, rat(1000000000, 1)},
		{"hrs", []string{"hour", "hr"}, rat(3600*1000000000, 1)},
	}, "s"},
	{[]unit{
		{"n*GCU", []string{"nanogcu"}, rat(1, 1000000000)},
		{"u*GCU", []string{"microgcu"}, rat(1, 1000000)},
		{"m*GCU", []string{"milligcu"}, rat(1, 1000)},
		{"GCU", []string{"gcu"}, rat(1, 1)},
		{"k*GCU", []string{"kilogcu"}, rat(1000, 1)},
		{"M*GCU", []string{"megagcu"}, rat(1000000, 1)},
		{"G*GCU", []string{"gigagcu"}, rat(1000000000, 1)},
		{"T*GCU", []string{"teragcu"}, rat(1000000000000, 1)},
		{"P*GCU", []string{"petagcu"}, rat(1000000000000000, 1)},
	}, "GCU"},
}

var unknownUnits = []string{"", "count", "frobs", "furlongs", "bs", "samples", "kbit", "objects", "xs", "GCUs2"}

func spellings(a string) []string {
	out := []string{a, strings.ToUpper(a), strings.Title(a)}
	if len(a) > 1 {
		out = append(out, a+"s", strings.ToUpper(a)+"S")
	}
	return out
}

type fromSpec struct {
	fam      int
	u        int
	spelling string
}

var fromSpecs []fromSpec

func init() {
	for fi, fam := range families {
		for ui, u := range fam.units {
			for _, a := range u.aliases {
				for _, s := range spellings(a) {
					fromSpecs = append(fromSpecs, fromSpec{fi, ui, s})
				}
			}
			// the canonical name, spelled exactly as pprof prints it: reports feed it back as a
			// unit, and two of them (m*GCU, M*GCU) differ by case only
			dup := false
			for _, x := range fromSpecs {
				dup = dup || (x.fam == fi && x.spelling == u.canon)
			}
			if !dup {
				fromSpecs = append(fromSpecs, fromSpec{fi, ui, u.canon})
			}
		}
	}
}

func boundaryValues() []int64 {
	vals := []int64{0, 1, -1, 2, -2, 999, 1000, 1001, 1023, 1024, 1025, 3599, 3600, 3601, 1<<53 - 1, 1 << 53, 1<<53 + 1, math.MaxInt64, math.MinInt64, math.MinInt64 + 1, math.MaxInt64 - 1, -(1 << 40), 123456789}
	for _, f := range []int64{1 << 10, 1 << 20, 1 << 30, 1 << 40, 1 << 50, 1000, 1000000, 1000000000, 3600 * 1000000000, 1000000000000, 1000000000000000} {
		vals = append(vals, f-1, f, f+1, -f, -f+1, -f-1)
	}
	return vals
}

func near(got float64, want *big.Rat) bool {
	wf, _ := want.Float64()
	if wf == 0 {
		return got == 0
	}
	return math.Abs(got-wf) <= 1e-12*math.Abs(wf)
}

func mul(v int64, r *big.Rat) *big.Rat { return new(big.Rat).Mul(new(big.Rat).SetInt64(v), r) }

// expected auto-scaling: the largest unit with |magnitude| >= 1, else the family default
func autoExpect(fam family, base *big.Rat) (*big.Rat, string) {
	var best *unit
	for i := range fam.units {
		q := new(big.Rat).Quo(base, fam.units[i].factor)
		if new(big.Rat).Abs(q).Cmp(rat(1, 1)) >= 0 {
			if best == nil || fam.units[i].factor.Cmp(best.factor) > 0 {
				best = &fam.units[i]
			}
		}
	}
	if best == nil {
		for i := range fam.units {
			if fam.units[i].canon == fam.def {
				best = &fam.units[i]
			}
		}
	}
	return new(big.Rat).Quo(base, best.factor), best.canon
}

// learnUnit asks pprof itself about a unit name that the documented table does not list (a unit
// added to pprof's table later): its factor is what one such unit converts to in the family's
// smallest unit. nil if pprof does not place the name in this family.
func learnUnit(fam family, name string) *big.Rat {
	if name == "" {
		return nil
	}
	for _, u := range fam.units {
		if u.canon == name {
			return u.factor
		}
	}
	small := fam.units[0]
	got, gu := measurement.Scale(1, name, small.aliases[0])
	if gu != small.canon || !(got > 0) || math.IsInf(got, 0) {
		return nil
	}
	f := new(big.Rat).SetFloat64(got)
	if f == nil {
		return nil
	}
	return f.Mul(f, small.factor)
}

// knownUnit reports whether the documented table lists the canonical name.
func knownUnit(fam family, name string) bool {
	for _, u := range fam.units {
		if u.canon == name {
			return true
		}
	}
	return false
}

func checkFrom(c *harness.Ctx, fs fromSpec, vals []int64) string {
	fam := families[fs.fam]
	fu := fam.units[fs.u]
	for _, v := range vals {
		base := mul(v, fu.factor)
		// explicit targets in the same family
		for _, tu := range fam.units {
			for _, ta := range append(append([]string{}, tu.aliases...), tu.canon) {
				c.Stat("conversions", 1)
				got, gu := measurement.Scale(v, fs.spelling, ta)
				want := new(big.Rat).Quo(base, tu.factor)
				if gu != tu.canon || !near(got, want) {
					wf, _ := want.Float64()
					return fmt.Sprintf("Scale(%d,%q,%q) = (%v,%q), exact value is (%v,%q)", v, fs.spelling, ta, got, gu, wf, tu.canon)
				}
				if tu.canon == fu.canon && math.Abs(got-float64(v)) > 1e-12*math.Abs(float64(v)) {
					return fmt.Sprintf("Scale(%d,%q,%q) = %v: equal units must be the identity", v, fs.spelling, ta, got)
				}
			}
		}
		// negation
		if v != math.MinInt64 {
			for _, tu := range fam.units {
				a, ua := measurement.Scale(v, fs.spelling, tu.aliases[0])
				b, ub := measurement.Scale(-v, fs.spelling, tu.aliases[0])
				if a != -b || ua != ub {
					return fmt.Sprintf("Scale(%d,%q,%q)=%v%s but Scale(%d,...)=%v%s: conversion must commute with negation", v, fs.spelling, tu.aliases[0], a, ua, -v, b, ub)
				}
			}
		}
		// auto / minimum
		for _, mode := range []string{"auto", "minimum"} {
			c.Stat("autoscale", 1)
			got, gu := measurement.Scale(v, fs.spelling, mode)
			want, wu := autoExpect(fam, base)
			if !knownUnit(fam, gu) {
				// a unit the documented table does not have: it must be at least as large as the
				// largest documented unit that keeps the magnitude at or above one, keep the
				// magnitude at or above one itself, and carry the exact value
				if f := learnUnit(fam, gu); f != nil && f.Cmp(learnUnit(fam, wu)) >= 0 && math.Abs(got) >= 1 && near(got, new(big.Rat).Quo(base, f)) {
					c.Stat("autoscale_to_units_beyond_the_documented_table", 1)
					continue
				}
			}
			if gu != wu || !near(got, want) {
				wf, _ := want.Float64()
				return fmt.Sprintf("Scale(%d,%q,%q) = (%v,%q); the largest unit keeping |magnitude|>=1 gives (%v,%q)", v, fs.spelling, mode, got, gu, wf, wu)
			}
		}
		// unknown target or target of another family: stay in the source family (default unit)
		var others []string
		others = append(others, unknownUnits...)
		for oi, of := range families {
			if oi != fs.fam {
				others = append(others, of.units[0].aliases[0], of.units[len(of.units)-1].aliases[0])
			}
		}
		for _, t := range others {
			if t == "minimum" || t == "auto" {
				continue
			}
			c.Stat("foreign_target", 1)
			got, gu := measurement.Scale(v, fs.spelling, t)
			inFam := false
			var f *big.Rat
			for _, u := range fam.units {
				if u.canon == gu {
					inFam, f = true, u.factor
				}
			}
			if !inFam {
				return fmt.Sprintf("Scale(%d,%q,%q) returned unit %q which is outside the source unit's family", v, fs.spelling, t, gu)
			}
			if !near(got, new(big.Rat).Quo(base, f)) {
				return fmt.Sprintf("Scale(%d,%q,%q) = (%v,%q): magnitude not preserved", v, fs.spelling, t, got, gu)
			}
		}
	}
	return ""
}

func runLattice(c *harness.Ctx) harness.Result {
	fs := fromSpecs[c.Index%len(fromSpecs)]
	res := harness.Result{NonTrivial: true, Sig: fmt.Sprintf("from %q", fs.spelling), Sample: fmt.Sprintf("source spelling %q (family %d) x every target alias x %d boundary values", fs.spelling, fs.fam, len(boundaryValues()))}
	if msg := checkFrom(c, fs, boundaryValues()); msg != "" {
		res.Verdict, res.Detail = harness.Violated, msg
	}
	return res
}

func randVal(r *rand.Rand) int64 {
	switch r.Intn(4) {
	case 0:
		return int64(r.Uint64())
	case 1:
		return int64(r.Intn(1<<20)) - 1<<19
	case 2:
		return (int64(1) << uint(r.Intn(63))) + int64(r.Intn(3)) - 1
	default:
		return r.Int63n(1e12) - 5e11
	}
}

func runRandom(c *harness.Ctx) harness.Result {
	r := c.Rng
	fs := fromSpecs[r.Intn(len(fromSpecs))]
	var vals []int64
	for i := 0; i < 12; i++ {
		vals = append(vals, randVal(r))
	}
	res := harness.Result{NonTrivial: true, Sig: fmt.Sprintf("rand %q %v", fs.spelling, vals[:3]), Sample: fmt.Sprintf("source %q values %v", fs.spelling, vals)}
	if msg := checkFrom(c, fs, vals); msg != "" {
		res.Verdict, res.Detail = harness.Violated, msg
		return res
	}
	// unknown source units pass through unchanged and are never assigned to a family
	for _, u := range unknownUnits {
		for _, v := range vals[:4] {
			for _, t := range []string{"kb", "ms", "gcu", "auto", "minimum", u, "other"} {
				c.Stat("unknown_source", 1)
				got, gu := measurement.Scale(v, u, t)
				if got != float64(v) {
					res.Verdict, res.Detail = harness.Violated, fmt.Sprintf("Scale(%d,%q,%q) = %v: a value in an unknown unit must pass through unchanged", v, u, t, got)
					return res
				}
				if t == "auto" || t == "minimum" {
					if gu != "" {
						res.Verdict, res.Detail = harness.Violated, fmt.Sprintf("Scale(%d,%q,%q) labelled the unknown unit as %q", v, u, t, gu)
						return res
					}
				}
			}
		}
	}
	return res
}

var labelRx = regexp.MustCompile(`^(-?[0-9]+(?:\.[0-9]+)?)(.*)$`)

func parseLabel(lbl string, fam family) (*big.Rat, bool) {
	if lbl == "0" {
		return new(big.Rat), true
	}
	m := labelRx.FindStringSubmatch(lbl)
	if m == nil {
		return nil, false
	}
	num, ok := new(big.Rat).SetString(m[1])
	if !ok {
		return nil, false
	}
	if f := learnUnit(fam, m[2]); f != nil {
		return num.Mul(num, f), true
	}
	return nil, false
}

// shownFactor is the factor of the unit a label is printed in (nil if it has none of the family).
func shownFactor(lbl string, fam family) *big.Rat {
	if m := labelRx.FindStringSubmatch(lbl); m != nil {
		return learnUnit(fam, m[2])
	}
	return nil
}

// widen returns the larger of the expected unit's factor and the factor of the unit shown: display
// rounding is half a digit of the unit actually printed.
func widen(uf *big.Rat, lbl string, fam family) *big.Rat {
	if sf := shownFactor(lbl, fam); sf != nil && (uf == nil || sf.Cmp(uf) > 0) {
		return sf
	}
	return uf
}

func runLabels(c *harness.Ctx) harness.Result {
	r := c.Rng
	fs := fromSpecs[r.Intn(len(fromSpecs))]
	fam := families[fs.fam]
	fu := fam.units[fs.u]
	var vals []int64
	vals = append(vals, boundaryValues()[r.Intn(len(boundaryValues()))])
	for i := 0; i < 10; i++ {
		vals = append(vals, randVal(r))
	}
	res := harness.Result{NonTrivial: true, Sig: fmt.Sprintf("label %q %v", fs.spelling, vals[:2]), Sample: fmt.Sprintf("Label(v,%q) for v in %v", fs.spelling, vals)}
	fail := func(f string, a ...any) harness.Result {
		res.Verdict, res.Detail = harness.Violated, fmt.Sprintf(f, a...)
		return res
	}
	type lv struct {
		v   int64
		mag *big.Rat
	}
	var seen []lv
	for _, v := range vals {
		c.Stat("labels", 1)
		lbl := measurement.Label(v, fs.spelling)
		if lbl2 := measurement.ScaledLabel(v, fs.spelling, "auto"); lbl2 != lbl {
			return fail("Label(%d,%q)=%q but ScaledLabel(...,auto)=%q", v, fs.spelling, lbl, lbl2)
		}
		back, ok := parseLabel(lbl, fam)
		if !ok {
			return fail("Label(%d,%q) = %q cannot be read back as a number with a unit of the source family", v, fs.spelling, lbl)
		}
		orig := mul(v, fu.factor)
		// within half a display digit (0.005 of the unit shown); plus float64 relative error
		_, wu := autoExpect(fam, orig)
		var uf *big.Rat
		for _, u := range fam.units {
			if u.canon == wu {
				uf = u.factor
			}
		}
		uf = widen(uf, lbl, fam)
		tol := new(big.Rat).Mul(rat(5001, 1000000), uf)
		relTol := new(big.Rat).Mul(new(big.Rat).Abs(orig), big.NewRat(1, 1e12))
		tol.Add(tol, relTol)
		diff := new(big.Rat).Sub(back, orig)
		if diff.Abs(diff).Cmp(tol) > 0 {
			of, _ := orig.Float64()
			bf, _ := back.Float64()
			return fail("Label(%d,%q) = %q reads back as %v base units, original is %v (more than display rounding)", v, fs.spelling, lbl, bf, of)
		}
		seen = append(seen, lv{v, back})
	}
	// monotone up to rounding: v1 < v2 => label magnitude(v1) <= label magnitude(v2) + rounding
	for _, a := range seen {
		for _, b := range seen {
			if a.v < b.v && a.mag.Cmp(b.mag) > 0 {
				// allow equal-after-rounding ties only: difference must be within the two tolerances
				d := new(big.Rat).Sub(a.mag, b.mag)
				lim := new(big.Rat).Mul(new(big.Rat).Abs(mul(b.v, fu.factor)), big.NewRat(1, 100))
				lim.Add(lim, new(big.Rat).Mul(new(big.Rat).Abs(mul(a.v, fu.factor)), big.NewRat(1, 100)))
				if d.Cmp(lim) > 0 {
					return fail("labels not monotone: %d -> %v, %d -> %v", a.v, a.mag, b.v, b.mag)
				}
			}
		}
	}
	return res
}

// the same conversions as printed by the real driver: pprof -top -unit=<target> on a profile whose
// sample unit is any spelling of any unit
func runDriverTop(c *harness.Ctx) harness.Result {
	r := c.Rng
	fs := fromSpecs[r.Intn(len(fromSpecs))]
	fam := families[fs.fam]
	fu := fam.units[fs.u]
	tu := fam.units[r.Intn(len(fam.units))]
	target := tu.aliases[r.Intn(len(tu.aliases))]
	explicit := r.Intn(3) > 0
	if !explicit {
		target = "minimum"
	}
	p := &profile.Profile{SampleType: []*profile.ValueType{{Type: "t", Unit: fs.spelling}}, PeriodType: &profile.ValueType{Type: "t", Unit: fs.spelling}, Period: 1}
	vals := map[string]int64{}
	for i := 0; i < 3; i++ {
		fn := &profile.Function{ID: uint64(i + 1), Name: fmt.Sprintf("fn%d", i), SystemName: fmt.Sprintf("fn%d", i), Filename: "x.go"}
		loc := &profile.Location{ID: uint64(i + 1), Address: uint64(0x1000 + i), Line: []profile.Line{{Function: fn, Line: 1}}}
		v := int64(1 + r.Intn(1000000))
		switch r.Intn(4) {
		case 0:
			v = int64(1 + r.Intn(100))
		case 1:
			v = int64(r.Int63n(1 << 40))
		}
		p.Function = append(p.Function, fn)
		p.Location = append(p.Location, loc)
		p.Sample = append(p.Sample, &profile.Sample{Value: []int64{v}, Location: []*profile.Location{loc}})
		vals[fn.Name] = v
	}
	// a time-typed profile also states its duration: the legend then gives the total as a
	// percentage of it
	var wantPct *big.Rat
	if fam.def == "s" && r.Intn(2) == 0 {
		tot := new(big.Rat)
		for name := range vals {
			vals[name] = 1 + vals[name]%100000
		}
		for i, smp := range p.Sample {
			smp.Value[0] = vals[fmt.Sprintf("fn%d", i)]
			tot.Add(tot, mul(smp.Value[0], fu.factor))
		}
		p.DurationNanos = 1 + r.Int63n(20000000000)
		wantPct = new(big.Rat).Quo(tot, new(big.Rat).SetInt64(p.DurationNanos))
		wantPct.Mul(wantPct, big.NewRat(100, 1))
	}
	// a comparison report: some entries are negative (and may be the ones of smallest magnitude)
	signed := wantPct == nil && r.Intn(2) == 0
	if signed {
		for i, smp := range p.Sample {
			if r.Intn(2) == 0 || i == 0 {
				smp.Value[0] = -smp.Value[0]
				vals[fmt.Sprintf("fn%d", i)] = smp.Value[0]
			}
		}
	}
	desc := fmt.Sprintf("-top -unit=%s on values in %q: %v", target, fs.spelling, vals)
	res := harness.Result{NonTrivial: true, Sig: desc, Sample: desc}
	if signed {
		// the report of the negated profile shows the negated labels: the unit chosen for the report
		// does not depend on the sign of the entries
		flats := func(q *profile.Profile) (map[string]string, string) {
			o, _, rr := drv.Report(map[string]*profile.Profile{"p": q}, []string{"p"}, map[string]bool{"top": true, "trim": false}, map[string]string{"unit": target}, nil, nil, nil)
			if rr.Panic != "" || rr.Err != nil {
				return nil, o
			}
			m := map[string]string{}
			for _, l := range strings.Split(o, "\n") {
				f := strings.Fields(l)
				if len(f) >= 6 && strings.HasPrefix(f[len(f)-1], "fn") {
					m[f[len(f)-1]] = f[0]
				}
			}
			return m, o
		}
		neg := p.Copy()
		for _, smp := range neg.Sample {
			smp.Value[0] = -smp.Value[0]
		}
		a, outA := flats(p)
		b, outB := flats(neg)
		c.Stat("driver_tops_negated_pairs", 1)
		for name, la := range a {
			want := "-" + la
			if strings.HasPrefix(la, "-") {
				want = la[1:]
			}
			if la == "0" {
				want = "0"
			}
			if b[name] != want {
				return harness.Violation("%s: %s is printed as %q, and as %q in the report of the negated profile (expected %q: conversion and unit selection commute with negation)\n%s\n--- negated\n%s", desc, name, la, b[name], want, outA, outB)
			}
		}
	}
	// -mean: every entry is a mean per event (the first column counts the events); the unit of the
	// report is chosen for the means that are printed, not for the sums behind them
	meanMode := !signed && wantPct == nil && !explicit && r.Intn(3) == 0
	topBools, topStrs := map[string]bool{"top": true, "trim": false}, map[string]string{"unit": target}
	if meanMode {
		p.SampleType = append([]*profile.ValueType{{Type: "events", Unit: "count"}}, p.SampleType...)
		for i, smp := range p.Sample {
			lim := smp.Value[0]
			if lim > 5000 {
				lim = 5000
			}
			n := 1 + r.Int63n(lim) // at least one unit per event
			smp.Value = []int64{n, smp.Value[0]}
			vals[fmt.Sprintf("fn%d", i)] = smp.Value[1] / n
		}
		topBools["mean"] = true
		topStrs["sample_index"] = "t"
		desc += fmt.Sprintf(" shown as means %v", vals)
		c.Stat("driver_tops_mean", 1)
	}
	out, ui, rr := drv.Report(map[string]*profile.Profile{"p": p}, []string{"p"}, topBools, topStrs, nil, nil, nil)
	if rr.Panic != "" {
		return harness.Violation("%s: panic %s", desc, rr.Panic)
	}
	if rr.Err != nil {
		return harness.Violation("%s: failed: %v %v", desc, rr.Err, ui.Errs)
	}
	c.Stat("driver_tops", 1)
	found := 0
	// a value that rounds to nothing is printed as a bare 0: its display unit is the report's
	var reportUnit *unit
	if m := regexp.MustCompile(`of -?[0-9.]+([^ ]*) total`).FindStringSubmatch(out); m != nil {
		for i := range fam.units {
			if fam.units[i].canon == m[1] {
				reportUnit = &fam.units[i]
			}
		}
	}
	for _, l := range strings.Split(out, "\n") {
		f := strings.Fields(l)
		if len(f) < 6 || !strings.HasPrefix(f[len(f)-1], "fn") {
			continue
		}
		v, ok := vals[f[len(f)-1]]
		if !ok {
			continue
		}
		found++
		m := labelRx.FindStringSubmatch(f[0])
		var shown *unit
		if m != nil {
			for i := range fam.units {
				if fam.units[i].canon == m[2] {
					shown = &fam.units[i]
				}
			}
			if shown == nil && !explicit {
				// a unit beyond the documented table, as pprof itself defines it
				if lf := learnUnit(fam, m[2]); lf != nil {
					shown = &unit{canon: m[2], factor: lf}
				}
			}
		}
		if f[0] == "0" && v != 0 && !explicit {
			return harness.Violation("%s: %s has the value %d but is printed as 0: with -unit=minimum the unit of the report is chosen so that its smallest entry still shows (at least 0.01 of the unit)\n%s", desc, f[len(f)-1], v, out)
		}
		if f[0] == "0" {
			shown = reportUnit
			if shown == nil && explicit {
				shown = &tu // everything rounds to nothing in the unit that was asked for
			}
			m = []string{"0", "0", ""}
		}
		if m == nil || shown == nil {
			return harness.Violation("%s: flat value %q of %s is not a number with a unit of the source family\n%s", desc, f[0], f[len(f)-1], out)
		}
		if explicit && f[0] != "0" && shown.canon != tu.canon {
			return harness.Violation("%s: flat value %q of %s is shown in %s, -unit asked for %s\n%s", desc, f[0], f[len(f)-1], shown.canon, tu.canon, out)
		}
		num, _ := new(big.Rat).SetString(m[1])
		back := num.Mul(num, shown.factor)
		orig := mul(v, fu.factor)
		tol := new(big.Rat).Mul(rat(5001, 1000000), shown.factor)
		tol.Add(tol, new(big.Rat).Mul(new(big.Rat).Abs(orig), big.NewRat(1, 1e12)))
		d := new(big.Rat).Sub(back, orig)
		if d.Abs(d).Cmp(tol) > 0 {
			of, _ := orig.Float64()
			bf, _ := back.Float64()
			return harness.Violation("%s: %s is printed as %q = %v base units, its value is %v base units (more than display rounding)\n%s", desc, f[len(f)-1], f[0], bf, of, out)
		}
	}
	if found != 3 {
		return harness.Violation("%s: %d of 3 entries found in the report\n%s", desc, found, out)
	}
	// the same values divided by -divide_by and printed one by one (-traces picks a unit per value)
	if !explicit && !meanMode {
		div := []float64{2, 1000, 1024, 0.5, 3}[r.Intn(5)]
		tout, tui, trr := drv.Report(map[string]*profile.Profile{"p": p}, []string{"p"}, map[string]bool{"traces": true}, map[string]string{"unit": "minimum"}, nil, map[string]float64{"divide_by": div}, nil)
		if trr.Panic != "" || trr.Err != nil {
			return harness.Violation("%s -traces -divide_by=%v failed: %v %s %v", desc, div, trr.Err, trr.Panic, tui.Errs)
		}
		c.Stat("driver_traces_divided", 1)
		rows := regexp.MustCompile(`(?m)^\s*(\S+)\s+(fn[0-9])\s*$`).FindAllStringSubmatch(tout, -1)
		if len(rows) != 3 {
			return harness.Violation("%s -traces -divide_by=%v: %d of 3 traces found\n%s", desc, div, len(rows), tout)
		}
		for _, row := range rows {
			v := vals[row[2]]
			back, ok := parseLabel(row[1], fam)
			if !ok {
				return harness.Violation("%s -traces -divide_by=%v: value %q of %s is not a number with a unit of the source family\n%s", desc, div, row[1], row[2], tout)
			}
			scaled := int64(float64(v) / div) // pprof scales the integer sample value
			orig := mul(scaled, fu.factor)
			_, wu := autoExpect(fam, orig)
			var uf *big.Rat
			for _, u := range fam.units {
				if u.canon == wu {
					uf = u.factor
				}
			}
			if uf == nil {
				uf = fu.factor
			}
			uf = widen(uf, row[1], fam)
			tol := new(big.Rat).Mul(rat(5001, 1000000), uf)
			tol.Add(tol, fu.factor) // one source unit for the integer scaling
			tol.Add(tol, new(big.Rat).Mul(new(big.Rat).Abs(orig), big.NewRat(1, 1e9)))
			d := new(big.Rat).Sub(back, orig)
			if d.Abs(d).Cmp(tol) > 0 {
				of, _ := orig.Float64()
				bf, _ := back.Float64()
				return harness.Violation("%s -traces -divide_by=%v: %s (value %d) is printed as %q = %v base units; value/divide_by is %v base units\n%s", desc, div, row[2], v, row[1], bf, of, tout)
			}
		}
	}
	if wantPct != nil {
		m := regexp.MustCompile(`Duration: [^\n]*\(\s*([0-9.e+-]+)%\)`).FindStringSubmatch(out)
		if m == nil {
			return harness.Violation("%s duration=%dns: the legend does not give the total as a percentage of the duration\n%s", desc, p.DurationNanos, out)
		}
		got, _ := strconv.ParseFloat(m[1], 64)
		want, _ := wantPct.Float64()
		ok := false
		switch {
		case m[1] == "100":
			ok = want >= 99.94 && want <= 100.06
		case want >= 1:
			ok = math.Abs(got-want) <= 0.0051+want*1e-9
		default:
			ok = math.Abs(got-want) <= 0.06*want // two significant digits
		}
		c.Stat("duration_percentages", 1)
		if !ok {
			return harness.Violation("%s duration=%dns: the legend says the total is %s%% of the duration; total/duration is %.6g%%\n%s", desc, p.DurationNanos, m[1], want, out)
		}
	}
	return res
}

func runPercentage(c *harness.Ctx) harness.Result {
	r := c.Rng
	res := harness.Result{NonTrivial: true}
	var cases [][2]int64
	for i := 0; i < 40; i++ {
		total := randVal(r)
		var v int64
		switch r.Intn(5) {
		case 0:
			v = total
		case 1:
			v = -total
		case 2:
			v = total / int64(1+r.Intn(1000))
		case 3:
			v = int64(float64(total) * (0.9990 + 0.002*r.Float64()))
		default:
			v = randVal(r)
		}
		cases = append(cases, [2]int64{v, total})
	}
	cases = append(cases, [2]int64{0, 0}, [2]int64{5, 0}, [2]int64{math.MinInt64, math.MaxInt64}, [2]int64{1, math.MinInt64})
	res.Sig = fmt.Sprint(cases[:2])
	res.Sample = fmt.Sprintf("Percentage over %v…", cases[:4])
	for _, cs := range cases {
		c.Stat("percentages", 1)
		v, total := cs[0], cs[1]
		got := measurement.Percentage(v, total)
		var ratio float64
		if total != 0 {
			ratio = math.Abs(float64(v)/float64(total)) * 100
		}
		if !strings.HasSuffix(got, "%") {
			res.Verdict, res.Detail = harness.Violated, fmt.Sprintf("Percentage(%d,%d)=%q", v, total, got)
			return res
		}
		if strings.Contains(got, "-") && !strings.Contains(got, "e-") {
			res.Verdict, res.Detail = harness.Violated, fmt.Sprintf("Percentage(%d,%d)=%q is negative: percentages are computed from absolute ratios", v, total, got)
			return res
		}
		num, err := strconv.ParseFloat(strings.TrimSpace(strings.TrimSuffix(got, "%")), 64)
		if err != nil {
			res.Verdict, res.Detail = harness.Violated, fmt.Sprintf("Percentage(%d,%d)=%q is not a number", v, total, got)
			return res
		}
		switch {
		case ratio >= 99.95 && ratio <= 100.05:
			if strings.TrimSpace(got) != "100%" {
				res.Verdict, res.Detail = harness.Violated, fmt.Sprintf("Percentage(%d,%d)=%q, ratio %.4f is in the 100%% band", v, total, got, ratio)
				return res
			}
		default:
			tol := 0.0051 + ratio*1e-9
			if ratio < 1 {
				tol = ratio*0.06 + 1e-300
			}
			if math.Abs(num-ratio) > tol && !(math.IsInf(ratio, 0) || math.IsNaN(ratio)) {
				res.Verdict, res.Detail = harness.Violated, fmt.Sprintf("Percentage(%d,%d)=%q, absolute ratio is %.6g%%", v, total, got, ratio)
				return res
			}
		}
	}
	return res
}

// ScaleProfiles preserves each profile's physical totals within n/2 and never drops samples.
func runScaleProfiles(c *harness.Ctx) harness.Result {
	r := c.Rng
	// two measured columns "t" and "w" (half of the time of the same family, so that one unit
	// string can occur in both columns and need different conversions) next to a column whose unit
	// is not convertible
	fa := r.Intn(3)
	fb := fa
	if r.Intn(2) == 0 {
		fb = r.Intn(3)
	}
	fams := []family{families[fa], families[fb]}
	// bounded span so that converted values stay inside int64
	win := func(f family) []unit {
		us := f.units[:len(f.units)-1]
		if len(us) > 6 {
			o := r.Intn(len(us) - 5)
			us = us[o : o+6]
		}
		return us
	}
	wins := [][]unit{win(fams[0]), win(fams[1])}
	n := 2 + r.Intn(3)
	var ps []*profile.Profile
	var before [][]*big.Rat // per profile: totals of the three columns in base units
	var mass [][]*big.Rat   // per profile: sum of |value| in base units (columns 1, 2)
	inputFactors := [][]*big.Rat{nil, nil}
	var counts []int
	desc := []string{}
	otherUnit := []string{"count", "frobs", ""}[r.Intn(3)]
	for i := 0; i < n; i++ {
		var us [2]unit
		var alias [2]string
		for k := 0; k < 2; k++ {
			us[k] = wins[k][r.Intn(len(wins[k]))]
			alias[k] = us[k].aliases[r.Intn(len(us[k].aliases))]
			inputFactors[k] = append(inputFactors[k], us[k].factor)
		}
		p := &profile.Profile{
			SampleType: []*profile.ValueType{{Type: "n", Unit: otherUnit}, {Type: "t", Unit: alias[0]}, {Type: "w", Unit: alias[1]}},
			PeriodType: &profile.ValueType{Type: "t", Unit: alias[0]}, Period: int64(1 + r.Intn(5)),
		}
		tot := []*big.Rat{new(big.Rat), new(big.Rat), new(big.Rat)}
		ms := []*big.Rat{new(big.Rat), new(big.Rat), new(big.Rat)}
		ns := 1 + r.Intn(5)
		for j := 0; j < ns; j++ {
			vs := []int64{int64(r.Intn(5)), int64(r.Intn(2000)), int64(r.Intn(2000))}
			for k := 1; k < 3; k++ {
				if r.Intn(3) == 0 {
					vs[k] = 0
				}
				if r.Intn(4) == 0 {
					vs[k] = -vs[k]
				}
			}
			loc := &profile.Location{ID: uint64(j + 1), Address: uint64(0x1000 + j)}
			p.Location = append(p.Location, loc)
			p.Sample = append(p.Sample, &profile.Sample{Value: vs, Location: []*profile.Location{loc}})
			tot[0].Add(tot[0], new(big.Rat).SetInt64(vs[0]))
			for k := 1; k < 3; k++ {
				x := mul(vs[k], us[k-1].factor)
				tot[k].Add(tot[k], x)
				ms[k].Add(ms[k], new(big.Rat).Abs(x))
			}
		}
		ps = append(ps, p)
		before = append(before, tot)
		mass = append(mass, ms)
		counts = append(counts, ns)
		desc = append(desc, fmt.Sprintf("(t/%s w/%s):%d samples", alias[0], alias[1], ns))
	}
	// every fifth case one profile's "t" column is in a unit that cannot be converted (unknown, or of
	// another family): harmonising must be refused, whichever profile comes first
	if r.Intn(5) == 0 {
		vi := r.Intn(n)
		bad := []string{"widgets", "gadgets", "frobs", "objects"}[r.Intn(4)]
		if r.Intn(2) == 0 {
			of := families[(fa+1+r.Intn(2))%3]
			ou := of.units[r.Intn(len(of.units))]
			bad = ou.aliases[r.Intn(len(ou.aliases))]
			if r.Intn(3) == 0 {
				bad = ou.canon
			}
		}
		ps[vi].SampleType[1].Unit = bad
		c.Stat("scaleprofiles.incompatible", 1)
		err := measurement.ScaleProfiles(ps)
		res := harness.Result{NonTrivial: true, Sig: fmt.Sprint("incompatible", desc, vi, bad), Sample: fmt.Sprintf("ScaleProfiles with profile %d's column in %q among %v", vi, bad, desc)}
		if err == nil {
			res.Verdict = harness.Violated
			res.Detail = fmt.Sprintf("ScaleProfiles accepted profiles whose 't' columns are in %v with profile %d's in %q: units of different families (or unknown ones) were treated as convertible; resulting units: %v", desc, vi, bad, func() []string {
				var u []string
				for _, p := range ps {
					u = append(u, p.SampleType[1].Unit)
				}
				return u
			}())
		}
		return res
	}
	res := harness.Result{NonTrivial: true, Sig: fmt.Sprint(desc), Sample: fmt.Sprintf("ScaleProfiles over units %v (+ column in %q)", desc, otherUnit)}
	c.Stat("scaleprofiles", 1)
	if fa == fb {
		c.Stat("scaleprofiles.same_family_twice", 1)
	}
	if err := measurement.ScaleProfiles(ps); err != nil {
		res.Verdict, res.Detail = harness.Violated, fmt.Sprintf("ScaleProfiles failed on compatible profiles %v: %v", desc, err)
		return res
	}
	for i, p := range ps {
		if len(p.Sample) != counts[i] {
			res.Verdict, res.Detail = harness.Violated, fmt.Sprintf("ScaleProfiles changed the number of samples of profile %d (%s): %d -> %d", i, desc[i], counts[i], len(p.Sample))
			return res
		}
		t0 := new(big.Rat)
		for _, s := range p.Sample {
			t0.Add(t0, new(big.Rat).SetInt64(s.Value[0]))
		}
		if t0.Cmp(before[i][0]) != 0 {
			res.Verdict, res.Detail = harness.Violated, fmt.Sprintf("column in unit %q changed its total: %v -> %v", otherUnit, before[i][0], t0)
			return res
		}
	}
	for k := 1; k < 3; k++ {
		fam := fams[k-1]
		unitName := ps[0].SampleType[k].Unit
		// the common unit is the finest one among the inputs, so conversion is an exact multiplication
		var finest *big.Rat
		for _, d := range inputFactors[k-1] {
			if finest == nil || d.Cmp(finest) < 0 {
				finest = d
			}
		}
		var uf *big.Rat
		for _, u := range fam.units {
			for _, a := range u.aliases {
				if a == unitName || u.canon == unitName {
					uf = u.factor
				}
			}
		}
		for i, p := range ps {
			if p.SampleType[k].Unit != unitName {
				res.Verdict, res.Detail = harness.Violated, fmt.Sprintf("profiles not harmonised in column %d: %q vs %q (%v)", k, p.SampleType[k].Unit, unitName, desc)
				return res
			}
			if uf == nil {
				res.Verdict, res.Detail = harness.Violated, fmt.Sprintf("harmonised unit %q of column %d is not in the family of the inputs %v", unitName, k, desc)
				return res
			}
			if uf.Cmp(finest) != 0 {
				res.Verdict, res.Detail = harness.Violated, fmt.Sprintf("profiles %v were harmonised to %q in column %d, which is not the finest unit among them (precision of profile %d would be lost)", desc, unitName, k, i)
				return res
			}
			t1 := new(big.Rat)
			for _, s := range p.Sample {
				t1.Add(t1, mul(s.Value[k], uf))
			}
			d := new(big.Rat).Sub(t1, before[i][k])
			// converting to the finest unit multiplies by an integer: exact when the float64 ratio
			// is exact (bytes, time); GCU factors are negative powers of ten, so the result is
			// judged within 1e-12 relative error like every other float64 result of this check
			lim := new(big.Rat)
			if fam.def == "GCU" {
				lim.Mul(mass[i][k], big.NewRat(1, 1000000000000))
			}
			if d.Abs(d).Cmp(lim) > 0 {
				res.Verdict, res.Detail = harness.Violated, fmt.Sprintf("physical total of column %d of profile %d %s changed from %v to %v base units after harmonising to %q (all: %v)", k, i, desc[i], before[i][k], t1, unitName, desc)
				return res
			}
		}
	}
	return res
}

// part tagrange: unit conversion as the tag filters use it. Samples carry the numeric tag "bytes"
// (in bytes) or "dur" (in nanoseconds); tagfocus is a value or range in a coarser unit (kb, mb, us,
// ms, s). A sample is selected iff value x unit lies in the range, compared exactly (no rounding to
// the filter's unit).
func runTagRange(c *harness.Ctx) harness.Result {
	r := c.Rng
	type fam struct {
		key, unit string
		units     []string
		factor    map[string]int64
	}
	f := []fam{{"bytes", "bytes", []string{"kb", "mb", "b"}, map[string]int64{"b": 1, "kb": 1 << 10, "mb": 1 << 20}},
		{"dur", "nanoseconds", []string{"us", "ms", "s", "ns"}, map[string]int64{"ns": 1, "us": 1000, "ms": 1000000, "s": 1000000000}}}[r.Intn(2)]
	u := f.units[r.Intn(len(f.units))]
	uf := f.factor[u]
	lo, hi := int64(r.Intn(4)), int64(1+r.Intn(5))
	if hi < lo {
		lo, hi = hi, lo
	}
	p := &profile.Profile{SampleType: []*profile.ValueType{{Type: "n", Unit: "count"}}, PeriodType: &profile.ValueType{Type: "cpu", Unit: "ns"}, Period: 1}
	fn := &profile.Function{ID: 1, Name: "f", SystemName: "f", Filename: "x.go"}
	loc := &profile.Location{ID: 1, Address: 0x1000, Line: []profile.Line{{Function: fn, Line: 1}}}
	p.Function, p.Location = []*profile.Function{fn}, []*profile.Location{loc}
	vals := map[string]int64{}
	for i := 0; i < 10; i++ {
		// values on, just below and just above multiples of the filter's unit, and halfway
		v := int64(r.Intn(7))*uf + []int64{0, 1, -1, uf / 2, uf/2 + 1, 0}[r.Intn(6)]
		if v < 0 {
			v = 0
		}
		id := fmt.Sprint(i)
		vals[id] = v
		p.Sample = append(p.Sample, &profile.Sample{Value: []int64{1}, Location: []*profile.Location{loc}, Label: map[string][]string{"id": {id}}, NumLabel: map[string][]int64{f.key: {v}}, NumUnit: map[string][]string{f.key: {f.unit}}})
	}
	form := r.Intn(4)
	filter := map[int]string{0: fmt.Sprintf("%d%s:%d%s", lo, u, hi, u), 1: fmt.Sprintf("%d%s:", lo, u), 2: fmt.Sprintf(":%d%s", hi, u), 3: fmt.Sprintf("%d%s", lo, u)}[form]
	in := func(v int64) bool {
		switch form {
		case 0:
			return v >= lo*uf && v <= hi*uf
		case 1:
			return v >= lo*uf
		case 2:
			return v <= hi*uf
		}
		return v == lo*uf
	}
	opt := []string{"tagfocus", "tagignore"}[r.Intn(2)]
	desc := fmt.Sprintf("%s=%s on tag %s (in %s) with values %v", opt, filter, f.key, f.unit, vals)
	res := harness.Result{NonTrivial: true, Sig: desc, Sample: desc}
	out, ui, rr := drv.Report(map[string]*profile.Profile{"p": p}, []string{"p"}, map[string]bool{"proto": true}, map[string]string{opt: filter}, nil, nil, nil)
	if rr.Panic != "" || rr.Err != nil {
		return harness.Violation("%s: failed: %v %s %v", desc, rr.Err, rr.Panic, ui.Errs)
	}
	q, err := profile.ParseData([]byte(out))
	if err != nil {
		return harness.Violation("%s: output unparseable: %v", desc, err)
	}
	c.Stat("tag_range_filters", 1)
	got := map[string]bool{}
	for _, sm := range q.Sample {
		if v := sm.Label["id"]; len(v) == 1 {
			got[v[0]] = true
		}
	}
	for id, v := range vals {
		want := in(v) == (opt == "tagfocus")
		if got[id] != want {
			res.Verdict = harness.Violated
			res.Detail = fmt.Sprintf("%s: the sample tagged %d %s is kept=%v; %d %s is exactly %d/%d %s, so kept=%v is expected", desc, v, f.unit, got[id], v, f.unit, v, uf, u, want)
			return res
		}
	}
	return res
}

// part parallel: labels are a function of (value, unit, target) also when several goroutines format
// at once (web handlers do): the labels computed by 8 goroutines equal the ones computed one at a time.
func runParallel(c *harness.Ctx) harness.Result {
	r := c.Rng
	type q struct {
		v        int64
		from, to string
	}
	var qs []q
	var want []string
	for i := 0; i < 400; i++ {
		fs := fromSpecs[r.Intn(len(fromSpecs))]
		fam := families[fs.fam]
		to := []string{"auto", "minimum", fam.units[r.Intn(len(fam.units))].aliases[0]}[r.Intn(3)]
		x := q{randVal(r), fs.spelling, to}
		qs = append(qs, x)
		want = append(want, measurement.ScaledLabel(x.v, x.from, x.to))
	}
	res := harness.Result{NonTrivial: true, Sig: fmt.Sprint("parallel", c.Index), Sample: "400 (value, unit, target) triples formatted by 8 goroutines at once"}
	var wg sync.WaitGroup
	bad := make([]string, 8)
	for g := 0; g < 8; g++ {
		wg.Add(1)
		go func(g int) {
			defer wg.Done()
			for rep := 0; rep < 20 && bad[g] == ""; rep++ {
				for k := range qs {
					i := (k*7 + g*53 + rep) % len(qs)
					if got := measurement.ScaledLabel(qs[i].v, qs[i].from, qs[i].to); got != want[i] {
						bad[g] = fmt.Sprintf("ScaledLabel(%d, %q, %q) = %q while other goroutines format labels; alone it is %q", qs[i].v, qs[i].from, qs[i].to, got, want[i])
						break
					}
				}
			}
		}(g)
	}
	wg.Wait()
	c.Stat("parallel_label_calls", int64(8*20*len(qs)))
	for _, b := range bad {
		if b != "" {
			res.Verdict, res.Detail = harness.Violated, b
			return res
		}
	}
	return res
}

// part nodelets: the numeric tag "bytes" shown as nodelets of a graph node. The tag carries its
// own unit (any spelling of a memory unit, or none = bytes); each nodelet label read back with its
// unit is within display rounding of value x unit.
func runNodelets(c *harness.Ctx) harness.Result {
	r := c.Rng
	var mem []fromSpec
	for _, fs := range fromSpecs {
		if fs.fam == 0 {
			mem = append(mem, fs)
		}
	}
	fs := mem[r.Intn(len(mem))]
	fam := families[0]
	fu := fam.units[fs.u]
	spelling := fs.spelling
	if r.Intn(5) == 0 {
		spelling, fu = "", fam.units[0]
	}
	p := &profile.Profile{SampleType: []*profile.ValueType{{Type: "objects", Unit: "count"}}, PeriodType: &profile.ValueType{Type: "space", Unit: "bytes"}, Period: 1}
	fn := &profile.Function{ID: 1, Name: "alloc", SystemName: "alloc", Filename: "x.go"}
	loc := &profile.Location{ID: 1, Address: 0x1000, Line: []profile.Line{{Function: fn, Line: 1}}}
	p.Function, p.Location = []*profile.Function{fn}, []*profile.Location{loc}
	var want []*big.Rat
	seen := map[int64]bool{}
	for i, n := 0, 1+r.Intn(4); i < n; i++ {
		v := int64(1 + r.Intn(4000))
		if r.Intn(3) == 0 {
			v = int64(1+r.Intn(900)) << uint(10*r.Intn(3))
		}
		if seen[v] {
			continue
		}
		seen[v] = true
		sm := &profile.Sample{Value: []int64{int64(1 + i)}, Location: []*profile.Location{loc}, NumLabel: map[string][]int64{"bytes": {v}}}
		if spelling != "" {
			sm.NumUnit = map[string][]string{"bytes": {spelling}}
		}
		p.Sample = append(p.Sample, sm)
		want = append(want, mul(v, fu.factor))
	}
	desc := fmt.Sprintf("-dot of samples tagged bytes=%v with unit %q", seen, spelling)
	res := harness.Result{NonTrivial: true, Sig: desc, Sample: desc}
	out, ui, rr := drv.Report(map[string]*profile.Profile{"p": p}, []string{"p"}, map[string]bool{"dot": true}, nil, nil, nil, nil)
	if rr.Panic != "" || rr.Err != nil {
		return harness.Violation("%s: failed: %v %s %v", desc, rr.Err, rr.Panic, ui.Errs)
	}
	c.Stat("nodelet_graphs", 1)
	var got []*big.Rat
	for _, m := range regexp.MustCompile(`(?m)^NN[0-9]+_[0-9]+ \[label = "([^"]*)"`).FindAllStringSubmatch(out, -1) {
		v, ok := parseLabel(m[1], fam)
		if !ok {
			return harness.Violation("%s: nodelet label %q is not a number with a memory unit\n%s", desc, m[1], out)
		}
		got = append(got, v)
		c.Stat("nodelet_labels", 1)
	}
	// values whose labels coincide share a nodelet: every label stands for at least one tag value
	// and every tag value is stood for by a label, within display rounding
	closeTo := func(g, w *big.Rat) bool {
		_, wu := autoExpect(fam, w)
		uf := rat(1, 1)
		for _, u := range fam.units {
			if u.canon == wu {
				uf = u.factor
			}
		}
		tol := new(big.Rat).Mul(rat(5001, 1000000), uf)
		d := new(big.Rat).Sub(g, w)
		return d.Abs(d).Cmp(tol) <= 0
	}
	fl := func(xs []*big.Rat) []float64 {
		var out []float64
		for _, x := range xs {
			f, _ := x.Float64()
			out = append(out, f)
		}
		sort.Float64s(out)
		return out
	}
	bad := len(got) == 0 || len(got) > len(want)
	for _, g := range got {
		ok := false
		for _, w := range want {
			ok = ok || closeTo(g, w)
		}
		bad = bad || !ok
	}
	for _, w := range want {
		ok := false
		for _, g := range got {
			ok = ok || closeTo(g, w)
		}
		bad = bad || !ok
	}
	if bad {
		res.Verdict = harness.Violated
		res.Detail = fmt.Sprintf("%s: the nodelet labels read back as %v bytes where the tag values are %v bytes (value x unit; display rounding allowed, values with equal labels share a nodelet)\n%s", desc, fl(got), fl(want), out)
	}
	return res
}

func init() {
	harness.Register(&harness.Check{
		ID:    "C15",
		Level: "exploration",
		Rule: "part lattice (exhaustive over the enumerated lattice): every alias x 5 spellings (lower, upper, title, plural, upper plural) of every unit as source x every alias of every unit of the family as target x boundary values {0, +-1, factor-1, factor, factor+1 for every unit step, 2^53+-1, MaxInt64, MinInt64, ...}; plus auto/minimum, negation, unknown and foreign targets. part random: random int64 values, unknown source units. part labels: Label read back through its printed unit within half a display digit, monotone. part drivertop: the real driver's -top -unit=<any alias | minimum> on a profile whose sample unit is any spelling: every flat value read back through the unit it is printed in lies within half a display digit of the exact value, and an explicit unit is the one shown; the same values under -divide_by printed one by one by -traces (a unit per value) must read back as value/divide_by; for time-typed profiles with a duration the legend's 'total as a percentage of the duration' must be total/duration within display rounding. part percentage. part scaleprofiles: 2-4 profiles with two measured columns (bytes, time or GCU family; half of the time both of the same family so that one unit string needs two different conversions) next to a non-convertible column; every column must be harmonised to the finest unit among the inputs, sample counts and the other column unchanged, physical totals exact (GCU: within 1e-12 relative); every fifth case one profile's column is in an unknown unit or in a unit of another family, at any position of the list, and ScaleProfiles must refuse. " +
			"oracle: exact math/big.Rat unit tables (1e-12 relative tolerance for float64). part nodelets: numeric tag values on DOT nodelets read back and compared with the tag values (two-way cover). part parallel: labels formatted from many goroutines equal the sequential ones. part tagrange: tagfocus/tagignore ranges with units compared exactly against the converted bounds. non-trivial = every case; distinct = distinct (source spelling, values)",
		Assumptions: []string{"unit tables as documented in pprof's measurement package: B..PB powers of 1024; ns/us/ms/s/hrs; GCU SI prefixes", "results are float64: exact ratio and identity are judged within 1e-12 relative error (1 ulp differences from multiply-then-divide are not display-visible)"},
		Parts: []harness.Part{
			{Name: "lattice", Quick: len(fromSpecs), Thor: len(fromSpecs), Run: runLattice},
			{Name: "random", Quick: 1500, Thor: 150000, Run: runRandom},
			{Name: "labels", Quick: 3000, Thor: 300000, Run: runLabels},
			{Name: "drivertop", Quick: 1500, Thor: 60000, Run: runDriverTop},
			{Name: "percentage", Quick: 500, Thor: 50000, Run: runPercentage},
			{Name: "scaleprofiles", Quick: 2000, Thor: 200000, Run: runScaleProfiles},
			{Name: "nodelets", Quick: 600, Thor: 30000, Run: runNodelets},
			{Name: "parallel", Quick: 40, Thor: 2000, Run: runParallel},
			{Name: "tagrange", Quick: 600, Thor: 30000, Run: runTagRange},
		},
		Extra: func(tier string, st map[string]int64) map[string]any {
			return map[string]any{"exhaustive_part": "lattice", "lattice_sources": len(fromSpecs)}
		},
		MinNonTrivial: func(string) int { return 500 },
	})
}
