// Package c06 monitors sample filters (focus/ignore/hide/show/show_from, tagfocus/tagignore,
// tagshow/taghide) at API and driver level against a reference written from doc/README.md.
package c06

import (
	"bytes"
	"fmt"
	"math/rand"
	"regexp"
	"sort"
	"strconv"
	"strings"
	"time"

	"github.com/google/pprof/profile"
	"github.com/google/pprof/verif/internal/drv"
	"github.com/google/pprof/verif/internal/harness"
	"github.com/google/pprof/verif/internal/mon"
	"github.com/google/pprof/verif/internal/sess"
)

type fframe struct {
	fn, file, bin string
	line          int64
	addr          uint64
	sym           bool
}

func (f fframe) String() string {
	if !f.sym {
		return fmt.Sprintf("?%x[%s]", f.addr, f.bin)
	}
	return fmt.Sprintf("%s(%s:%d)[%s]", f.fn, f.file, f.line, f.bin)
}

// frames root -> leaf
func fview(s *profile.Sample) []fframe {
	var out []fframe
	for i := len(s.Location) - 1; i >= 0; i-- {
		l := s.Location[i]
		bin := ""
		if l.Mapping != nil {
			bin = l.Mapping.File
		}
		if len(l.Line) == 0 {
			out = append(out, fframe{bin: bin, addr: l.Address})
			continue
		}
		for j := len(l.Line) - 1; j >= 0; j-- {
			f := l.Line[j].Function
			out = append(out, fframe{f.Name, f.Filename, bin, l.Line[j].Line, l.Address, true})
		}
	}
	return out
}

func fmatch(f fframe, rx *regexp.Regexp) bool {
	return (f.sym && (rx.MatchString(f.fn) || rx.MatchString(f.file))) || (f.bin != "" && rx.MatchString(f.bin))
}

// outcome of the reference for one sample
type outcome struct {
	keep      bool
	frames    []fframe
	undecided bool // the statement does not decide (admissible either way)
}

func refNames(fs []fframe, focus, ignore, hide, show *regexp.Regexp) outcome {
	foc := focus == nil
	for _, f := range fs {
		if ignore != nil && fmatch(f, ignore) {
			return outcome{}
		}
		if focus != nil && fmatch(f, focus) {
			foc = true
		}
	}
	if !foc {
		return outcome{}
	}
	if hide == nil && show == nil {
		return outcome{keep: true, frames: fs}
	}
	if len(fs) == 0 {
		return outcome{undecided: true}
	}
	var out []fframe
	for _, f := range fs {
		if hide != nil && fmatch(f, hide) {
			continue
		}
		if show != nil {
			if !f.sym {
				return outcome{undecided: true} // unsymbolized frame under show: not decided by the statement
			}
			if !fmatch(f, show) {
				continue
			}
		}
		out = append(out, f)
	}
	if len(out) == 0 {
		return outcome{}
	}
	return outcome{keep: true, frames: out}
}

func refShowFrom(fs []fframe, rx *regexp.Regexp) outcome {
	if rx == nil {
		return outcome{keep: true, frames: fs}
	}
	for i, f := range fs {
		if fmatch(f, rx) {
			return outcome{keep: true, frames: fs[i:]}
		}
	}
	return outcome{}
}

var fnNames = []string{"f0", "f1", "f2", "f3", "main", "alloc", "xf3", "f3x", "main.run", "domain"}
var fileNames = []string{"file0.go", "file1.go", "dir/f2.cc", "/proc/self/cwd/pkg/f3.go", "/proc/self/cwd/./gen/f4.go", "", ""}
var namePats = []string{"f0", "f1|f2", "file1", "binA", "^f3$", "zzz", "bin", "f", "main$", "\\.cc", "[0-1]$", "lib/", "^main$", "^main\\.run$", "\\Af0\\z", "(?i)F1|zz", "^f3", "cwd", "^/proc/self", "self/cwd/pkg", "^$", "^[^.]*$", "^(file0\\.go)?$"}

func genProfile(r *rand.Rand) *profile.Profile {
	m1 := &profile.Mapping{ID: 1, Start: 0x1000, Limit: 0x2000, File: "/bin/binA"}
	m2 := &profile.Mapping{ID: 2, Start: 0x3000, Limit: 0x4000, File: "/lib/binB"}
	p := &profile.Profile{SampleType: []*profile.ValueType{{Type: "n", Unit: "count"}, {Type: "v", Unit: "count"}}, Mapping: []*profile.Mapping{m1, m2}, PeriodType: &profile.ValueType{Type: "cpu", Unit: "ns"}, Period: 1}
	nf := 2 + r.Intn(5)
	// ids are distinct but neither dense nor ordered (any value just above the table size included)
	fid := r.Perm(2*nf + 1)
	for i := 0; i < nf; i++ {
		p.Function = append(p.Function, &profile.Function{ID: uint64(fid[i] + 1), Name: fnNames[r.Intn(len(fnNames))], SystemName: "s", Filename: fileNames[r.Intn(len(fileNames))]})
	}
	nl := 2 + r.Intn(6)
	lid := r.Perm(2*nl + 1)
	for i := 0; i < nl; i++ {
		l := &profile.Location{ID: uint64(lid[i] + 1), Address: uint64(0x1000 + i*16)}
		switch r.Intn(3) {
		case 0:
			l.Mapping = m1
		case 1:
			l.Mapping, l.Address = m2, uint64(0x3000+i*16)
		}
		for j, n := 0, r.Intn(4); j < n; j++ {
			l.Line = append(l.Line, profile.Line{Function: p.Function[r.Intn(nf)], Line: int64(1 + r.Intn(3))})
		}
		p.Location = append(p.Location, l)
	}
	for i, n := 0, 1+r.Intn(8); i < n; i++ {
		s := &profile.Sample{Value: []int64{int64(1 + r.Intn(3)), int64(r.Intn(7) - 2)}, Label: map[string][]string{"id": {strconv.Itoa(i)}}}
		for j, d := 0, r.Intn(6); j < d; j++ {
			s.Location = append(s.Location, p.Location[r.Intn(nl)])
		}
		p.Sample = append(p.Sample, s)
	}
	return p
}

func pick(r *rand.Rand, prob int) (string, *regexp.Regexp) {
	if r.Intn(prob) != 0 {
		return "", nil
	}
	s := namePats[r.Intn(len(namePats))]
	return s, regexp.MustCompile(s)
}

func idOf(s *profile.Sample) int {
	if v := s.Label["id"]; len(v) == 1 {
		n, err := strconv.Atoi(v[0])
		if err == nil {
			return n
		}
	}
	return -1
}

func fstr(fs []fframe) string {
	var p []string
	for _, f := range fs {
		p = append(p, f.String())
	}
	return "[" + strings.Join(p, " ") + "]"
}

// compare pprof's resulting samples with per-sample outcomes
func compare(orig *profile.Profile, got *profile.Profile, want []outcome, origVals [][]int64) string {
	seen := map[int]bool{}
	last := -1
	for _, s := range got.Sample {
		id := idOf(s)
		if id < 0 || id >= len(want) {
			return fmt.Sprintf("result contains a sample without its id label: %v", s.Label)
		}
		if seen[id] {
			return fmt.Sprintf("sample %d appears twice", id)
		}
		if id < last {
			return fmt.Sprintf("sample order changed: %d after %d", id, last)
		}
		last = id
		seen[id] = true
		w := want[id]
		if fmt.Sprint(s.Value) != fmt.Sprint(origVals[id]) {
			return fmt.Sprintf("sample %d values changed: %v -> %v", id, origVals[id], s.Value)
		}
		if w.undecided {
			continue
		}
		if !w.keep {
			return fmt.Sprintf("sample %d should have been dropped but is present with frames %s", id, fstr(fview(s)))
		}
		if g := fstr(fview(s)); g != fstr(w.frames) {
			return fmt.Sprintf("sample %d frames(root->leaf) %s, expected %s", id, g, fstr(w.frames))
		}
	}
	for id, w := range want {
		if w.keep && !w.undecided && !seen[id] {
			return fmt.Sprintf("sample %d should have been kept (frames %s) but is missing", id, fstr(w.frames))
		}
	}
	return ""
}

var tracesIDRx = regexp.MustCompile(`(?m)^\s+id:\s+(\d+)\s*$`)

func runNames(c *harness.Ctx) harness.Result {
	r := c.Rng
	p := genProfile(r)
	fs, focus := pick(r, 2)
	is, ignore := pick(r, 3)
	hs, hide := pick(r, 3)
	ss, show := pick(r, 4)
	sfs, showFrom := pick(r, 4)
	viaDriver := r.Intn(2) == 0
	viaTraces := viaDriver && r.Intn(3) == 0 // an aggregating text report instead of -proto
	if focus == nil && ignore == nil && hide == nil && show == nil && showFrom == nil {
		fs, focus = namePats[0], regexp.MustCompile(namePats[0])
	}
	var want []outcome
	var vals [][]int64
	und := 0
	for _, s := range p.Sample {
		o := refNames(fview(s), focus, ignore, hide, show)
		if o.keep && !o.undecided && showFrom != nil {
			o = refShowFrom(o.frames, showFrom)
		} else if o.undecided && showFrom != nil {
			o = outcome{undecided: true}
		}
		if o.undecided {
			und++
		}
		want = append(want, o)
		vals = append(vals, append([]int64(nil), s.Value...))
	}
	desc := fmt.Sprintf("focus=%q ignore=%q hide=%q show=%q show_from=%q driver=%v", fs, is, hs, ss, sfs, viaDriver)
	res := harness.Result{NonTrivial: len(p.Sample) > und, Sig: desc + fmt.Sprint(len(p.Sample), und), Sample: map[string]any{"filters": desc, "first_sample": fstr(fview(p.Sample[0]))}}
	before := p.String()
	var got *profile.Profile
	if viaTraces {
		// pprof -traces at the default granularity (functions): the filters must see the frames
		// as they are in the profile (files, inlined frames), not as the report aggregates them.
		// The samples that survive are identified by their id label.
		gran := []string{"functions", "files", "lines", "filefunctions"}[r.Intn(4)]
		desc += " via -traces " + gran
		out, ui, rr := drv.Report(map[string]*profile.Profile{"p": p}, []string{"p"}, map[string]bool{"traces": true, gran: true, "relative_percentages": r.Intn(2) == 0, "noinlines": r.Intn(3) == 0},
			map[string]string{"focus": fs, "ignore": is, "hide": hs, "show": ss, "show_from": sfs}, nil, nil, nil)
		if rr.Panic != "" {
			return harness.Violation("%s: panic %s", desc, rr.Panic)
		}
		if rr.Err != nil {
			return harness.Violation("%s: pprof -traces failed: %v (%v)\n%s", desc, rr.Err, ui.Errs, before)
		}
		c.Stat("traces_runs", 1)
		seen := map[int]bool{}
		for _, m := range tracesIDRx.FindAllStringSubmatch(out, -1) {
			id, _ := strconv.Atoi(m[1])
			seen[id] = true
		}
		for id, w := range want {
			if w.undecided {
				continue
			}
			if w.keep && len(w.frames) > 0 && !seen[id] {
				res.Verdict, res.Detail = harness.Violated, fmt.Sprintf("%s: sample %d should have been kept (frames %s) but is not in the -traces output\n%s\nprofile:\n%s", desc, id, fstr(w.frames), harness.Trunc(out, 1500), harness.Trunc(before, 2500))
				return res
			}
			if !w.keep && seen[id] {
				res.Verdict, res.Detail = harness.Violated, fmt.Sprintf("%s: sample %d should have been dropped but is in the -traces output\n%s\nprofile:\n%s", desc, id, harness.Trunc(out, 1500), harness.Trunc(before, 2500))
				return res
			}
		}
		return res
	}
	if viaDriver {
		out, ui, rr := drv.Report(map[string]*profile.Profile{"p": p}, []string{"p"}, map[string]bool{"proto": true, "relative_percentages": r.Intn(2) == 0},
			map[string]string{"focus": fs, "ignore": is, "hide": hs, "show": ss, "show_from": sfs}, nil, nil, nil)
		if rr.Panic != "" {
			return harness.Violation("%s: panic %s", desc, rr.Panic)
		}
		if rr.Err != nil {
			return harness.Violation("%s: pprof -proto failed: %v (%v)\n%s", desc, rr.Err, ui.Errs, before)
		}
		var err error
		got, err = profile.ParseData([]byte(out))
		if err != nil {
			return harness.Violation("%s: -proto output unparseable: %v", desc, err)
		}
		c.Stat("driver_runs", 1)
	} else {
		got = p.Copy()
		got.FilterSamplesByName(focus, ignore, hide, show)
		got.ShowFrom(showFrom)
		if err := mon.Valid(got); err != nil {
			return harness.Violation("%s: profile invalid after filtering: %v", desc, err)
		}
		c.Stat("api_runs", 1)
	}
	c.Stat("samples", int64(len(p.Sample)))
	c.Stat("samples_undecided", int64(und))
	if msg := compare(p, got, want, vals); msg != "" {
		res.Verdict, res.Detail = harness.Violated, desc+": "+msg+"\nprofile:\n"+harness.Trunc(before, 3000)
	}
	return res
}

// interactive arguments: "proto F1 F2 -I1 > file" in a fresh interactive session filters like
// focus=F1|F2 ignore=I1 (arguments apply to that command only)
func runInteractive(c *harness.Ctx) harness.Result {
	r := c.Rng
	p := genProfile(r)
	words := []string{"f0", "f1|f2", "file1", "binA", "^f3$", "zzz", "bin", "f", "main$", "[0-1]$", "lib/"}
	var fw, iw []string
	for i, n := 0, r.Intn(3); i < n; i++ {
		fw = append(fw, words[r.Intn(len(words))])
	}
	for i, n := 0, r.Intn(3); i < n; i++ {
		iw = append(iw, words[r.Intn(len(words))])
	}
	if len(fw)+len(iw) == 0 {
		fw = []string{"f"}
	}
	var focus, ignore *regexp.Regexp
	if len(fw) > 0 {
		focus = regexp.MustCompile(strings.Join(fw, "|"))
	}
	if len(iw) > 0 {
		ignore = regexp.MustCompile(strings.Join(iw, "|"))
	}
	var args []string
	args = append(args, fw...)
	for _, w := range iw {
		args = append(args, "-"+w)
	}
	r.Shuffle(len(args), func(i, j int) { args[i], args[j] = args[j], args[i] })
	line := "proto " + strings.Join(args, " ") + " > out.pb.gz"
	var want []outcome
	var vals [][]int64
	und := 0
	for _, s := range p.Sample {
		o := refNames(fview(s), focus, ignore, nil, nil)
		if o.undecided {
			und++
		}
		want = append(want, o)
		vals = append(vals, append([]int64(nil), s.Value...))
	}
	desc := fmt.Sprintf("interactive line %q", line)
	res := harness.Result{NonTrivial: len(p.Sample) > und, Sig: desc + fmt.Sprint(len(p.Sample), c.Index), Sample: map[string]any{"line": line}}
	var buf bytes.Buffer
	if err := p.WriteUncompressed(&buf); err != nil {
		return harness.Result{Verdict: harness.Inconclusive, Detail: err.Error()}
	}
	// a second, argument-free command checks that the arguments did not stick; half of the sessions
	// start with a report under a label filter that is switched off again before the command
	lines := []string{line, "proto > all.pb.gz"}
	if r.Intn(2) == 0 {
		pre := [][]string{{"taghide=id", "top", "taghide="}, {"tagshow=nosuch", "traces", "tagshow="}, {"tagfocus=id:7", "top", "tagfocus="}}[r.Intn(3)]
		lines = append(append([]string{}, pre...), lines...)
		desc += fmt.Sprintf(" after %q", pre)
	}
	sr, err := sess.Run(sess.Spec{Profile: buf.Bytes(), Mode: "interactive", Lines: lines, Dir: c.Tmp + "/s"}, 2*time.Minute)
	if err != nil {
		return harness.Result{Verdict: harness.Inconclusive, Detail: "session: " + err.Error()}
	}
	c.Stat("interactive_sessions", 1)
	if len(sr.Segments) < len(lines) {
		return harness.Result{Verdict: harness.Inconclusive, Detail: fmt.Sprintf("session produced %d segments", len(sr.Segments))}
	}
	sr.Segments = sr.Segments[len(lines)-2:]
	read := func(seg sess.Segment, name string) (*profile.Profile, string) {
		for fn, body := range seg.Files {
			if strings.HasSuffix(fn, name) {
				q, err := profile.ParseData(sess.FileBytes(body))
				if err != nil {
					return nil, fmt.Sprintf("%s is not a profile: %v", name, err)
				}
				return q, ""
			}
		}
		return nil, fmt.Sprintf("no file %s was written (ui errors: %v)", name, seg.UIErr)
	}
	got, e := read(sr.Segments[0], "out.pb.gz")
	if e != "" {
		allDropped := true
		for _, w := range want {
			if w.keep || w.undecided {
				allDropped = false
			}
		}
		if allDropped {
			c.Stat("interactive_nothing_left", 1)
			return res // nothing matches: pprof reports that instead of writing an empty profile
		}
		return harness.Violation("%s: %s\nprofile:\n%s", desc, e, harness.Trunc(p.String(), 2500))
	}
	if msg := compare(p, got, want, vals); msg != "" {
		res.Verdict, res.Detail = harness.Violated, desc+": "+msg+"\nprofile:\n"+harness.Trunc(p.String(), 3000)
		return res
	}
	all, e := read(sr.Segments[1], "all.pb.gz")
	if e != "" {
		return harness.Violation("%s then 'proto > all.pb.gz': %s", desc, e)
	}
	if len(all.Sample) != len(p.Sample) {
		res.Verdict, res.Detail = harness.Violated, fmt.Sprintf("%s: the next command without arguments saved %d of %d samples: the arguments of the previous line stuck", desc, len(all.Sample), len(p.Sample))
	}
	return res
}

// partition law: focus=R and ignore=R split the profile; totals add up
func runPartition(c *harness.Ctx) harness.Result {
	r := c.Rng
	p := genProfile(r)
	pat := namePats[r.Intn(len(namePats))]
	rx := regexp.MustCompile(pat)
	a, b := p.Copy(), p.Copy()
	a.FilterSamplesByName(rx, nil, nil, nil)
	b.FilterSamplesByName(nil, rx, nil, nil)
	res := harness.Result{NonTrivial: len(p.Sample) >= 2, Sig: pat + fmt.Sprint(len(p.Sample), len(a.Sample)), Sample: fmt.Sprintf("R=%q: %d samples -> focus %d + ignore %d", pat, len(p.Sample), len(a.Sample), len(b.Sample))}
	ids := map[int]int{}
	var tot [2]int64
	for _, q := range []*profile.Profile{a, b} {
		for _, s := range q.Sample {
			ids[idOf(s)]++
			tot[0] += s.Value[0]
			tot[1] += s.Value[1]
		}
	}
	var want [2]int64
	for i, s := range p.Sample {
		want[0] += s.Value[0]
		want[1] += s.Value[1]
		if ids[i] != 1 {
			res.Verdict, res.Detail = harness.Violated, fmt.Sprintf("R=%q: sample %d (frames %s) appears %d times in focus=R plus ignore=R; the two must partition the profile\n%s", pat, i, fstr(fview(s)), ids[i], p.String())
			return res
		}
	}
	if tot != want {
		res.Verdict, res.Detail = harness.Violated, fmt.Sprintf("R=%q: totals %v + do not add up to %v", pat, tot, want)
		return res
	}
	// the same through -top totals
	if c.Index%4 == 0 {
		total := func(flags map[string]string) (int64, string) {
			flags["sample_index"] = "n"
			out, _, rr := drv.Report(map[string]*profile.Profile{"p": p}, []string{"p"}, map[string]bool{"top": true, "relative_percentages": true, "trim": false}, flags, nil, nil, nil)
			if rr.Err != nil || rr.Panic != "" {
				return 0, fmt.Sprint(rr.Err, rr.Panic)
			}
			for _, l := range strings.Split(out, "\n") {
				var acc, t int64
				var pct string
				if n, _ := fmt.Sscanf(l, "Showing nodes accounting for %d, %s of %d total", &acc, &pct, &t); n == 3 {
					return t, ""
				}
			}
			return 0, "no total line in " + out
		}
		tf, e1 := total(map[string]string{"focus": pat})
		ti, e2 := total(map[string]string{"ignore": pat})
		if e1 == "" && e2 == "" {
			c.Stat("top_partition_runs", 1)
			var wa int64
			for _, s := range p.Sample {
				if s.Value[0] < 0 {
					wa -= s.Value[0]
				} else {
					wa += s.Value[0]
				}
			}
			if tf+ti != wa {
				res.Verdict, res.Detail = harness.Violated, fmt.Sprintf("R=%q: -top totals with relative_percentages: focus %d + ignore %d != unfiltered %d", pat, tf, ti, wa)
			}
		}
	}
	return res
}

// ---- tag filters ----------------------------------------------------------------------

var byteF = map[string]int64{"b": 1, "bytes": 1, "kb": 1024, "mb": 1 << 20, "": 0}
var timeF = map[string]int64{"ns": 1, "us": 1000, "ms": 1000000, "s": 1000000000}

type labelSpec struct {
	sizeUnit string  // unit of key "size" profile-wide (bytes family)
	durUnit  string  // unit of key "dur" profile-wide (time family)
	seconds  []int64 // whole-second values present in nanosecond "dur" labels
}

// base value of a numeric label in its family's base unit; fam: "b", "t", "" (unknown/unitless)
func (ls labelSpec) base(key string, v int64) (int64, string) {
	switch key {
	case "size":
		return v * byteF[ls.sizeUnit], "b"
	case "dur":
		return v * timeF[ls.durUnit], "t"
	case "request":
		return v, "b" // unit inferred from the key, as documented for NumLabelUnits
	}
	return v, ""
}

type tagFilter struct {
	src   string
	match func(s *profile.Sample) bool
}

func mkTagFilter(r *rand.Rand, ls labelSpec) tagFilter {
	switch r.Intn(6) {
	case 0: // regexps on key:value, comma = AND
		parts := []string{[]string{"aa", "k1:a", "b$", "k2", "zz", "^k1:ab$", "(?i)k1:aa"}[r.Intn(7)]}
		if r.Intn(3) == 0 {
			parts = append(parts, []string{"ab", "k2:b"}[r.Intn(2)])
		}
		return tagFilter{strings.Join(parts, ","), func(s *profile.Sample) bool {
			for _, pt := range parts {
				rx := regexp.MustCompile(pt)
				ok := false
				for k, vs := range s.Label {
					for _, v := range vs {
						if rx.MatchString(k + ":" + v) {
							ok = true
						}
					}
				}
				if !ok {
					return false
				}
			}
			return true
		}}
	case 1: // key=regexps, comma = OR
		key := []string{"k1", "k2", "nokey", "http.method", "a+b"}[r.Intn(5)]
		parts := []string{[]string{"aa", "^a", "b", "(?i)aa", "(?i)^b$", "(?i:a)a"}[r.Intn(6)]}
		if r.Intn(2) == 0 {
			parts = append(parts, []string{"ab", "ab", "^b"}[r.Intn(3)])
		}
		return tagFilter{key + "=" + strings.Join(parts, ","), func(s *profile.Sample) bool {
			for _, pt := range parts {
				rx := regexp.MustCompile(pt)
				for _, v := range s.Label[key] {
					if rx.MatchString(v) {
						return true
					}
				}
			}
			return false
		}}
	}
	// numeric range
	fam := []string{"b", "b", "t", ""}[r.Intn(4)]
	onSeconds := len(ls.seconds) > 0 && r.Intn(2) == 0
	if onSeconds {
		fam = "t"
	}
	var u string
	var f int64
	upper := false // the unit written the way pprof prints it (kB, MB) or in capitals
	switch fam {
	case "b":
		u = []string{"b", "kb", "mb"}[r.Intn(3)]
		f = byteF[u]
		upper = r.Intn(3) == 0
	case "t":
		u = []string{"ns", "us", "ms", "s"}[r.Intn(4)]
		f = timeF[u]
		upper = r.Intn(3) == 0
	default:
		u, f = "", 1
	}
	lo, hi := int64(r.Intn(4)), int64(2+r.Intn(4))
	if u == "b" || u == "ns" {
		lo, hi = lo*512, hi*512
	}
	if onSeconds {
		u, f = "s", timeF["s"]
	}
	if u == "s" {
		lo = int64(1 + r.Intn(64))
		hi = lo + int64(r.Intn(8))
		if onSeconds { // bounds that coincide with label values
			lo = ls.seconds[r.Intn(len(ls.seconds))]
			hi = ls.seconds[r.Intn(len(ls.seconds))]
			if hi < lo {
				lo, hi = hi, lo
			}
		}
	}
	form := r.Intn(4)
	var src string
	if upper {
		u = map[string]string{"b": "B", "kb": []string{"kB", "KB"}[r.Intn(2)], "mb": "MB", "ns": "NS", "us": "US", "ms": "Ms", "s": "S"}[u]
	}
	switch form {
	case 0:
		src = fmt.Sprintf("%d%s:%d%s", lo, u, hi, u)
	case 1:
		src = fmt.Sprintf("%d%s:", lo, u)
	case 2:
		src = fmt.Sprintf(":%d%s", hi, u)
	case 3:
		src = fmt.Sprintf("%d%s", lo, u)
	}
	key := ""
	if r.Intn(2) == 0 {
		key = []string{"size", "cnt", "dur", "request"}[r.Intn(4)]
		src = key + "=" + src
	}
	return tagFilter{src, func(s *profile.Sample) bool {
		for k, vs := range s.NumLabel {
			if key != "" && k != key {
				continue
			}
			for _, v := range vs {
				b, lfam := ls.base(k, v)
				if lfam != fam {
					continue // not convertible: never in range
				}
				l, h := lo*f, hi*f
				switch form {
				case 0:
					if b >= l && b <= h {
						return true
					}
				case 1:
					if b >= l {
						return true
					}
				case 2:
					if b <= h {
						return true
					}
				case 3:
					if b == l {
						return true
					}
				}
			}
		}
		return false
	}}
}

func labelSig(s *profile.Sample) string {
	var ls []string
	for k, v := range s.Label {
		ls = append(ls, fmt.Sprintf("%s=%q", k, v))
	}
	for k, v := range s.NumLabel {
		ls = append(ls, fmt.Sprintf("%s#%v%v", k, v, s.NumUnit[k]))
	}
	sort.Strings(ls)
	return strings.Join(ls, ",")
}

func runTags(c *harness.Ctx) harness.Result {
	r := c.Rng
	p := genProfile(r)
	ls := labelSpec{sizeUnit: []string{"bytes", "kb"}[r.Intn(2)], durUnit: []string{"ms", "us", "ns"}[r.Intn(3)]}
	for _, s := range p.Sample {
		for _, k := range []string{"k1", "k2", "http.method", "a+b"} {
			if r.Intn(3) == 0 {
				for j, n := 0, 1+r.Intn(2); j < n; j++ {
					s.Label[k] = append(s.Label[k], []string{"aa", "ab", "b", "AB", "B"}[r.Intn(5)])
				}
			}
		}
		if r.Intn(3) > 0 {
			s.NumLabel = map[string][]int64{}
			s.NumUnit = map[string][]string{}
			if r.Intn(2) == 0 {
				s.NumLabel["size"] = []int64{int64(1+r.Intn(5)) * 512}
				s.NumUnit["size"] = []string{ls.sizeUnit}
				if r.Intn(3) == 0 {
					s.NumLabel["size"] = append(s.NumLabel["size"], int64(1+r.Intn(3)))
					s.NumUnit["size"] = append(s.NumUnit["size"], ls.sizeUnit)
				}
			}
			if r.Intn(2) == 0 {
				s.NumLabel["cnt"] = []int64{int64(1 + r.Intn(4))}
			}
			if r.Intn(3) == 0 {
				s.NumLabel["dur"] = []int64{int64(1 + r.Intn(2000))}
				if ls.durUnit == "ns" {
					// whole seconds (and their neighbours) in nanoseconds: values that sit exactly on
					// the bounds of a range given in a coarser unit
					k := int64(1 + r.Intn(64))
					s.NumLabel["dur"] = []int64{k*1000000000 + []int64{0, 0, 0, 1, -1}[r.Intn(5)]}
					ls.seconds = append(ls.seconds, k)
				}
				s.NumUnit["dur"] = []string{ls.durUnit}
			}
			if r.Intn(3) == 0 {
				s.NumLabel["request"] = []int64{int64(1+r.Intn(4)) * 512}
			}
		}
	}
	var tf, ti *tagFilter
	if r.Intn(3) > 0 {
		f := mkTagFilter(r, ls)
		tf = &f
	}
	if r.Intn(3) == 0 {
		f := mkTagFilter(r, ls)
		ti = &f
	}
	showPat, hidePat := "", ""
	if r.Intn(3) == 0 {
		showPat = []string{"k1", "size|cnt", "^k", "id", "zz"}[r.Intn(5)]
	}
	if r.Intn(3) == 0 {
		hidePat = []string{"k2", "dur", "k", "size"}[r.Intn(4)]
	}
	flags := map[string]string{}
	desc := ""
	if tf != nil {
		flags["tagfocus"] = tf.src
	}
	if ti != nil {
		flags["tagignore"] = ti.src
	}
	if showPat != "" {
		flags["tagshow"] = showPat
	}
	if hidePat != "" {
		flags["taghide"] = hidePat
	}
	desc = fmt.Sprintf("tagfocus=%q tagignore=%q tagshow=%q taghide=%q (size in %s, dur in %s)", flags["tagfocus"], flags["tagignore"], showPat, hidePat, ls.sizeUnit, ls.durUnit)
	// expectation
	type exp struct {
		stack, labels string
		values        string
	}
	var want []exp
	var showRx, hideRx *regexp.Regexp
	if showPat != "" {
		showRx = regexp.MustCompile(showPat)
	}
	if hidePat != "" {
		hideRx = regexp.MustCompile(hidePat)
	}
	for _, s := range p.Sample {
		if (tf == nil || tf.match(s)) && (ti == nil || !ti.match(s)) {
			t := &profile.Sample{Label: map[string][]string{}, NumLabel: map[string][]int64{}, NumUnit: map[string][]string{}}
			keep := func(k string) bool {
				return (showRx == nil || showRx.MatchString(k)) && !(hideRx != nil && hideRx.MatchString(k))
			}
			for k, v := range s.Label {
				if keep(k) {
					t.Label[k] = v
				}
			}
			for k, v := range s.NumLabel {
				if keep(k) {
					t.NumLabel[k] = v
					if u, ok := s.NumUnit[k]; ok {
						t.NumUnit[k] = u
					}
				}
			}
			want = append(want, exp{fstr(fview(s)), labelSig(t), fmt.Sprint(s.Value)})
		}
	}
	res := harness.Result{NonTrivial: tf != nil || ti != nil, Sig: desc, Sample: map[string]any{"filters": desc, "first_sample_labels": labelSig(p.Sample[0])}}
	c.Stat("tag_runs", 1)
	out, ui, rr := drv.Report(map[string]*profile.Profile{"p": p}, []string{"p"}, map[string]bool{"proto": true}, flags, nil, nil, nil)
	if rr.Panic != "" {
		return harness.Violation("%s: panic %s", desc, rr.Panic)
	}
	if rr.Err != nil {
		return harness.Violation("%s: pprof -proto failed: %v (%v)", desc, rr.Err, ui.Errs)
	}
	gp, err := profile.ParseData([]byte(out))
	if err != nil {
		return harness.Violation("%s: -proto output unparseable: %v", desc, err)
	}
	var got []exp
	for _, s := range gp.Sample {
		// tagshow/taghide filtering leaves NumUnit entries of removed keys behind in memory but not
		// in the encoding; compare labels that exist
		t := &profile.Sample{Label: s.Label, NumLabel: s.NumLabel, NumUnit: map[string][]string{}}
		for k := range s.NumLabel {
			if u, ok := s.NumUnit[k]; ok {
				nonEmpty := false
				for _, x := range u {
					if x != "" {
						nonEmpty = true
					}
				}
				if nonEmpty {
					t.NumUnit[k] = u
				}
			}
		}
		got = append(got, exp{fstr(fview(s)), labelSig(t), fmt.Sprint(s.Value)})
	}
	if fmt.Sprint(got) != fmt.Sprint(want) {
		res.Verdict = harness.Violated
		res.Detail = fmt.Sprintf("%s\n got %d samples: %v\nwant %d samples: %v\nprofile:\n%s", desc, len(got), got, len(want), want, harness.Trunc(p.String(), 3000))
	}
	return res
}

func init() {
	harness.Register(&harness.Check{
		ID:    "C06",
		Level: "exploration",
		Rule: "part names: profiles over small name/file/binary alphabets with shared and inlined locations, unsymbolized frames and empty stacks, function and location ids distinct but neither dense nor ordered (values just above the table size included); every sample carries a unique id label so outcomes are matched per sample; random focus/ignore/hide/show/show_from expressions (23 patterns: literals, alternation, anchors, classes, path fragments), alone and combined, through the API (FilterSamplesByName + ShowFrom) and through the driver (-proto with the options, relative_percentages on/off; and -traces at functions/files/lines/filefunctions granularity with and without noinlines, where the set of surviving samples is read from their id labels). part interactive: 'proto F.. -I.. > file' typed into a fresh interactive session (1-4 focus words and -ignore words in any order) must filter like focus=F1|F2 ignore=I1|I2, and an argument-free command after it must see every sample again; half of the sessions first run a report under a label filter (taghide / tagshow / tagfocus) that is switched off again. part partition: focus=R plus ignore=R must contain every sample exactly once and totals must add up (also on -top totals). part tags: string labels and numeric labels in bytes/kb, ms/us, unitless and key-inferred units against regexp lists (AND without key, OR with key) and ranges N, N:, :N, N:M with unit conversion, optionally keyed, plus tagshow/taghide, through the driver. " +
			"oracle: reference filter written from doc/README.md over the frames view; values, labels and frame order must be retained. non-trivial = at least one decided sample / a tag filter present; distinct = (filters, sample counts)",
		Assumptions: []string{"undecided by the statement and accepted either way: empty-stack samples under hide/show, unsymbolized frames under show", "numeric label units are consistent per key within a profile", "a unitless range compares raw values of labels without a known unit"},
		Parts: []harness.Part{
			{Name: "names", Quick: 12000, Thor: 400000, Run: runNames},
			{Name: "partition", Quick: 4000, Thor: 150000, Run: runPartition},
			{Name: "tags", Quick: 6000, Thor: 200000, Run: runTags},
			{Name: "interactive", Quick: 200, Thor: 6000, Run: runInteractive},
		},
		MinNonTrivial: func(string) int { return 1000 },
	})
}
