// Package c03 monitors profile.Merge / Compact against the frames-view reference:
// conservation of every stack's weight and symbol information.
package c03

import (
	"bytes"
	"fmt"
	"io"
	"math"
	"math/rand"
	"strings"

	"github.com/google/pprof/profile"
	"github.com/google/pprof/verif/internal/drv"
	"github.com/google/pprof/verif/internal/harness"
	"github.com/google/pprof/verif/internal/mon"
	"github.com/google/pprof/verif/internal/ref"
)

// ---- universe -------------------------------------------------------------------

type uFn struct {
	name, sys, file string
	start           int64
}
type uLine struct {
	fn        int
	line, col int64
}
type uMap struct {
	build, file  string
	size, offset uint64
}
type uLoc struct {
	m      int // -1 none
	rel    uint64
	lines  []uLine
	folded bool
	below  bool // mapped, but the address is the bare offset (below the mapping's start; 0 = address-less)
}
type uSample struct {
	locs   []int
	label  map[string][]string
	num    map[string][]int64
	unit   map[string][]string
	values []int64
}

type universe struct {
	fns  []uFn
	maps []uMap
	locs []uLoc
	big  bool // values beyond 2^53 (not representable as float64) occur
}

func baseUniverse(r *rand.Rand) *universe {
	u := &universe{}
	u.maps = []uMap{{"b1", "/bin/a", 0x3000, 0}, {"", "/lib/x.so", 0x2000, 0x1000}, {"", "", 0x1000, 0}}
	for i := 0; i < 5; i++ {
		u.fns = append(u.fns, uFn{fmt.Sprintf("f%d", i%3), fmt.Sprintf("s%d", i%2), fmt.Sprintf("file%d", i%2), int64(i%2) * 3})
	}
	// functions whose system name equals the display name, or is absent
	u.fns = append(u.fns, uFn{"f1", "f1", "file1", 3}, uFn{"f2", "", "file0", 0})
	for i := 0; i < 7; i++ {
		l := uLoc{m: r.Intn(len(u.maps)+1) - 1, rel: uint64(r.Intn(3)) * 0x10, folded: r.Intn(8) == 0}
		l.below = l.m >= 0 && r.Intn(10) == 0
		for j, n := 0, r.Intn(4); j < n; j++ {
			l.lines = append(l.lines, uLine{r.Intn(len(u.fns)), int64(r.Intn(2)), int64(r.Intn(2))})
		}
		u.locs = append(u.locs, l)
	}
	return u
}

func (u *universe) addFn(f uFn) int   { u.fns = append(u.fns, f); return len(u.fns) - 1 }
func (u *universe) addMap(m uMap) int { u.maps = append(u.maps, m); return len(u.maps) - 1 }
func (u *universe) addLoc(l uLoc) int { u.locs = append(u.locs, l); return len(u.locs) - 1 }

// attribute mutations: each returns a twin of sample s (indices into the universe) that differs
// from s in exactly one semantic attribute, adding whatever entities it needs to the universe.
var attrs = []string{
	"fn.name", "fn.sys", "fn.file", "fn.start",
	"line.line.last", "line.col.last", "line.line.inner", "line.col.inner", "line.fn.inner",
	"loc.folded", "loc.rel", "loc.below", "loc.nlines", "loc.lineorder", "loc.mapping.none",
	"map.build", "map.file", "map.offset", "map.size",
	"label.key", "label.value", "label.multiplicity", "label.order", "num.value", "num.unit", "num.multiplicity", "label.kind",
	"stack.order", "stack.repeat", "stack.extra",
}

// sameIdentity mutations change only things that are NOT part of the identity: ids, ASLR shift,
// mapping size within the same 4 KiB rounding, build-id presence of file when build id given.
var sameAttrs = []string{"same.copy", "same.mapsize.round", "same.file.with.buildid"}

func cloneSample(s uSample) uSample {
	t := uSample{locs: append([]int(nil), s.locs...), values: append([]int64(nil), s.values...)}
	if s.label != nil {
		t.label = map[string][]string{}
		for k, v := range s.label {
			t.label[k] = append([]string(nil), v...)
		}
	}
	if s.num != nil {
		t.num = map[string][]int64{}
		t.unit = map[string][]string{}
		for k, v := range s.num {
			t.num[k] = append([]int64(nil), v...)
		}
		for k, v := range s.unit {
			t.unit[k] = append([]string(nil), v...)
		}
	}
	return t
}

func cloneLoc(l uLoc) uLoc {
	l.lines = append([]uLine(nil), l.lines...)
	return l
}

// twin builds the near-duplicate. ok=false if the attribute does not apply to this sample.
func (u *universe) twin(r *rand.Rand, s uSample, attr string) (uSample, bool) {
	t := cloneSample(s)
	// pick a location position
	pickLoc := func(pred func(l uLoc) bool) (int, bool) {
		var cands []int
		for i, li := range t.locs {
			if pred(u.locs[li]) {
				cands = append(cands, i)
			}
		}
		if len(cands) == 0 {
			return 0, false
		}
		return cands[r.Intn(len(cands))], true
	}
	hasLines := func(n int) func(uLoc) bool { return func(l uLoc) bool { return len(l.lines) >= n } }
	mapped := func(l uLoc) bool { return l.m >= 0 }
	replaceLoc := func(pos int, nl uLoc) { t.locs[pos] = u.addLoc(nl) }
	switch {
	case strings.HasPrefix(attr, "fn."):
		pos, ok := pickLoc(hasLines(1))
		if !ok {
			return t, false
		}
		nl := cloneLoc(u.locs[t.locs[pos]])
		k := r.Intn(len(nl.lines))
		f := u.fns[nl.lines[k].fn]
		switch attr {
		case "fn.name":
			f.name += "x"
		case "fn.sys":
			switch {
			case f.sys == f.name && r.Intn(2) == 0:
				f.sys = "" // absent versus equal to the display name
			case f.sys == "" && r.Intn(2) == 0:
				f.sys = f.name
			default:
				f.sys += "x"
			}
		case "fn.file":
			f.file += "x"
		case "fn.start":
			f.start += 7
		}
		nl.lines[k].fn = u.addFn(f)
		replaceLoc(pos, nl)
	case strings.HasPrefix(attr, "line."):
		need := 1
		if strings.HasSuffix(attr, ".inner") {
			need = 2
		}
		pos, ok := pickLoc(hasLines(need))
		if !ok {
			return t, false
		}
		nl := cloneLoc(u.locs[t.locs[pos]])
		k := len(nl.lines) - 1
		if need == 2 {
			k = r.Intn(len(nl.lines) - 1)
		}
		switch attr {
		case "line.line.last", "line.line.inner":
			nl.lines[k].line += 5
		case "line.col.last", "line.col.inner":
			nl.lines[k].col += 5
			if r.Intn(3) == 0 {
				// (line 1, column 16) next to (line 17, column 0): different positions whose digits
				// written one after the other read the same
				src := cloneLoc(u.locs[t.locs[pos]])
				src.lines[k].line, src.lines[k].col = 1, 16
				nl.lines[k].line, nl.lines[k].col = 17, 0
				s.locs[pos] = u.addLoc(src)
			}
		case "line.fn.inner":
			f := u.fns[nl.lines[k].fn]
			f.name += "y"
			nl.lines[k].fn = u.addFn(f)
		}
		replaceLoc(pos, nl)
	case attr == "loc.folded":
		if len(t.locs) == 0 {
			return t, false
		}
		pos := r.Intn(len(t.locs))
		nl := cloneLoc(u.locs[t.locs[pos]])
		nl.folded = !nl.folded
		replaceLoc(pos, nl)
	case attr == "loc.below":
		pos, ok := pickLoc(mapped)
		if !ok {
			return t, false
		}
		nl := cloneLoc(u.locs[t.locs[pos]])
		nl.below = !nl.below
		replaceLoc(pos, nl)
	case attr == "loc.rel":
		if len(t.locs) == 0 {
			return t, false
		}
		pos := r.Intn(len(t.locs))
		nl := cloneLoc(u.locs[t.locs[pos]])
		nl.rel += 8
		replaceLoc(pos, nl)
	case attr == "loc.nlines":
		pos, ok := pickLoc(hasLines(1))
		if !ok {
			return t, false
		}
		nl := cloneLoc(u.locs[t.locs[pos]])
		if r.Intn(2) == 0 {
			nl.lines = append(nl.lines, nl.lines[len(nl.lines)-1])
		} else {
			nl.lines = nl.lines[:len(nl.lines)-1]
		}
		replaceLoc(pos, nl)
	case attr == "loc.lineorder":
		pos, ok := pickLoc(func(l uLoc) bool { return len(l.lines) >= 2 && l.lines[0] != l.lines[1] })
		if !ok {
			return t, false
		}
		nl := cloneLoc(u.locs[t.locs[pos]])
		nl.lines[0], nl.lines[1] = nl.lines[1], nl.lines[0]
		replaceLoc(pos, nl)
	case attr == "loc.mapping.none":
		pos, ok := pickLoc(mapped)
		if !ok {
			return t, false
		}
		nl := cloneLoc(u.locs[t.locs[pos]])
		nl.m = -1
		replaceLoc(pos, nl)
	case strings.HasPrefix(attr, "map."):
		pos, ok := pickLoc(mapped)
		if !ok {
			return t, false
		}
		nl := cloneLoc(u.locs[t.locs[pos]])
		m := u.maps[nl.m]
		switch attr {
		case "map.build":
			if m.build == "" {
				return t, false
			}
			m.build += "9"
		case "map.file":
			if m.build != "" || m.file == "" {
				return t, false
			}
			m.file += "9"
		case "map.offset":
			m.offset += 0x1000
		case "map.size":
			m.size += 0x1000
		}
		nl.m = u.addMap(m)
		replaceLoc(pos, nl)
	case attr == "label.key":
		if len(t.label) == 0 {
			t.label = map[string][]string{"k": {"v"}}
		} else {
			for k, v := range t.label {
				delete(t.label, k)
				t.label[k+"2"] = v
				break
			}
		}
	case attr == "label.value":
		if len(t.label) == 0 {
			return t, false
		}
		for k := range t.label {
			t.label[k][0] += "2"
			break
		}
	case attr == "label.multiplicity":
		if len(t.label) == 0 {
			return t, false
		}
		for k, v := range t.label {
			t.label[k] = append(v, v[0])
			break
		}
	case attr == "label.order":
		for k, v := range t.label {
			if len(v) >= 2 && v[0] != v[1] {
				t.label[k][0], t.label[k][1] = v[1], v[0]
				return t, true
			}
		}
		return t, false
	case attr == "num.value":
		if len(t.num) == 0 {
			return t, false
		}
		for k := range t.num {
			t.num[k][0] += 3
			break
		}
	case attr == "num.unit":
		if len(t.num) == 0 {
			return t, false
		}
		for k, v := range t.num {
			un := t.unit[k]
			if un == nil {
				un = make([]string, len(v))
			}
			un[r.Intn(len(un))] += "q" // at any position of a multi-valued label
			t.unit[k] = un
			break
		}
	case attr == "num.multiplicity":
		if len(t.num) == 0 {
			return t, false
		}
		for k, v := range t.num {
			t.num[k] = append(v, v[0])
			if un := t.unit[k]; un != nil {
				t.unit[k] = append(un, un[0])
			}
			break
		}
	case attr == "label.kind":
		return t, false // string {a:["\x00"]} versus numeric {a:[1]}: built by the caller
	case attr == "stack.order":
		if len(t.locs) < 2 || t.locs[0] == t.locs[1] {
			return t, false
		}
		t.locs[0], t.locs[1] = t.locs[1], t.locs[0]
	case attr == "stack.repeat":
		if len(t.locs) == 0 {
			return t, false
		}
		t.locs = append([]int{t.locs[0]}, t.locs...)
	case attr == "stack.extra":
		t.locs = append(t.locs, r.Intn(len(u.locs)))
	case attr == "same.copy":
	case attr == "same.mapsize.round":
		pos, ok := pickLoc(mapped)
		if !ok {
			return t, false
		}
		nl := cloneLoc(u.locs[t.locs[pos]])
		m := u.maps[nl.m]
		if m.size%0x1000 != 0 || m.size < 0x1000 {
			return t, false
		}
		m.size -= 0x10 // rounds up to the same 4 KiB size
		if nl.rel >= m.size {
			return t, false
		}
		nl.m = u.addMap(m)
		replaceLoc(pos, nl)
	case attr == "same.file.with.buildid":
		pos, ok := pickLoc(func(l uLoc) bool { return l.m >= 0 && u.maps[l.m].build != "" })
		if !ok {
			return t, false
		}
		nl := cloneLoc(u.locs[t.locs[pos]])
		m := u.maps[nl.m]
		m.file += ".other"
		nl.m = u.addMap(m)
		replaceLoc(pos, nl)
	default:
		return t, false
	}
	return t, true
}

func (u *universe) randSample(r *rand.Rand, ntypes int) uSample {
	s := uSample{}
	for j, d := 0, r.Intn(5); j < d; j++ {
		s.locs = append(s.locs, r.Intn(len(u.locs)))
	}
	for i := 0; i < ntypes; i++ {
		v := int64(r.Intn(5) - 2)
		if u.big && r.Intn(2) == 0 {
			v = []int64{1<<53 + 1, 1<<53 + 3, -(1<<53 + 1), 1<<60 + 1, 1<<56 + 7, 3, math.MaxInt64 - 5, 10, -10, math.MinInt64 + 7, math.MaxInt64 - 5}[r.Intn(11)]
		}
		s.values = append(s.values, v)
	}
	if r.Intn(3) == 0 {
		s.label = map[string][]string{}
		for i, n := 0, 1+r.Intn(2); i < n; i++ {
			k := []string{"k", "j"}[r.Intn(2)]
			s.label[k] = append(s.label[k], []string{"x", "y", "", "\x00"}[r.Intn(4)])
		}
	}
	if r.Intn(3) == 0 {
		s.num = map[string][]int64{}
		s.unit = map[string][]string{}
		k := []string{"n", "k"}[r.Intn(2)]
		for i, n := 0, 1+r.Intn(3); i < n; i++ {
			s.num[k] = append(s.num[k], int64(r.Intn(3)))
		}
		if r.Intn(2) == 0 {
			un := make([]string, len(s.num[k]))
			un[r.Intn(len(un))] = []string{"kb", "ms"}[r.Intn(2)]
			s.unit[k] = un
		}
	}
	return s
}

// concrete builds one profile from universe samples with private ids and ASLR shift.
func (u *universe) concrete(r *rand.Rand, samples []uSample, types [][2]string) *profile.Profile {
	p := &profile.Profile{PeriodType: &profile.ValueType{Type: "cpu", Unit: "ns"}, Period: int64(r.Intn(4)), TimeNanos: int64(r.Intn(4)), DurationNanos: int64(r.Intn(5))}
	for _, t := range types {
		p.SampleType = append(p.SampleType, &profile.ValueType{Type: t[0], Unit: t[1]})
	}
	for i, n := 0, r.Intn(3); i < n; i++ {
		p.Comments = append(p.Comments, []string{"c1", "c2", "c3"}[r.Intn(3)])
	}
	if r.Intn(3) == 0 {
		p.DefaultSampleType = types[r.Intn(len(types))][0]
	}
	if r.Intn(3) == 0 {
		p.DocURL = []string{"http://a", "http://b"}[r.Intn(2)]
	}
	shift := uint64(r.Intn(3)) * 0x1000000
	fixedMain := r.Intn(2) == 0
	idbase := uint64(r.Intn(3)) * 50
	mm := map[int]*profile.Mapping{}
	ff := map[int]*profile.Function{}
	ll := map[int]*profile.Location{}
	// include some unused entities too
	useAll := r.Intn(2) == 0
	var getM func(i int) *profile.Mapping
	getM = func(i int) *profile.Mapping {
		if m, ok := mm[i]; ok {
			return m
		}
		um := u.maps[i]
		start := 0x400000 + shift + uint64(i)*0x100000
		if i == 0 && fixedMain {
			start = 0x400000 // a non-relocatable executable: only the libraries move between runs
		}
		m := &profile.Mapping{ID: idbase + uint64(len(mm)+1), Start: start, Limit: start + um.size, Offset: um.offset, File: um.file, BuildID: um.build, HasFunctions: r.Intn(2) == 0}
		mm[i] = m
		p.Mapping = append(p.Mapping, m)
		return m
	}
	getF := func(i int) *profile.Function {
		if f, ok := ff[i]; ok {
			return f
		}
		uf := u.fns[i]
		f := &profile.Function{ID: idbase + uint64(len(ff)+1), Name: uf.name, SystemName: uf.sys, Filename: uf.file, StartLine: uf.start}
		ff[i] = f
		p.Function = append(p.Function, f)
		return f
	}
	getL := func(i int) *profile.Location {
		if l, ok := ll[i]; ok {
			return l
		}
		ul := u.locs[i]
		l := &profile.Location{ID: idbase + uint64(len(ll)+1), IsFolded: ul.folded}
		if ul.m >= 0 {
			l.Mapping = getM(ul.m)
			l.Address = l.Mapping.Start + ul.rel
			if ul.below {
				l.Address = ul.rel
			}
		} else {
			l.Address = 0x999000 + ul.rel
		}
		for _, ln := range ul.lines {
			l.Line = append(l.Line, profile.Line{Function: getF(ln.fn), Line: ln.line, Column: ln.col})
		}
		ll[i] = l
		p.Location = append(p.Location, l)
		return l
	}
	if useAll {
		for _, i := range r.Perm(len(u.locs)) {
			if r.Intn(3) == 0 {
				getL(i)
			}
		}
	}
	for _, us := range samples {
		s := &profile.Sample{Value: append([]int64(nil), us.values...)}
		for _, li := range us.locs {
			s.Location = append(s.Location, getL(li))
		}
		if us.label != nil {
			s.Label = map[string][]string{}
			for k, v := range us.label {
				s.Label[k] = append([]string(nil), v...)
			}
		}
		if us.num != nil {
			s.NumLabel = map[string][]int64{}
			for k, v := range us.num {
				s.NumLabel[k] = append([]int64(nil), v...)
			}
			if len(us.unit) > 0 {
				s.NumUnit = map[string][]string{}
				for k, v := range us.unit {
					s.NumUnit[k] = append([]string(nil), v...)
				}
			}
		}
		p.Sample = append(p.Sample, s)
	}
	// shuffle tables so table order is unrelated to ids
	r.Shuffle(len(p.Location), func(i, j int) { p.Location[i], p.Location[j] = p.Location[j], p.Location[i] })
	r.Shuffle(len(p.Function), func(i, j int) { p.Function[i], p.Function[j] = p.Function[j], p.Function[i] })
	if len(p.Mapping) > 1 && r.Intn(2) == 0 {
		r.Shuffle(len(p.Mapping), func(i, j int) { p.Mapping[i], p.Mapping[j] = p.Mapping[j], p.Mapping[i] })
	}
	// a third of the profiles use ids with gaps: distinct values anywhere in [1, 2n+2], so a small
	// profile can use ids that lie inside a bigger profile's dense range
	if r.Intn(3) == 0 {
		pl := r.Perm(2*len(p.Location) + 2)
		for i, l := range p.Location {
			l.ID = uint64(pl[i] + 1)
		}
		pf := r.Perm(2*len(p.Function) + 2)
		for i, f := range p.Function {
			f.ID = uint64(pf[i] + 1)
		}
		pm := r.Perm(2*len(p.Mapping) + 2)
		for i, m := range p.Mapping {
			m.ID = uint64(pm[i] + 1)
		}
	}
	return p
}

// ---- reference ------------------------------------------------------------------

type vec = ref.Vec

func viewOf(ps ...*profile.Profile) (map[string]vec, int) { return ref.SumView(ps...) }

func diffViews(want, got map[string]vec) string { return ref.DiffSum(want, got) }

func headerExpect(ps []*profile.Profile) string {
	var period, t, dur int64
	var comments []string
	seen := map[string]bool{}
	dst, doc := "", ""
	for _, p := range ps {
		if p.Period > period {
			period = p.Period
		}
		if p.TimeNanos != 0 && (t == 0 || p.TimeNanos < t) {
			t = p.TimeNanos
		}
		dur += p.DurationNanos
		for _, c := range p.Comments {
			if !seen[c] {
				seen[c] = true
				comments = append(comments, c)
			}
		}
		if dst == "" {
			dst = p.DefaultSampleType
		}
		if doc == "" {
			doc = p.DocURL
		}
	}
	return fmt.Sprintf("period=%d time=%d dur=%d comments=%q dst=%q doc=%q", period, t, dur, comments, dst, doc)
}

func headerOf(p *profile.Profile) string {
	return fmt.Sprintf("period=%d time=%d dur=%d comments=%q dst=%q doc=%q", p.Period, p.TimeNanos, p.DurationNanos, p.Comments, p.DefaultSampleType, p.DocURL)
}

func typesOf(p *profile.Profile) string {
	var sb strings.Builder
	for _, st := range p.SampleType {
		fmt.Fprintf(&sb, "%s/%s,", st.Type, st.Unit)
	}
	if p.PeriodType != nil {
		fmt.Fprintf(&sb, "|%s/%s", p.PeriodType.Type, p.PeriodType.Unit)
	}
	return sb.String()
}

// ---- the case --------------------------------------------------------------------

func runMerge(c *harness.Ctx) harness.Result {
	r := c.Rng
	u := baseUniverse(r)
	u.big = r.Intn(5) == 0
	types := [][2]string{{"a", "count"}, {"b", "ms"}}
	if r.Intn(4) == 0 {
		types = types[:1]
	}
	np := 1 + r.Intn(4)
	lists := make([][]uSample, np)
	for i := range lists {
		for j, n := 0, r.Intn(6); j < n; j++ {
			lists[i] = append(lists[i], u.randSample(r, len(types)))
		}
	}
	// twin injection: near-duplicates differing in exactly one attribute (must stay separate),
	// and twins differing only in non-identity attributes (must be summed).
	var injected []string
	for k, n := 0, 1+r.Intn(3); k < n; k++ {
		src := u.randSample(r, len(types))
		for i := range src.values {
			src.values[i] = int64(1 + r.Intn(3)) // non-zero so both survive
		}
		var attr string
		if r.Intn(5) == 0 {
			attr = sameAttrs[(c.Index+k)%len(sameAttrs)]
		} else {
			attr = attrs[(c.Index*3+k)%len(attrs)]
		}
		if attr == "label.kind" {
			a, b := cloneSample(src), cloneSample(src)
			a.label, a.num, a.unit = map[string][]string{"a": {"\x00"}}, nil, nil
			b.label, b.num, b.unit = nil, map[string][]int64{"a": {1}}, nil
			lists[r.Intn(np)] = append(lists[r.Intn(np)], a)
			lists[r.Intn(np)] = append(lists[r.Intn(np)], b)
			injected = append(injected, attr)
			continue
		}
		tw, ok := u.twin(r, src, attr)
		if !ok {
			continue
		}
		i1, i2 := r.Intn(np), r.Intn(np)
		lists[i1] = append(lists[i1], src)
		lists[i2] = append(lists[i2], tw)
		injected = append(injected, attr)
	}
	// cancelling pair
	if r.Intn(3) == 0 {
		s := u.randSample(r, len(types))
		n := cloneSample(s)
		for i := range n.values {
			n.values[i] = -s.values[i]
		}
		lists[r.Intn(np)] = append(lists[r.Intn(np)], s)
		lists[r.Intn(np)] = append(lists[r.Intn(np)], n)
		injected = append(injected, "cancel")
	}
	// every fortieth case is wide: 140 locations, each the only frame of one sample of the first
	// input, followed by two-frame stacks over the first few of them (the merged location ids then
	// pass 127, and the stacks "a, first" sit next to the single frames "128+a")
	wide := c.Index%40 == 7
	if wide {
		var first []uSample
		base := len(u.locs)
		for i := 0; i < 140; i++ {
			u.addLoc(uLoc{m: 0, rel: uint64(0x100 + 8*i), lines: []uLine{{fn: i % len(u.fns), line: int64(100 + i)}}})
			first = append(first, uSample{locs: []int{base + i}, values: make([]int64, len(types))})
		}
		for a := 0; a < 14; a++ {
			for _, b := range []int{0, 1} {
				first = append(first, uSample{locs: []int{base + a, base + b}, values: make([]int64, len(types))})
			}
		}
		for i := range first {
			for k := range first[i].values {
				first[i].values[k] = int64(1 + i%3)
			}
		}
		lists[0] = append(first, lists[0]...)
		c.Stat("wide_merges", 1)
	}
	var ps []*profile.Profile
	for i := range lists {
		if !(wide && i == 0) {
			r.Shuffle(len(lists[i]), func(a, b int) { lists[i][a], lists[i][b] = lists[i][b], lists[i][a] })
		}
		ps = append(ps, u.concrete(r, lists[i], types))
	}
	for i, p := range ps {
		if err := mon.Valid(p); err != nil {
			return harness.Result{Verdict: harness.Inconclusive, Detail: fmt.Sprintf("generator produced invalid profile %d: %v", i, err)}
		}
	}
	for _, a := range injected {
		c.Stat("twin."+a, 1)
	}
	// some of the inputs have been written or copied before (which leaves their encoder state behind)
	for _, p := range ps {
		switch r.Intn(5) {
		case 0:
			p.WriteUncompressed(io.Discard)
		case 1:
			_ = p.Copy()
		}
	}
	want, nin := viewOf(ps...)
	before := make([]string, len(ps))
	for i, p := range ps {
		before[i] = mon.Fingerprint(p)
	}
	m, err := profile.Merge(ps)
	if err != nil {
		return harness.Violation("Merge of %d compatible profiles failed: %v", len(ps), err)
	}
	desc := describe(ps)
	res := harness.Result{NonTrivial: nin >= 2, Sig: fmt.Sprintf("%d profiles %d samples %d keys twins=%v", np, nin, len(want), injected), Sample: map[string]any{"inputs": desc, "twins": injected, "merged_keys": len(want)}}
	fail := func(format string, a ...any) harness.Result {
		res.Verdict = harness.Violated
		res.Detail = fmt.Sprintf(format, a...) + "\ninputs:\n" + strings.Join(desc, "\n")
		return res
	}
	if err := mon.Valid(m); err != nil {
		return fail("merged profile is not valid: %v", err)
	}
	if err := m.CheckValid(); err != nil {
		return fail("merged profile fails CheckValid: %v", err)
	}
	got, nout := viewOf(m)
	if d := diffViews(want, got); d != "" {
		return fail("merged samples differ from the element-wise sum per (stack, labels):\n%s", d)
	}
	if nout != len(got) {
		return fail("merged profile has %d samples for %d distinct (stack, label) keys (duplicates or all-zero samples kept)", nout, len(got))
	}
	if h, w := headerOf(m), headerExpect(ps); h != w {
		return fail("header: got %s want %s", h, w)
	}
	if typesOf(m) != typesOf(ps[0]) {
		return fail("sample/period types changed: %s vs %s", typesOf(m), typesOf(ps[0]))
	}
	for i, p := range ps {
		if mon.Fingerprint(p) != before[i] {
			return fail("Merge modified input %d", i)
		}
		if sh := mon.Shared(m, p); len(sh) > 0 {
			return fail("merged profile shares memory with input %d: %v", i, sh)
		}
	}
	c.Stat("merges", 1)
	c.Stat("stack_keys", int64(len(want)))
	// permutation metamorphic
	if len(ps) > 1 {
		perm := r.Perm(len(ps))
		qs := make([]*profile.Profile, len(ps))
		for i, j := range perm {
			qs[i] = ps[j]
		}
		m2, err := profile.Merge(qs)
		if err != nil {
			return fail("Merge of permuted inputs failed: %v", err)
		}
		got2, _ := viewOf(m2)
		if d := diffViews(got, got2); d != "" {
			return fail("merge result depends on input order %v:\n%s", perm, d)
		}
		c.Stat("permutations", 1)
	}
	// the merged profile is itself compacted: nothing unreferenced is left behind
	if fm, fc := mon.Fingerprint(m), mon.Fingerprint(m.Compact()); fm != fc {
		return fail("the merged profile is not a fixpoint of Compact (unreferenced or duplicate entities were left behind):\n--- merged\n%s\n--- compacted\n%s", harness.Trunc(fm, 1500), harness.Trunc(fc, 1500))
	}
	// compact idempotence, and Compact(m) == m in view
	c1 := m.Compact()
	c2 := c1.Compact()
	if f1, f2 := mon.Fingerprint(c1), mon.Fingerprint(c2); f1 != f2 {
		return fail("Compact(Compact(p)) differs from Compact(p):\n%s\nvs\n%s", f1, f2)
	}
	gotc, _ := viewOf(c1)
	if d := diffViews(got, gotc); d != "" {
		return fail("Compact changed samples:\n%s", d)
	}
	// mutate the output: inputs must not change (aliasing seen behaviourally)
	for _, st := range m.SampleType {
		st.Unit = "mutated"
	}
	if m.PeriodType != nil {
		m.PeriodType.Unit = "mutated"
	}
	for _, s := range m.Sample {
		for k := range s.Label {
			s.Label[k][0] = "mutated"
		}
		for i := range s.Value {
			s.Value[i] = 99
		}
	}
	for _, f := range m.Function {
		f.Name = "mutated"
	}
	for i, p := range ps {
		if mon.Fingerprint(p) != before[i] {
			return fail("mutating the merged profile changed input %d (aliasing)", i)
		}
	}
	// the same inputs given to the real driver as sources: the profile saved with -proto carries
	// the same sums (profiles without any mapping excepted: the driver gives those a fake mapping)
	if c.Index%6 == 0 {
		allMapped := true
		profs := map[string]*profile.Profile{}
		var srcs []string
		for i, p := range ps {
			if len(p.Mapping) == 0 {
				allMapped = false
			}
			name := fmt.Sprintf("p%d", i)
			profs[name] = p
			srcs = append(srcs, name)
		}
		if allMapped {
			out, ui, rr := drv.Report(profs, srcs, map[string]bool{"proto": true, "addresses": true}, nil, nil, nil, nil)
			if rr.Panic != "" {
				return fail("pprof -proto over the %d inputs panicked: %s", len(ps), rr.Panic)
			}
			if rr.Err != nil {
				return fail("pprof -proto over the %d inputs failed: %v %v", len(ps), rr.Err, ui.Errs)
			}
			q, err := profile.ParseData([]byte(out))
			if err != nil {
				return fail("pprof -proto output unparseable: %v", err)
			}
			// the reference is taken after one codec round trip of every input (proto3 cannot
			// carry empty string label values or unit-less numeric zeros; C01 checks that step)
			var norm []*profile.Profile
			for _, p := range ps {
				var b bytes.Buffer
				p.WriteUncompressed(&b)
				pn, err := profile.ParseUncompressed(b.Bytes())
				if err != nil {
					return res
				}
				norm = append(norm, pn)
			}
			wantd, _ := viewOf(norm...)
			gotd, _ := viewOf(q)
			if d := diffViews(wantd, gotd); d != "" {
				return fail("pprof p0 p1 .. -proto: saved samples differ from the element-wise sum per (stack, labels):\n%s", d)
			}
			c.Stat("driver_merges", 1)
		}
	}
	return res
}

func describe(ps []*profile.Profile) []string {
	var out []string
	for i, p := range ps {
		var sb strings.Builder
		fmt.Fprintf(&sb, "P%d t=%d period=%d:", i, p.TimeNanos, p.Period)
		for _, rec := range ref.View(p) {
			fmt.Fprintf(&sb, " {%v %s || %s}", rec.Values, rec.StackKey(), rec.LabelKey())
		}
		out = append(out, harness.Trunc(sb.String(), 1500))
	}
	return out
}

func init() {
	harness.Register(&harness.Check{
		ID:    "C03",
		Level: "exploration",
		Rule: "case = 1..4 profiles built from one constructed universe (colliding private ids, a third of the profiles with gappy ids, ASLR shifts, shuffled tables, unused entities) into which near-duplicate twins differing in exactly one attribute (29 attributes, cycled by case index), identity-preserving twins, string-vs-numeric label pairs and cancelling +/- pairs are injected; " +
			"oracle = frames-view reference sum per (stack identity, label set) compared as a multiset with Merge's output, plus validity, header rules, input snapshots, pointer disjointness, permutation of inputs, Compact idempotence and fixpoint; every sixth case the same inputs are also given to the real driver as sources and the profile saved with -proto must carry the same sums; " +
			"non-trivial = at least 2 input samples; distinct = distinct (profile count, sample count, key count, twin attributes)",
		Assumptions: []string{
			"binary identity of a mapping = build id if present else file name, plus offset and size rounded up to 4 KiB (pprof's documented ASLR normalisation)",
			"NumUnit lists are either absent or as long as the value list (documented contract)",
			"bounded generator: <=4 profiles, <=40 samples, depth <=6, <=4 inline lines",
		},
		Parts: []harness.Part{{Name: "merge", Quick: 6000, Thor: 300000, Run: runMerge}},
		Finish: func(tier string, st map[string]int64) string {
			var missing []string
			for _, a := range attrs {
				if st["twin."+a] == 0 {
					missing = append(missing, a)
				}
			}
			for _, a := range sameAttrs {
				if st["twin."+a] == 0 {
					missing = append(missing, a)
				}
			}
			if len(missing) > 0 {
				return "near-duplicate pairs never generated for attributes: " + strings.Join(missing, ",")
			}
			return ""
		},
		MinNonTrivial: func(tier string) int { return 500 },
	})
}
