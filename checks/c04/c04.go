// Package c04 monitors report numbers (flat, cum, edge weights, total) in every output form
// against the reference report computed from the samples.
package c04

import (
	"bytes"
	"encoding/json"
	"fmt"
	"github.com/google/pprof/verif/internal/wire"
	"math/rand"
	"net/url"
	"sort"
	"strings"

	"github.com/google/pprof/profile"
	"github.com/google/pprof/verif/internal/drv"
	"github.com/google/pprof/verif/internal/gen"
	"github.com/google/pprof/verif/internal/harness"
	"github.com/google/pprof/verif/internal/parse"
	"github.com/google/pprof/verif/internal/ref"
)

// GenReportProfile is the "report class" generator shared with C05/C17.
func GenReportProfile(r *rand.Rand) *profile.Profile {
	nt := 1 + r.Intn(3)
	types := [][2]string{{"samples", "count"}, {"v", "count"}, {"w", "count"}}[:nt]
	o := gen.Opt{Types: types, Labels: true, NumLabels: true, NumUnits: []string{""}, Recursion: true, EmptyStacks: true, Unsym: true, NoMapping: true,
		ValueClass: []int{0, 0, 1, 2}[r.Intn(4)], MaxSamples: 10, MaxDepth: 5, MaxFuncs: 6, MaxLocs: 8, Columns: r.Intn(2) == 0, SameFile: r.Intn(3) == 0, Alphabet: []int{gen.Plain, gen.Plain, gen.GoNames, gen.Cpp}[r.Intn(4)],
		// ids up to 2^32 only: tagroot/tagleaf allocate ids above the largest one, which cannot work
		// (and is reported as an error) when an id is already 2^64-1
		IDMode: 1 + r.Intn(3)}
	p := gen.Profile(r, o)
	// a sample count column that is non-negative keeps mean divisors meaningful
	for _, s := range p.Sample {
		if s.Value[0] < 0 {
			s.Value[0] = -s.Value[0]
		}
	}
	// printable names are compared as strings: names with leading/trailing blanks or double blanks
	// cannot be read back from column output
	return p
}

// Opt is one point of the option lattice.
type Opt struct {
	Gran      string
	NoInlines bool
	Columns   bool
	Index     int
	Mean      bool
	TagRoot   []string
	TagLeaf   []string
	CallTree  bool
	// IndexBy says how the sample type is named on the command line: "" = by its name, "number" =
	// by its position, "default" = not at all (the profile's default_sample_type, else the last type)
	IndexBy string
}

func (o Opt) String() string {
	return fmt.Sprintf("gran=%s noinlines=%v columns=%v index=%d mean=%v tagroot=%v tagleaf=%v call_tree=%v", o.Gran, o.NoInlines, o.Columns, o.Index, o.Mean, o.TagRoot, o.TagLeaf, o.CallTree) + map[string]string{"": "", "number": " sample_index given by position", "default": " sample_index not given"}[o.IndexBy]
}

// RandOpt draws an option point.
func RandOpt(r *rand.Rand, p *profile.Profile) Opt {
	o := Opt{Gran: []string{"functions", "filefunctions", "files", "lines", "addresses"}[r.Intn(5)], NoInlines: r.Intn(3) == 0, Columns: r.Intn(3) == 0, Index: r.Intn(len(p.SampleType)), Mean: r.Intn(4) == 0}
	switch r.Intn(6) {
	case 0:
		// no -sample_index: the profile says which type is shown (any position, the first included),
		// or says nothing and the last one is
		o.IndexBy = "default"
		if r.Intn(3) > 0 {
			p.DefaultSampleType = p.SampleType[o.Index].Type
		} else {
			p.DefaultSampleType = ""
			o.Index = len(p.SampleType) - 1
		}
	case 1:
		o.IndexBy = "number"
	}
	keys := []string{"k1", "k2", "tag", "n", "request", "nosuchkey"}
	if r.Intn(4) == 0 {
		o.TagRoot = append(o.TagRoot, keys[r.Intn(len(keys))])
		if r.Intn(2) == 0 {
			o.TagRoot = append(o.TagRoot, keys[r.Intn(len(keys))])
		}
	}
	if r.Intn(4) == 0 {
		o.TagLeaf = append(o.TagLeaf, keys[r.Intn(len(keys))])
	}
	return o
}

// Flags converts an option point to driver flags.
func (o Opt) Flags(p *profile.Profile) (map[string]bool, map[string]string) {
	b := map[string]bool{o.Gran: true, "noinlines": o.NoInlines, "showcolumns": o.Columns, "mean": o.Mean, "trim": false, "call_tree": o.CallTree}
	s := map[string]string{"sample_index": p.SampleType[o.Index].Type}
	switch o.IndexBy {
	case "number":
		s["sample_index"] = fmt.Sprint(o.Index)
	case "default":
		s["sample_index"] = ""
	}
	if len(o.TagRoot) > 0 {
		s["tagroot"] = strings.Join(o.TagRoot, ",")
	}
	if len(o.TagLeaf) > 0 {
		s["tagleaf"] = strings.Join(o.TagLeaf, ",")
	}
	return b, s
}

// RefOpts converts to reference options.
func (o Opt) RefOpts() ref.ROpts {
	return ref.ROpts{Gran: o.Gran, NoInlines: o.NoInlines, Columns: o.Columns, Index: o.Index, Mean: o.Mean, TagRoot: o.TagRoot, TagLeaf: o.TagLeaf}
}

func rowsOfTop(rows []parse.TopRow) []ref.Row {
	var out []ref.Row
	for _, r := range rows {
		out = append(out, ref.Row{Name: r.Name, Flat: r.Flat, Cum: r.Cum})
	}
	ref.SortRows(out)
	return out
}

func diffRows(want, got []ref.Row) string {
	if fmt.Sprint(want) == fmt.Sprint(got) {
		return ""
	}
	return fmt.Sprintf("entries (name, flat, cum)\n  reference: %v\n  reported : %v", want, got)
}

func diffEdges(want, got []ref.EdgeRow) string {
	if fmt.Sprint(want) == fmt.Sprint(got) {
		return ""
	}
	return fmt.Sprintf("edges (caller, callee, weight)\n  reference: %v\n  reported : %v", want, got)
}

// usableNames: entries are matched by printable name; skip profiles whose names cannot be read back
func usableNames(p *profile.Profile) bool {
	for _, f := range p.Function {
		for _, s := range []string{f.Name, f.Filename} {
			if s != strings.TrimSpace(s) || strings.Contains(s, "  ") || strings.Contains(s, "\n") || strings.HasSuffix(s, "(inline)") {
				return false
			}
		}
	}
	return true
}

// CheckFormats runs every output form for (p, o) and compares with the reference.
func CheckFormats(c *harness.Ctx, p *profile.Profile, o Opt) string {
	return checkFormats(c, p, o, map[string]*profile.Profile{"p": p}, []string{"p"})
}

// splitSources cuts p into two profiles that together hold exactly p's samples. The second one
// numbers its functions and locations differently and lists its sample types in rotated order,
// as a profile of the same program written by another producer would.
func splitSources(r *rand.Rand, p *profile.Profile) (map[string]*profile.Profile, []string) {
	a, b := p.Copy(), p.Copy()
	var sa, sb []*profile.Sample
	for i := range p.Sample {
		if r.Intn(2) == 0 {
			sa = append(sa, a.Sample[i])
		} else {
			sb = append(sb, b.Sample[i])
		}
	}
	a.Sample, b.Sample = sa, sb
	for i, f := range b.Function {
		f.ID = uint64(len(b.Function) - i)
	}
	for i, l := range b.Location {
		l.ID = uint64(len(b.Location) - i)
	}
	if n := len(b.SampleType); n > 1 {
		b.SampleType = append(b.SampleType[1:], b.SampleType[0])
		for _, s := range b.Sample {
			s.Value = append(s.Value[1:], s.Value[0])
		}
	}
	if r.Intn(2) == 0 {
		return map[string]*profile.Profile{"p1": a, "p2": b}, []string{"p1", "p2"}
	}
	return map[string]*profile.Profile{"p1": a, "p2": b}, []string{"p2", "p1"}
}

// distinctBinaries: no two mappings that merging would treat as one binary (same build id or file)
func distinctBinaries(p *profile.Profile) bool {
	seen := map[string]bool{}
	for _, m := range p.Mapping {
		for _, k := range []string{"id:" + m.BuildID, "file:" + m.File} {
			if k == "id:" || k == "file:" {
				continue
			}
			if seen[k] {
				return false
			}
			seen[k] = true
		}
	}
	return true
}

// checkFormats compares every output form of the sources srcs (which together hold exactly the
// samples of p) with the reference report of p.
func checkFormats(c *harness.Ctx, p *profile.Profile, o Opt, profs map[string]*profile.Profile, srcs []string) string {
	merged := len(srcs) > 1
	// given as several sources, stacks whose values cancel are dropped by the merge before any edge
	// is drawn: an edge of weight 0 may be absent there (and present for the single source)
	diffE := func(want, got []ref.EdgeRow) string {
		if merged {
			nz := func(es []ref.EdgeRow) []ref.EdgeRow {
				var out []ref.EdgeRow
				for _, e := range es {
					if e.W != 0 {
						out = append(out, e)
					}
				}
				return out
			}
			want, got = nz(want), nz(got)
		}
		return diffEdges(want, got)
	}
	rep := ref.Report(p, o.RefOpts())
	wantRows := rep.Rows()
	wantEdges := rep.EdgeRows()
	b, s := o.Flags(p)
	run := func(format string, extra map[string]string) (string, string) {
		bb := map[string]bool{format: true}
		for k, v := range b {
			bb[k] = v
		}
		ss := map[string]string{}
		for k, v := range s {
			ss[k] = v
		}
		for k, v := range extra {
			if k == format {
				delete(bb, format)
			}
			ss[k] = v
		}
		out, ui, res := drv.Report(profs, srcs, bb, ss, nil, nil, nil)
		if res.Panic != "" {
			return "", "panic: " + res.Panic
		}
		if res.Err != nil {
			return "", fmt.Sprintf("error: %v (ui: %v)", res.Err, ui.Errs)
		}
		c.Stat("reports."+format, 1)
		return out, ""
	}
	// ---- top
	out, e := run("top", nil)
	if e != "" {
		return "-top failed: " + e
	}
	h, rows, err := parse.Top(out)
	if err != nil {
		return fmt.Sprintf("-top output unparseable: %v\n%s", err, out)
	}
	if d := diffRows(wantRows, rowsOfTop(rows)); d != "" {
		return "-top " + d + "\n" + out
	}
	// (merged sources: equal stacks of opposite sign cancel before the total is taken)
	cancels := false
	if merged {
		for _, smp := range p.Sample {
			if smp.Value[o.Index] < 0 {
				cancels = true
			}
		}
	}
	if !cancels && (!h.Found || h.Total != rep.Total) {
		return fmt.Sprintf("-top total %d, reference total (sum of |values|%s) %d\n%s", h.Total, map[bool]string{true: " / sum of counts", false: ""}[o.Mean], rep.Total, out)
	}
	var sumFlat int64
	for _, r := range rows {
		sumFlat += r.Flat
	}
	if h.Accounting != sumFlat {
		return fmt.Sprintf("-top legend says 'accounting for %d' but the flat values shown sum to %d\n%s", h.Accounting, sumFlat, out)
	}
	// ---- tree
	out, e = run("tree", nil)
	if e != "" {
		return "-tree failed: " + e
	}
	_, tnodes, err := parse.Tree(out)
	if err != nil {
		return fmt.Sprintf("-tree output unparseable: %v\n%s", err, out)
	}
	var trows []ref.Row
	var tedgesOut, tedgesIn []ref.EdgeRow
	for _, n := range tnodes {
		trows = append(trows, ref.Row{Name: n.Row.Name, Flat: n.Row.Flat, Cum: n.Row.Cum})
		for _, ce := range n.Callees {
			tedgesOut = append(tedgesOut, ref.EdgeRow{Src: n.Row.Name, Dst: ce.Name, W: ce.W})
		}
		for _, ce := range n.Callers {
			tedgesIn = append(tedgesIn, ref.EdgeRow{Src: ce.Name, Dst: n.Row.Name, W: ce.W})
		}
	}
	ref.SortRows(trows)
	ref.SortEdgeRows(tedgesOut)
	ref.SortEdgeRows(tedgesIn)
	if d := diffRows(wantRows, trows); d != "" {
		return "-tree " + d + "\n" + out
	}
	if d := diffE(wantEdges, tedgesOut); d != "" {
		return "-tree callee lines: " + d + "\n" + out
	}
	if d := diffE(wantEdges, tedgesIn); d != "" {
		return "-tree caller lines: " + d + "\n" + out
	}
	// ---- peek (all entries)
	out, e = run("peek", map[string]string{"peek": "."})
	if e != "" && len(wantRows) == 0 && strings.Contains(e, "no matches found") {
		out, e = "", "" // nothing to show: reporting that is the documented outcome
	}
	if e != "" {
		return "-peek failed: " + e
	}
	_, pnodes, err := parse.Tree(out)
	if err != nil {
		return fmt.Sprintf("-peek output unparseable: %v\n%s", err, out)
	}
	var prow []ref.Row
	var pedges []ref.EdgeRow
	for _, n := range pnodes {
		prow = append(prow, ref.Row{Name: n.Row.Name, Flat: n.Row.Flat, Cum: n.Row.Cum})
		for _, ce := range n.Callees {
			pedges = append(pedges, ref.EdgeRow{Src: n.Row.Name, Dst: ce.Name, W: ce.W})
		}
	}
	ref.SortRows(prow)
	ref.SortEdgeRows(pedges)
	// peek lists entries whose name matches "." - every entry with a non-empty printable name
	if d := diffRows(wantRows, prow); d != "" {
		return "-peek=. " + d + "\n" + out
	}
	if d := diffE(wantEdges, pedges); d != "" {
		return "-peek=. callee lines: " + d + "\n" + out
	}
	// ---- dot (graph form)
	out, e = run("dot", nil)
	if e != "" {
		return "-dot failed: " + e
	}
	g, err := parse.ParseDOT(out)
	if err != nil {
		return fmt.Sprintf("-dot output is not valid DOT: %v\n%s", err, out)
	}
	dn, de, err := parse.DotReport(g)
	if err != nil {
		return fmt.Sprintf("-dot numbers unreadable: %v\n%s", err, out)
	}
	var drows []ref.Row
	for _, n := range dn {
		drows = append(drows, ref.Row{Name: n.Name, Flat: n.Flat, Cum: n.Cum})
	}
	ref.SortRows(drows)
	var dedges []ref.EdgeRow
	for _, x := range de {
		dedges = append(dedges, ref.EdgeRow{Src: x.Src, Dst: x.Dst, W: x.W})
		if x.Residual {
			return fmt.Sprintf("-dot (untrimmed) marks edge %s -> %s residual\n%s", x.Src, x.Dst, out)
		}
	}
	ref.SortEdgeRows(dedges)
	if d := diffRows(wantRows, drows); d != "" {
		return "-dot " + d + "\n" + out
	}
	if d := diffE(wantEdges, dedges); d != "" {
		return "-dot " + d + "\n" + out
	}
	// ---- traces (per sample; a single source is reported unmerged)
	if !o.Mean && !merged {
		out, e = run("traces", nil)
		if e != "" {
			return "-traces failed: " + e
		}
		traces, err := parse.Traces(out)
		if err != nil {
			return fmt.Sprintf("-traces output unparseable: %v\n%s", err, out)
		}
		var want, got []string
		for _, smp := range p.Sample {
			ks := ref.KeySample(smp, o.RefOpts())
			if len(ks.Keys) == 0 {
				continue
			}
			var names []string
			for i := len(ks.Keys) - 1; i >= 0; i-- {
				names = append(names, ks.Keys[i].Printable())
			}
			want = append(want, fmt.Sprintf("%d %q", ks.W, names))
		}
		for _, t := range traces {
			got = append(got, fmt.Sprintf("%d %q", t.Value, t.Frames))
		}
		sort.Strings(want)
		sort.Strings(got)
		if fmt.Sprint(want) != fmt.Sprint(got) {
			return fmt.Sprintf("-traces (value, frames leaf first)\n  reference: %v\n  reported : %v\n%s", want, got, out)
		}
	}
	// ---- topproto: one sample [cum, flat] per entry, identified by function name, file, line, address
	out, e = run("topproto", nil)
	if e != "" {
		return "-topproto failed: " + e
	}
	tp, err := profile.ParseData([]byte(out))
	if err != nil {
		return fmt.Sprintf("-topproto output is not a profile: %v", err)
	}
	var wantTP, gotTP []string
	for _, en := range rep.Entries {
		if en.Shown() {
			k := en.Key
			wantTP = append(wantTP, fmt.Sprintf("%q %q %d:%d @%x flat=%d cum=%d", k.Name, k.File, k.Line, k.Col, k.Addr, en.FlatV(), en.CumV()))
		}
	}
	for _, smp := range tp.Sample {
		if len(smp.Location) != 1 || len(smp.Location[0].Line) != 1 || len(smp.Value) != 2 {
			return fmt.Sprintf("-topproto sample has an unexpected shape: %d locations, values %v", len(smp.Location), smp.Value)
		}
		l := smp.Location[0]
		ln := l.Line[0]
		gotTP = append(gotTP, fmt.Sprintf("%q %q %d:%d @%x flat=%d cum=%d", ln.Function.Name, ln.Function.Filename, ln.Line, ln.Column, l.Address, smp.Value[1], smp.Value[0]))
	}
	sort.Strings(wantTP)
	sort.Strings(gotTP)
	if fmt.Sprint(wantTP) != fmt.Sprint(gotTP) {
		return fmt.Sprintf("-topproto entries (name, file, line:col, address, flat, cum)\n  reference: %v\n  reported : %v", wantTP, gotTP)
	}
	// ---- callgrind: always at address granularity, one cost line per entry, one call record per edge
	// (not for merged sources: merging may re-base addresses of mappings it unifies, C03)
	if !merged {
		if msg := checkCallgrind(c, p, o, run); msg != "" {
			return msg
		}
	}
	// ---- call tree (dot): one node per distinct path
	if o.CallTree {
		return ""
	}
	ot := o
	ot.CallTree = true
	b, s = ot.Flags(p)
	out, e = run("dot", nil)
	if e != "" {
		return "-dot -call_tree failed: " + e
	}
	g, err = parse.ParseDOT(out)
	if err != nil {
		return fmt.Sprintf("-dot -call_tree output is not valid DOT: %v\n%s", err, out)
	}
	dn, de, err = parse.DotReport(g)
	if err != nil {
		return fmt.Sprintf("-dot -call_tree numbers unreadable: %v\n%s", err, out)
	}
	tree := ref.Tree(p, o.RefOpts())
	var wantT, gotT []ref.Row
	var wantTE, gotTE []ref.EdgeRow
	shown := func(n *ref.TreeNode) bool { return n.Flat != 0 || n.Cum != 0 }
	val := func(v, d int64) int64 {
		if d == 0 {
			return v
		}
		return v / d
	}
	for _, n := range tree {
		if !shown(n) {
			continue
		}
		wantT = append(wantT, ref.Row{Name: n.Key.Printable(), Flat: val(n.Flat, n.FlatDiv), Cum: val(n.Cum, n.CumDiv)})
		if n.Parent != nil && shown(n.Parent) {
			wantTE = append(wantTE, ref.EdgeRow{Src: n.Parent.Key.Printable(), Dst: n.Key.Printable(), W: val(n.Cum, n.CumDiv)})
		}
	}
	for _, n := range dn {
		gotT = append(gotT, ref.Row{Name: n.Name, Flat: n.Flat, Cum: n.Cum})
	}
	for _, x := range de {
		gotTE = append(gotTE, ref.EdgeRow{Src: x.Src, Dst: x.Dst, W: x.W})
	}
	ref.SortRows(wantT)
	ref.SortRows(gotT)
	ref.SortEdgeRows(wantTE)
	ref.SortEdgeRows(gotTE)
	if d := diffRows(wantT, gotT); d != "" {
		return "-dot -call_tree " + d + "\n" + out
	}
	if d := diffEdges(wantTE, gotTE); d != "" {
		return "-dot -call_tree " + d + "\n" + out
	}
	// every tree node has at most one parent
	indeg := map[string]int{}
	for _, x := range de {
		indeg[x.DstID]++
		if indeg[x.DstID] > 1 {
			return fmt.Sprintf("-dot -call_tree: node %s has more than one parent\n%s", x.DstID, out)
		}
	}
	return ""
}

func checkCallgrind(c *harness.Ctx, p *profile.Profile, o Opt, run func(string, map[string]string) (string, string)) string {
	if o.CallTree {
		return "" // call-tree callgrind output is covered structurally by C18
	}
	out, e := run("callgrind", nil)
	if e != "" {
		return "-callgrind failed: " + e
	}
	_, nodes, err := parse.Callgrind(out)
	if err != nil {
		return fmt.Sprintf("-callgrind output unparseable: %v\n%s", err, out)
	}
	ro := o.RefOpts()
	ro.Gran, ro.ObjNames = "addresses", true
	rep := ref.Report(p, ro)
	id := func(k ref.NodeKey) string { return fmt.Sprintf("%q %q @%x :%d", k.File, k.Name, k.Addr, k.Line) }
	var want, got, wantE, gotE []string
	for _, en := range rep.Entries {
		if en.Shown() {
			want = append(want, fmt.Sprintf("%q %s self=%d", en.Key.Obj, id(en.Key), en.FlatV()))
		}
	}
	for k, w := range rep.Edges {
		if rep.Entries[k[0]].Shown() && rep.Entries[k[1]].Shown() {
			wantE = append(wantE, fmt.Sprintf("%s -> %s = %d", id(k[0]), id(k[1]), w.V()))
		}
	}
	for _, n := range nodes {
		src := fmt.Sprintf("%q %q @%x :%d", n.Fl, n.Fn, n.Addr, n.Line)
		got = append(got, fmt.Sprintf("%q %s self=%d", n.Ob, src, n.Self))
		for _, cl := range n.Calls {
			gotE = append(gotE, fmt.Sprintf("%s -> %q %q @%x :%d = %d", src, cl.Fl, cl.Fn, cl.Addr, cl.Line, cl.Cost))
		}
	}
	sort.Strings(want)
	sort.Strings(got)
	sort.Strings(wantE)
	sort.Strings(gotE)
	if fmt.Sprint(want) != fmt.Sprint(got) {
		return fmt.Sprintf("-callgrind cost lines (object, file, function, address, line, self cost)\n  reference: %v\n  reported : %v\n%s", want, got, out)
	}
	if fmt.Sprint(wantE) != fmt.Sprint(gotE) {
		return fmt.Sprintf("-callgrind call records (caller -> callee = inclusive cost)\n  reference: %v\n  reported : %v\n%s", wantE, gotE, out)
	}
	return ""
}

// CheckWebTop compares the numbers of the web UI's /top view with the reference.
func CheckWebTop(c *harness.Ctx, web *drv.Web, p *profile.Profile, o Opt) string {
	q := url.Values{}
	q.Set("g", o.Gran)
	q.Set("si", p.SampleType[o.Index].Type)
	q.Set("trim", "false")
	if o.NoInlines {
		q.Set("noinlines", "t")
	}
	if o.Columns {
		q.Set("showcolumns", "t")
	}
	if o.Mean {
		q.Set("mean", "t")
	}
	if len(o.TagRoot) > 0 {
		q.Set("tagroot", strings.Join(o.TagRoot, ","))
	}
	if len(o.TagLeaf) > 0 {
		q.Set("tagleaf", strings.Join(o.TagLeaf, ","))
	}
	u := "/top?" + q.Encode()
	code, body, pn := web.Get(u)
	if pn != "" {
		return "GET " + u + " panicked: " + pn
	}
	if code != 200 {
		return fmt.Sprintf("GET %s -> %d %s", u, code, harness.Trunc(body, 300))
	}
	i := strings.LastIndex(body, "makeTopTable(")
	if i < 0 {
		return "GET " + u + ": makeTopTable(total, entries) call not found in the page"
	}
	dec := json.NewDecoder(strings.NewReader("[" + body[i+len("makeTopTable("):]))
	// the call's arguments "total, entries" are decoded as the elements of a JSON array
	var total int64
	var items []struct {
		Name      string
		Flat, Cum int64
	}
	if _, err := dec.Token(); err != nil {
		return "GET " + u + ": " + err.Error()
	}
	if err := dec.Decode(&total); err != nil {
		return fmt.Sprintf("GET %s: total is not a number: %v", u, err)
	}
	if err := dec.Decode(&items); err != nil {
		return fmt.Sprintf("GET %s: entries are not JSON: %v", u, err)
	}
	rep := ref.Report(p, o.RefOpts())
	var got []ref.Row
	for _, it := range items {
		got = append(got, ref.Row{Name: it.Name, Flat: it.Flat, Cum: it.Cum})
	}
	ref.SortRows(got)
	c.Stat("reports.webtop", 1)
	if d := diffRows(rep.Rows(), got); d != "" {
		return "web /top (" + u + ") " + d
	}
	if total != rep.Total {
		return fmt.Sprintf("web /top (%s) total %d, reference %d", u, total, rep.Total)
	}
	return ""
}

func run(c *harness.Ctx) harness.Result {
	r := c.Rng
	var p *profile.Profile
	for {
		p = GenReportProfile(r)
		if usableNames(p) {
			break
		}
	}
	// one source file recorded under several spellings (./x, x, dir//x, dir/./x) is one file; and
	// now and then one very deep stack that keeps coming back to its first frames
	for _, f := range p.Function {
		if f.Filename != "" && r.Intn(5) == 0 {
			switch r.Intn(3) {
			case 0:
				if !strings.HasPrefix(f.Filename, "/") {
					f.Filename = "./" + f.Filename
				}
			case 1:
				f.Filename = strings.Replace(f.Filename, "/", "//", 1)
			default:
				f.Filename = strings.Replace(f.Filename, "/", "/./", 1)
			}
		}
	}
	if r.Intn(12) == 0 && len(p.Location) > 0 && len(p.Sample) > 0 && len(p.Function) > 0 {
		var maxF, maxL uint64
		for _, x := range p.Function {
			if x.ID > maxF {
				maxF = x.ID
			}
		}
		for _, x := range p.Location {
			if x.ID > maxL {
				maxL = x.ID
			}
		}
		if maxF < 1<<31 && maxL < 1<<31 {
			var chain []*profile.Location
			for i := 0; i < 40; i++ {
				fn := &profile.Function{ID: maxF + uint64(i) + 1, Name: fmt.Sprintf("deep%02d", i), SystemName: fmt.Sprintf("deep%02d", i), Filename: "deep.go"}
				l := &profile.Location{ID: maxL + uint64(i) + 1, Address: 0x5550000 + uint64(i)*16, Line: []profile.Line{{Function: fn, Line: int64(i + 1)}}}
				p.Function, p.Location = append(p.Function, fn), append(p.Location, l)
				chain = append(chain, l)
			}
			// root deep00 ... deep39, then back into deep05 and deep01 (leaf first in the sample)
			var stack []*profile.Location
			stack = append(stack, chain[1], chain[5])
			for i := 39; i >= 0; i-- {
				stack = append(stack, chain[i])
			}
			sm := p.Sample[r.Intn(len(p.Sample))]
			sm.Location = stack
			c.Stat("deep_reentrant_stacks", 1)
		}
	}
	res := harness.Result{NonTrivial: len(p.Sample) >= 2, Sig: gen.Shape(p)}
	var web *drv.Web
	if c.Index%4 == 0 {
		drv.IsolateEnv(c.Tmp)
		if w, err := drv.StartWeb(&drv.MapFetcher{Profiles: map[string]*profile.Profile{"p": p}}, []string{"p"}, nil, nil, nil); err == nil {
			web = w
			defer web.Close()
		}
	}
	var opts []string
	for k := 0; k < 3; k++ {
		o := RandOpt(r, p)
		opts = append(opts, o.String())
		c.Stat("option_points", 1)
		c.Stat("gran."+o.Gran, 1)
		if o.Mean {
			c.Stat("mean", 1)
		}
		if len(o.TagRoot)+len(o.TagLeaf) > 0 {
			c.Stat("tagroot_tagleaf", 1)
		}
		msg := CheckFormats(c, p, o)
		if msg == "" && web != nil {
			msg = CheckWebTop(c, web, p, o)
		}
		if msg == "" && k == 0 && c.Index%2 == 0 && o.IndexBy == "" && len(o.TagRoot)+len(o.TagLeaf) == 0 && !o.Mean && o.Gran != "addresses" && distinctBinaries(p) { // (the mean divisor is the first column of whichever source is listed first)
			// the same samples arriving as two sources
			whole := p
			if r.Intn(2) == 0 {
				// profiles of an interpreter / converted profiles: no addresses, no mappings; frames
				// are told apart by function and line only
				whole = p.Copy()
				whole.Mapping = nil
				for _, l := range whole.Location {
					l.Mapping, l.Address = nil, 0
					for i := range l.Line {
						l.Line[i].Line %= 2 // hardly any line information either
						l.Line[i].Column = 0
					}
				}
				c.Stat("split_source_points_addressless", 1)
			}
			profs, srcs := splitSources(r, whole)
			c.Stat("split_source_points", 1)
			if msg = checkFormats(c, whole, o, profs, srcs); msg != "" {
				msg = "given as two sources " + fmt.Sprint(srcs) + " (second one with its own ids and rotated sample types): " + msg
			}
		}
		if msg == "" && k == 0 && c.Index%5 == 1 {
			// the same profile arriving as a file written by another producer: packed lists in several
			// chunks and as single elements (a valid form of the same message)
			var enc bytes.Buffer
			if err := p.WriteUncompressed(&enc); err == nil && enc.Len() > 0 {
				if alt, err := wire.Rechunk(enc.Bytes(), func(n int) int { return r.Intn(n) }); err == nil {
					if q, err := profile.ParseUncompressed(alt); err != nil {
						msg = fmt.Sprintf("the profile encoded with its packed lists split into several chunks is rejected: %v", err)
					} else {
						c.Stat("chunked_encoding_points", 1)
						if msg = checkFormats(c, p, o, map[string]*profile.Profile{"p": q}, []string{"p"}); msg != "" {
							msg = "read from an encoding whose packed lists come in several chunks: " + msg
						}
					}
				}
			}
		}
		if msg != "" {
			res.Verdict = harness.Violated
			res.Detail = fmt.Sprintf("options: %s\n%s\nprofile:\n%s", o, harness.Trunc(msg, 3000), harness.Trunc(p.String(), 3000))
			break
		}
	}
	res.Sample = map[string]any{"profile": gen.Describe(p), "options": opts}
	return res
}

func init() {
	harness.Register(&harness.Check{
		ID:    "C04",
		Level: "exploration",
		Rule: "report-class profiles (recursion, inlined multi-line locations shared between samples, empty stacks, unsymbolized and unmapped frames, negative values, 1-3 count-typed sample types, string and unitless numeric labels) x 3 random points of {granularity 5} x noinlines x showcolumns x sample_index x mean x tagroot/tagleaf; every point rendered through the real driver as -top, -tree, -peek=., -dot, -traces, -topproto, -callgrind (decoded with pprof's name and position compression: one cost line per address-level entry with object, file, function, address, line and self cost; one call record per edge with its inclusive cost) and -dot -call_tree (trim=false), and for every fourth profile also through the web UI's /top view and parsed independently; every second profile is additionally cut into two sources (half of the time stripped of addresses, mappings and most line numbers, like profiles of interpreted code), (the second with its own function/location ids and rotated sample types) whose combined report must be the report of the whole; " +
			"oracle: reference report over the frames view (flat = leaf sum, cum = once per sample, edge = adjacency once per sample, total = sum |v|, mean quotients), compared as multisets of (name, flat, cum) and (caller, callee, weight); legend 'accounting for' = sum of flat shown. non-trivial = at least 2 samples; distinct = profile shape signature",
		Assumptions:   []string{"count-typed values so printed numbers are exact integers", "entries are matched by printable name (names with leading/trailing/double blanks or newlines are left to C18)", "a single source is not merged by pprof, so -traces is compared sample by sample"},
		Parts:         []harness.Part{{Name: "formats", Quick: 4000, Thor: 150000, Run: run}},
		MinNonTrivial: func(string) int { return 200 },
	})
}
