// Package c01 monitors serialization round trips of the profile codec.
package c01

import (
	"bytes"
	"compress/gzip"
	"fmt"
	"github.com/google/pprof/verif/internal/sess"
	"io"
	"math"
	"math/rand"
	"os"
	"path/filepath"
	"sort"
	"strings"
	"sync"
	"testing/iotest"
	"time"

	"github.com/google/pprof/profile"
	"github.com/google/pprof/verif/internal/drv"
	"github.com/google/pprof/verif/internal/harness"
	"github.com/google/pprof/verif/internal/mon"
	"github.com/google/pprof/verif/internal/ref"
	"github.com/google/pprof/verif/internal/wire"
)

var strPool = []string{"", "a", "b", "\xff", "x\x00y", "kb", "bytes", "é", "line\nbreak", strings.Repeat("L", 300), "/proc/self/cwd", "/proc/self/cwd/.", "/bin/prog (deleted)", "request", "alignment"}
var idPool = []uint64{1, 2, 3, 4, 5, 6, 7, 8, 9, 1 << 32, 1 << 63, math.MaxUint64, 1000, 1<<63 - 1}
var i64Pool = []int64{0, 1, -1, 2, 127, 128, 16383, 16384, math.MaxInt64, math.MinInt64, 1 << 40, -(1 << 40)}

// GenCodec generates a valid profile of the "codec class": arbitrary header values, sparse and
// huge ids, ids at the dense/sparse table boundary, unused and shared entities, 0..4 sample types,
// 0..4 values in every repeated field, multi-valued labels with partial units, extreme integers,
// empty / NUL / non-UTF8 / long strings.
func GenCodec(r *rand.Rand) *profile.Profile {
	ps := func() string { return strPool[r.Intn(len(strPool))] }
	pi := func() int64 {
		if r.Intn(5) == 0 {
			return int64(r.Uint64())
		}
		return i64Pool[r.Intn(len(i64Pool))]
	}
	p := &profile.Profile{DropFrames: ps(), KeepFrames: ps(), TimeNanos: pi(), DurationNanos: pi(), Period: pi(), DefaultSampleType: ps(), DocURL: ps()}
	if r.Intn(4) > 0 {
		p.PeriodType = &profile.ValueType{Type: ps(), Unit: ps()}
	}
	for i, n := 0, r.Intn(5); i < n; i++ {
		p.Comments = append(p.Comments, ps())
	}
	nst := r.Intn(5)
	for i := 0; i < nst; i++ {
		p.SampleType = append(p.SampleType, &profile.ValueType{Type: ps(), Unit: ps()})
	}
	ids := func(n int) []uint64 {
		perm := r.Perm(len(idPool))
		var o []uint64
		for i := 0; i < n; i++ {
			o = append(o, idPool[perm[i]])
		}
		switch r.Intn(4) {
		case 3: // ids 1..n with the first and the last in place and the middle in any order
			for i := range o {
				o[i] = uint64(i + 1)
			}
			if n > 3 {
				mid := o[1 : n-1]
				r.Shuffle(len(mid), func(i, j int) { mid[i], mid[j] = mid[j], mid[i] })
				if r.Intn(3) == 0 {
					mid[r.Intn(len(mid))] = []uint64{1 << 40, 1 << 63, 1000}[r.Intn(3)]
				}
			}
		case 0: // dense ids, with the last one at the id==len / len+1 boundary
			for i := range o {
				o[i] = uint64(i + 1)
			}
			if n > 0 && r.Intn(2) == 0 {
				o[n-1] = uint64(n + r.Intn(3))
			}
		case 1: // dense but shuffled
			for i, q := range r.Perm(n) {
				o[i] = uint64(q + 1)
			}
		}
		return o
	}
	nm := r.Intn(4)
	for _, id := range ids(nm) {
		p.Mapping = append(p.Mapping, &profile.Mapping{ID: id, Start: uint64(pi()), Limit: uint64(pi()), Offset: uint64(pi()), File: ps(), BuildID: ps(), HasFunctions: r.Intn(2) == 0, HasFilenames: r.Intn(2) == 0, HasLineNumbers: r.Intn(2) == 0, HasInlineFrames: r.Intn(2) == 0})
	}
	nf := r.Intn(6)
	for _, id := range ids(nf) {
		p.Function = append(p.Function, &profile.Function{ID: id, Name: ps(), SystemName: ps(), Filename: ps(), StartLine: pi()})
	}
	nl := r.Intn(7)
	for _, id := range ids(nl) {
		l := &profile.Location{ID: id, Address: uint64(pi()), IsFolded: r.Intn(3) == 0}
		if nm > 0 && r.Intn(3) > 0 {
			l.Mapping = p.Mapping[r.Intn(nm)]
		}
		if nf > 0 {
			for j, k := 0, r.Intn(5); j < k; j++ {
				l.Line = append(l.Line, profile.Line{Function: p.Function[r.Intn(nf)], Line: pi(), Column: pi()})
			}
		}
		p.Location = append(p.Location, l)
	}
	if nst > 0 {
		for i, n := 0, r.Intn(6); i < n; i++ {
			s := &profile.Sample{}
			for j := 0; j < nst; j++ {
				s.Value = append(s.Value, pi())
			}
			if nl > 0 {
				for j, d := 0, r.Intn(6); j < d; j++ {
					s.Location = append(s.Location, p.Location[r.Intn(nl)])
				}
			}
			if r.Intn(2) == 0 {
				s.Label = map[string][]string{}
				for j, k := 0, r.Intn(3); j < k; j++ {
					var vs []string
					for q, m := 0, r.Intn(4); q < m; q++ {
						vs = append(vs, ps())
					}
					s.Label[ps()] = vs
				}
			}
			if r.Intn(2) == 0 {
				s.NumLabel = map[string][]int64{}
				s.NumUnit = map[string][]string{}
				for j, k := 0, r.Intn(3); j < k; j++ {
					key := ps()
					var vs []int64
					var us []string
					for q, m := 0, r.Intn(4); q < m; q++ {
						vs = append(vs, pi())
						us = append(us, ps())
					}
					s.NumLabel[key] = vs
					if r.Intn(3) > 0 {
						s.NumUnit[key] = us
					} else {
						delete(s.NumUnit, key)
					}
				}
			}
			p.Sample = append(p.Sample, s)
		}
	}
	// size classes: now and then one repeated field is blown up so that the encoding of a single
	// nested message (or string) crosses a length-prefix boundary (2^7, 2^14, 2^21 bytes)
	if r.Intn(40) == 0 {
		big := []int{20, 40, 64, 127, 128, 129, 1500, 3000, 6000, 17000}[r.Intn(10)]
		if r.Intn(50) == 0 {
			big = 400000 + r.Intn(400000)
		}
		switch k := r.Intn(4); {
		case k == 0 && len(p.Sample) > 0 && nl > 0:
			s := p.Sample[r.Intn(len(p.Sample))]
			for len(s.Location) < big {
				s.Location = append(s.Location, p.Location[r.Intn(nl)])
			}
		case k == 1 && nl > 0 && nf > 0:
			l := p.Location[r.Intn(nl)]
			for len(l.Line) < big {
				l.Line = append(l.Line, profile.Line{Function: p.Function[r.Intn(nf)], Line: pi(), Column: pi()})
			}
		case k == 2 && len(p.Sample) > 0:
			s := p.Sample[r.Intn(len(p.Sample))]
			if s.Label == nil {
				s.Label = map[string][]string{}
			}
			var vs []string
			for i := 0; i < big && i < 20000; i++ {
				vs = append(vs, fmt.Sprintf("v%d", i))
			}
			s.Label["many"] = vs
		default:
			p.Comments = append(p.Comments, strings.Repeat("c", big))
		}
	}
	return p
}

func gunzip(b []byte) ([]byte, error) {
	zr, err := gzip.NewReader(bytes.NewReader(b))
	if err != nil {
		return nil, err
	}
	return io.ReadAll(zr)
}

// RoundTrip applies the whole C01 oracle to a profile; label explains where p came from.
func RoundTrip(p *profile.Profile, origin string) (string, bool) {
	want := wire.ViewProfile(p)
	var b1 bytes.Buffer
	if err := p.WriteUncompressed(&b1); err != nil {
		return fmt.Sprintf("%s: WriteUncompressed failed: %v", origin, err), false
	}
	if b1.Len() == 0 {
		return "", true // the all-default profile has an empty encoding; nothing to parse
	}
	got, err := wire.ViewBytes(b1.Bytes())
	if err != nil || got != want {
		return fmt.Sprintf("%s: independent wire decode of WriteUncompressed output differs (err=%v)\n--- want\n%s--- got\n%s", origin, err, want, got), false
	}
	// the parser gets its own copy of the bytes, which is scribbled over afterwards: the profile
	// it returned must not depend on the caller's buffer any more
	inbuf := append([]byte(nil), b1.Bytes()...)
	p1, err := profile.ParseUncompressed(inbuf)
	if err != nil {
		return fmt.Sprintf("%s: ParseUncompressed(WriteUncompressed(p)) failed: %v\n%s", origin, err, want), false
	}
	for i := range inbuf {
		inbuf[i] = 'Z'
	}
	if v1 := wire.ViewProfile(p1); v1 != want {
		return fmt.Sprintf("%s: parsed profile differs from the one written (after the caller reused its input buffer)\n--- want\n%s--- got\n%s", origin, want, v1), false
	}
	if err := mon.Valid(p1); err != nil {
		return fmt.Sprintf("%s: re-parsed profile invalid: %v", origin, err), false
	}
	// the same message in another valid wire form (packed lists delivered in several chunks and as
	// single elements, as other producers emit them) is the same profile, and its re-serialization
	// is the canonical one
	if b1.Len() < 1<<16 {
		h := uint64(b1.Len())*0x9e3779b97f4a7c15 + 1
		alt, err := wire.Rechunk(b1.Bytes(), func(n int) int {
			h ^= h << 13
			h ^= h >> 7
			h ^= h << 17
			return int(h % uint64(n))
		})
		if err == nil && !bytes.Equal(alt, b1.Bytes()) {
			pa, err := profile.ParseUncompressed(alt)
			if err != nil {
				return fmt.Sprintf("%s: the same message with its packed lists split into several chunks is rejected: %v", origin, err), false
			}
			if va := wire.ViewProfile(pa); va != want {
				return fmt.Sprintf("%s: the same message with its packed lists split into several chunks parses to a different profile\n--- want\n%s--- got\n%s", origin, want, va), false
			}
			var ba bytes.Buffer
			pa.WriteUncompressed(&ba)
			var bc bytes.Buffer
			p1.WriteUncompressed(&bc)
			if !bytes.Equal(ba.Bytes(), bc.Bytes()) {
				return fmt.Sprintf("%s: re-serializing the chunked form does not give the canonical bytes", origin), false
			}
		}
	}
	// byte fixpoint from the first re-serialization on
	var b2, b3 bytes.Buffer
	p1.WriteUncompressed(&b2)
	p2, err := profile.ParseUncompressed(b2.Bytes())
	if err != nil {
		return fmt.Sprintf("%s: second parse failed: %v", origin, err), false
	}
	p2.WriteUncompressed(&b3)
	if !bytes.Equal(b2.Bytes(), b3.Bytes()) {
		return fmt.Sprintf("%s: byte fixpoint broken: Write(Parse(Write(Parse(b)))) differs from Write(Parse(b))", origin), false
	}
	if v2 := wire.ViewProfile(p2); v2 != want {
		return fmt.Sprintf("%s: second-generation profile differs\n--- want\n%s--- got\n%s", origin, want, v2), false
	}
	// gzip path
	var z bytes.Buffer
	if err := p.Write(&z); err != nil {
		return fmt.Sprintf("%s: Write failed: %v", origin, err), false
	}
	raw, err := gunzip(z.Bytes())
	if err != nil {
		return fmt.Sprintf("%s: Write output is not gzip: %v", origin, err), false
	}
	if !bytes.Equal(raw, b1.Bytes()) {
		return fmt.Sprintf("%s: gunzip(Write(p)) differs from WriteUncompressed(p)", origin), false
	}
	pz, err := profile.Parse(bytes.NewReader(z.Bytes()))
	if err != nil {
		return fmt.Sprintf("%s: Parse(Write(p)) failed: %v", origin, err), false
	}
	// readers that hand out the stream in small pieces (pipes, sockets): one byte at a time, and
	// half of what is asked for
	for name, rd := range map[string]io.Reader{"one byte per Read": iotest.OneByteReader(bytes.NewReader(z.Bytes())), "half reads": iotest.HalfReader(bytes.NewReader(z.Bytes())), "data with EOF": iotest.DataErrReader(bytes.NewReader(z.Bytes()))} {
		if len(z.Bytes()) > 1<<16 {
			break
		}
		pr, err := profile.Parse(rd)
		if err != nil {
			return fmt.Sprintf("%s: Parse(Write(p)) failed through a reader delivering %s: %v", origin, name, err), false
		}
		if v := wire.ViewProfile(pr); v != want {
			return fmt.Sprintf("%s: Parse through a reader delivering %s differs\n--- want\n%s--- got\n%s", origin, name, want, v), false
		}
	}
	if vz := wire.ViewProfile(pz); vz != want {
		return fmt.Sprintf("%s: gzip round trip differs\n--- want\n%s--- got\n%s", origin, want, vz), false
	}
	pd, err := profile.ParseData(z.Bytes())
	if err != nil || wire.ViewProfile(pd) != want {
		return fmt.Sprintf("%s: ParseData(Write(p)) differs (err=%v)", origin, err), false
	}
	// Copy: equal, disjoint, isolated
	before := mon.Fingerprint(p)
	cp := p.Copy()
	if vc := wire.ViewProfile(cp); vc != want {
		return fmt.Sprintf("%s: Copy() differs\n--- want\n%s--- got\n%s", origin, want, vc), false
	}
	if sh := mon.Shared(struct{ P *profile.Profile }{p}, struct{ P *profile.Profile }{cp}); len(sh) > 0 {
		return fmt.Sprintf("%s: Copy() shares memory with the original: %v", origin, sh), false
	}
	for _, s := range cp.Sample {
		for i := range s.Value {
			s.Value[i]++
		}
		for k := range s.Label {
			s.Label[k] = append(s.Label[k], "m")
		}
	}
	for _, f := range cp.Function {
		f.Name += "m"
	}
	for _, l := range cp.Location {
		l.Address++
		for i := range l.Line {
			l.Line[i].Line++
		}
	}
	for _, st := range cp.SampleType {
		st.Unit += "m"
	}
	if mon.Fingerprint(p) != before {
		return fmt.Sprintf("%s: mutating the copy changed the original, or Write/Copy modified it", origin), false
	}
	return "", true
}

// part writers: several goroutines write their own, different profiles at once through sinks that
// block in the middle of a write (a pipe, a socket, a slow disk); what each sink received must parse
// back to its profile and equal the bytes of a quiescent write.
type slowSink struct {
	buf  bytes.Buffer
	gate chan struct{}
}

func (s *slowSink) Write(b []byte) (int, error) {
	// take the data in two halves with a scheduling point in between, as a pipe reader would
	h := len(b) / 2
	s.buf.Write(b[:h])
	<-s.gate
	s.buf.Write(b[h:])
	return len(b), nil
}

func runWriters(c *harness.Ctx) harness.Result {
	r := c.Rng
	n := 3 + r.Intn(6)
	var ps []*profile.Profile
	var want [][]byte
	for i := 0; i < n; i++ {
		p := GenCodec(r)
		var b bytes.Buffer
		if err := p.WriteUncompressed(&b); err != nil {
			return harness.Result{Verdict: harness.Inconclusive, Detail: "generator: " + err.Error()}
		}
		ps, want = append(ps, p), append(want, b.Bytes())
	}
	res := harness.Result{NonTrivial: true, Sig: fmt.Sprint("writers ", n, len(want[0]), c.Index), Sample: fmt.Sprintf("%d goroutines, each writing its own profile through a sink that blocks mid-write", n)}
	sinks := make([]*slowSink, n)
	gate := make(chan struct{})
	var wg sync.WaitGroup
	errs := make([]error, n)
	for i := range ps {
		sinks[i] = &slowSink{gate: gate}
		wg.Add(1)
		go func(i int) {
			defer wg.Done()
			errs[i] = ps[i].WriteUncompressed(sinks[i])
		}(i)
	}
	// release the writers one at a time, so that each finishes its write while others are still
	// in the middle of theirs (and new serializations start meanwhile)
	for i := 0; i < n; i++ {
		if i%2 == 0 {
			var b bytes.Buffer
			ps[r.Intn(n)].Copy().WriteUncompressed(&b)
		}
		gate <- struct{}{}
	}
	wg.Wait()
	c.Stat("writers.concurrent_writes", int64(n))
	for i := range ps {
		if errs[i] != nil {
			return harness.Violation("writer %d: %v", i, errs[i])
		}
		if !bytes.Equal(sinks[i].buf.Bytes(), want[i]) {
			res.Verdict = harness.Violated
			_, perr := profile.ParseUncompressed(sinks[i].buf.Bytes())
			res.Detail = fmt.Sprintf("writer %d of %d: the sink received %d bytes that differ from the %d bytes a quiescent WriteUncompressed of the same profile produces (parse of what it received: %v); every writer wrote its own profile, the sinks block in the middle of a Write", i, n, sinks[i].buf.Len(), len(want[i]), perr)
			return res
		}
	}
	return res
}

func runGen(c *harness.Ctx) harness.Result {
	p := GenCodec(c.Rng)
	if err := mon.Valid(p); err != nil {
		return harness.Result{Verdict: harness.Inconclusive, Detail: "generator: " + err.Error()}
	}
	nlab := 0
	for _, s := range p.Sample {
		nlab += len(s.Label) + len(s.NumLabel)
	}
	res := harness.Result{NonTrivial: len(p.Sample)+len(p.Location)+len(p.Function) > 0,
		Sig:    fmt.Sprintf("st%d s%d l%d f%d m%d lab%d c%d", len(p.SampleType), len(p.Sample), len(p.Location), len(p.Function), len(p.Mapping), nlab, len(p.Comments)),
		Sample: harness.Trunc(wire.ViewProfile(p), 700)}
	c.Stat("profiles", 1)
	c.Stat("samples", int64(len(p.Sample)))
	if msg, ok := RoundTrip(p, "generated"); !ok {
		res.Verdict, res.Detail = harness.Violated, msg
		return res
	}
	// The same in-memory object, modified after it has been serialized, must serialize according
	// to its new contents (no state cached by an earlier Write may leak into the next one).
	r := c.Rng
	var what []string
	for k, n := 0, 1+r.Intn(3); k < n; k++ {
		switch r.Intn(6) {
		case 0:
			if len(p.Location) > 0 {
				l := p.Location[r.Intn(len(p.Location))]
				if l.Mapping != nil {
					l.Mapping = nil
					what = append(what, "cleared a location's mapping")
				} else if len(p.Mapping) > 0 {
					l.Mapping = p.Mapping[r.Intn(len(p.Mapping))]
					what = append(what, "set a location's mapping")
				}
			}
		case 1:
			if len(p.Location) > 0 && len(p.Function) > 0 {
				l := p.Location[r.Intn(len(p.Location))]
				if len(l.Line) > 0 {
					l.Line[r.Intn(len(l.Line))].Function = p.Function[r.Intn(len(p.Function))]
					what = append(what, "pointed a line at another function")
				}
			}
		case 2:
			if len(p.Sample) > 0 {
				s := p.Sample[r.Intn(len(p.Sample))]
				s.Label, s.NumLabel, s.NumUnit = nil, nil, nil
				what = append(what, "removed a sample's labels")
			}
		case 3:
			if len(p.Sample) > 0 && len(p.Location) > 0 {
				s := p.Sample[r.Intn(len(p.Sample))]
				s.Location = append(s.Location, p.Location[r.Intn(len(p.Location))])
				what = append(what, "appended a location to a sample")
			}
		case 4:
			if len(p.Sample) > 0 {
				s := p.Sample[r.Intn(len(p.Sample))]
				s.NumLabel = map[string][]int64{"n": {5, 6}}
				s.NumUnit = map[string][]string{"n": {"kb", ""}}
				what = append(what, "replaced numeric labels")
			}
		case 5:
			p.PeriodType, p.DropFrames, p.DefaultSampleType = nil, "", ""
			p.Comments = nil
			what = append(what, "cleared header fields")
		}
	}
	if len(what) > 0 {
		c.Stat("rewrites_after_mutation", 1)
		if msg, ok := RoundTrip(p, fmt.Sprintf("same object serialized again after in-place changes %v", what)); !ok {
			res.Verdict, res.Detail = harness.Violated, msg
		}
	}
	return res
}

// accepted inputs: every file under the repository's testdata directories that ParseData accepts.
var corpusOnce sync.Once
var corpus []string

func loadCorpus() {
	corpusOnce.Do(func() {
		for _, dir := range []string{"profile/testdata", "internal/driver/testdata", "internal/report/testdata", "fuzz/testdata", "proto/testdata"} {
			filepath.Walk(filepath.Join(repoDir(), dir), func(path string, info os.FileInfo, err error) error {
				if err == nil && !info.IsDir() && info.Size() < 4<<20 {
					corpus = append(corpus, path)
				}
				return nil
			})
		}
		sort.Strings(corpus)
	})
}

func repoDir() string {
	if d := os.Getenv("VERIF_REPO"); d != "" {
		return d
	}
	return "/repo"
}

func runCorpus(c *harness.Ctx) harness.Result {
	loadCorpus()
	if len(corpus) == 0 {
		return harness.Result{Verdict: harness.Inconclusive, Detail: "no corpus files"}
	}
	path := corpus[c.Index%len(corpus)]
	data, err := os.ReadFile(path)
	if err != nil {
		return harness.Result{Verdict: harness.Inconclusive, Detail: err.Error()}
	}
	p, err := profile.ParseData(data)
	if err != nil {
		c.Stat("corpus.rejected", 1)
		return harness.Result{}
	}
	c.Stat("corpus.accepted", 1)
	res := harness.Result{NonTrivial: true, Sig: "corpus:" + path, Sample: "accepted file " + path}
	if msg, ok := RoundTrip(p, "parsed from "+path); !ok {
		res.Verdict, res.Detail = harness.Violated, msg
	}
	return res
}

// pprof -proto output re-read by pprof -raw / -traces equals the direct rendering
func runDriver(c *harness.Ctx) harness.Result {
	r := c.Rng
	var p *profile.Profile
	for {
		p = GenCodec(r)
		if len(p.SampleType) > 0 && len(p.Sample) > 0 && p.DropFrames == "" && p.KeepFrames == "" {
			break
		}
		p.DropFrames, p.KeepFrames = "", ""
		if len(p.SampleType) > 0 && len(p.Sample) > 0 {
			break
		}
	}
	// sample type names must be selectable and units printable
	for i, st := range p.SampleType {
		st.Type, st.Unit = fmt.Sprintf("t%d", i), "count"
	}
	p.DefaultSampleType = ""
	res := harness.Result{NonTrivial: true, Sig: fmt.Sprintf("drv st%d s%d l%d %d", len(p.SampleType), len(p.Sample), len(p.Location), c.Index), Sample: "pprof -raw p  versus  pprof -raw (pprof -proto p)"}
	render := func(src *profile.Profile, format string) (string, string) {
		out, ui, rr := drv.Report(map[string]*profile.Profile{"p": src}, []string{"p"}, map[string]bool{format: true, "addresses": true}, nil, nil, nil, nil)
		if rr.Panic != "" {
			return "", "panic: " + rr.Panic
		}
		if rr.Err != nil {
			return "", fmt.Sprintf("error: %v %v", rr.Err, ui.Errs)
		}
		return out, ""
	}
	// -output over a file that already exists and is longer than the new report: what is in the
	// file afterwards is the new report only
	if c.Index%6 == 0 {
		path := c.Tmp + "/out.pb.gz"
		junk := bytes.Repeat([]byte("earlier, longer content of the -output target\n"), 4000+r.Intn(2000))
		if r.Intn(2) == 0 { // ... e.g. an earlier, bigger profile
			var jb bytes.Buffer
			big := p.Copy()
			for k := 0; k < 6; k++ {
				big.Sample = append(big.Sample, big.Sample...)
			}
			big.Write(&jb)
			junk = append(jb.Bytes(), junk[:1+r.Intn(len(junk))]...)
		}
		os.WriteFile(path, junk, 0o644)
		fl := &drv.Flags{Bools: map[string]bool{"proto": true, "addresses": true}, Strs: map[string]string{"output": path, "symbolize": "none"}, Args: []string{"p"}}
		ss := &drv.Session{Flags: fl, Fetch: &drv.MapFetcher{Profiles: map[string]*profile.Profile{"p": p}}, OSWriter: true}
		if rr := ss.Run(); rr.Panic == "" && rr.Err == nil {
			c.Stat("driver.output_over_existing_file", 1)
			data, _ := os.ReadFile(path)
			if _, err := profile.ParseData(data); err != nil {
				res.Verdict, res.Detail = harness.Violated, fmt.Sprintf("pprof -proto -output=FILE over an existing, longer FILE (%d bytes before, %d after): the file does not parse as a profile: %v", len(junk), len(data), err)
				return res
			}
		}
		os.Remove(path)
	}
	saved, e := render(p, "proto")
	if e != "" {
		c.Stat("driver.errors", 1)
		return res // reported as an error: not a codec matter (C09)
	}
	q, err := profile.ParseData([]byte(saved))
	if err != nil {
		res.Verdict, res.Detail = harness.Violated, fmt.Sprintf("pprof -proto output cannot be parsed back: %v", err)
		return res
	}
	c.Stat("driver.reopened", 1)
	// no filter, no trimming, no symbolization: the saved profile carries the same samples, i.e.
	// the same values per (frames with every attribute incl. columns, labels), and the same header
	var pb bytes.Buffer
	p.WriteUncompressed(&pb)
	p0, err := profile.ParseUncompressed(pb.Bytes()) // drops what proto3 cannot represent (part gen checks this step)
	if err != nil {
		return res
	}
	want, _ := ref.SumView(p0)
	qv := q.Copy()
	if len(p0.Mapping) == 0 {
		// documented: a profile without mappings gets one fake mapping covering everything
		c.Stat("driver.fake_mapping", 1)
		for _, l := range qv.Location {
			l.Mapping = nil
		}
	}
	got, _ := ref.SumView(qv)
	if d := ref.DiffSum(want, got); d != "" {
		res.Verdict = harness.Violated
		res.Detail = "pprof -proto output does not carry the samples of its input (per frames+labels):\n" + d
		return res
	}
	// the same save from the interactive shell, after an earlier save under -divide_by: the later
	// one (default options again) must still carry the input's values
	if c.Index%10 == 0 {
		var ib bytes.Buffer
		p.WriteUncompressed(&ib)
		sr, err := sess.Run(sess.Spec{Profile: ib.Bytes(), Mode: "interactive", Lines: []string{"divide_by=2", "proto > a.pb.gz", "divide_by=1", "proto > b.pb.gz"}, Dir: c.Tmp + "/s"}, 2*time.Minute)
		if err == nil && sr.Panic == "" && len(sr.Segments) >= 4 {
			for fn, body := range sr.Segments[3].Files {
				if !strings.HasSuffix(fn, "b.pb.gz") {
					continue
				}
				c.Stat("driver.interactive_saves", 1)
				qb, err := profile.ParseData(sess.FileBytes(body))
				if err != nil {
					return harness.Violation("interactive 'proto > b.pb.gz' wrote something unparseable: %v", err)
				}
				if len(p0.Mapping) == 0 {
					for _, l := range qb.Location {
						l.Mapping = nil
					}
				}
				gb, _ := ref.SumView(qb)
				if d := ref.DiffSum(want, gb); d != "" {
					res.Verdict = harness.Violated
					res.Detail = "interactive session [divide_by=2, proto > a, divide_by=1, proto > b]: the second save does not carry the samples of the input:\n" + d
					return res
				}
			}
		}
	}
	for _, f := range []string{"raw", "traces"} {
		a, e1 := render(p, f)
		b, e2 := render(q, f)
		if e1 != e2 || a != b {
			res.Verdict = harness.Violated
			res.Detail = fmt.Sprintf("pprof -%s of the profile and of its -proto copy differ (%q / %q)\n--- direct\n%s\n--- via -proto\n%s", f, e1, e2, harness.Trunc(a, 1500), harness.Trunc(b, 1500))
			return res
		}
	}
	return res
}

func init() {
	loadCorpus()
	nc := len(corpus)
	harness.Register(&harness.Check{
		ID:    "C01",
		Level: "exploration",
		Rule: "part gen: codec-class generator (sparse/huge/boundary ids, 0..4 sample types, 0..4 elements in every repeated field, extreme int64, empty/NUL/non-UTF8/long strings, partial units); part writers: 3-8 goroutines each write their own profile through a sink that blocks mid-write while other serializations start; each sink must have received the bytes of a quiescent write. part corpus: every repository testdata file that ParseData accepts (protobuf and legacy). part driver: codec-class profiles saved by the real driver with -proto: the reparsed output must carry the same values per (frames with every attribute incl. columns, labels) as the input (fake mapping for mapping-less profiles excepted), and -raw / -traces of it must equal the direct rendering; every tenth profile is also saved twice from one interactive session (first under divide_by=2, then with default options again) and the second save must carry the input's values. " +
			"oracle per profile: independent wire decoder view == normalised in-memory view; ParseUncompressed/Parse/ParseData of the written bytes == original, also after the caller's input buffer has been overwritten; gunzip(Write)==WriteUncompressed; Parse of the compressed bytes through readers that deliver one byte / half of the request / data together with EOF; byte fixpoint from the first re-serialisation; Copy equal, pointer-disjoint, mutation-isolated; inputs unmodified; the same object changed in place (mapping cleared/set, line re-pointed, labels removed/replaced, header cleared) and serialized again must round-trip according to its new contents. " +
			"non-trivial = has at least one sample, location or function; distinct = distinct table-size signature (or file)",
		Assumptions: []string{"normalisation N: labels with empty string value, and numeric value 0 without unit, are unrepresentable in proto3 and dropped", "NumUnit is absent or as long as NumLabel (documented contract)"},
		Parts: []harness.Part{
			{Name: "gen", Quick: 20000, Thor: 600000, Run: runGen},
			{Name: "corpus", Quick: nc, Thor: nc, Run: runCorpus},
			{Name: "driver", Quick: 1500, Thor: 60000, Run: runDriver},
			{Name: "writers", Quick: 300, Thor: 20000, Run: runWriters},
		},
		MinNonTrivial: func(string) int { return 300 },
		Finish: func(tier string, st map[string]int64) string {
			if st["corpus.accepted"] < 10 {
				return fmt.Sprintf("only %d corpus files accepted", st["corpus.accepted"])
			}
			return ""
		},
	})
}
