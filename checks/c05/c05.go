// Package c05 monitors trimming (nodecount, nodefraction, edgefraction): numbers of what remains
// are unchanged, text reports drop exactly the documented entries, legends agree with what is shown,
// residual edges are marked and no edge refers to a removed entry.
package c05

import (
	"bytes"
	"fmt"
	"math/rand"
	"strings"
	"time"

	"github.com/google/pprof/profile"
	"github.com/google/pprof/verif/checks/c04"
	"github.com/google/pprof/verif/internal/drv"
	"github.com/google/pprof/verif/internal/gen"
	"github.com/google/pprof/verif/internal/harness"
	"github.com/google/pprof/verif/internal/parse"
	"github.com/google/pprof/verif/internal/ref"
	"github.com/google/pprof/verif/internal/sess"
)

type trimOpt struct {
	nodecount    int
	nodefraction float64
	edgefraction float64
	cum          bool
}

func abs(v int64) int64 { return ref.Abs64(v) }

func usableNames(p *profile.Profile) bool {
	for _, f := range p.Function {
		for _, s := range []string{f.Name, f.Filename} {
			if s != strings.TrimSpace(s) || strings.Contains(s, "  ") || strings.Contains(s, "\n") || strings.HasSuffix(s, "(inline)") {
				return false
			}
		}
	}
	return true
}

type world struct {
	rep     *ref.Rep
	byName  map[string][]*ref.Entry // shown untrimmed entries by printable name
	sumFlat int64
	nShown  int
}

func newWorld(p *profile.Profile, o c04.Opt) *world {
	w := &world{rep: ref.Report(p, o.RefOpts()), byName: map[string][]*ref.Entry{}}
	for _, e := range w.rep.Entries {
		if e.Shown() {
			w.byName[e.Key.Printable()] = append(w.byName[e.Key.Printable()], e)
			w.sumFlat += e.Flat
			w.nShown++
		}
	}
	return w
}

// uniqueNames: the checks identify entries by printable name; require names to be unique among
// shown entries (otherwise the case is skipped as undecidable from the output).
func (w *world) uniqueNames() bool {
	for _, es := range w.byName {
		if len(es) > 1 {
			return false
		}
	}
	return true
}

// projected adjacency over shown set S: weight and whether some contributing sample had deletions
func (w *world) projected(shown map[ref.NodeKey]bool) map[[2]ref.NodeKey]*struct {
	w   int64
	res bool
} {
	out := map[[2]ref.NodeKey]*struct {
		w   int64
		res bool
	}{}
	for _, ks := range w.rep.Samples {
		if ks.W == 0 && ks.D == 0 {
			continue
		}
		seen := map[[2]ref.NodeKey]bool{}
		var prev *ref.NodeKey
		res := false
		for i := range ks.Keys {
			k := ks.Keys[i]
			if !shown[k] {
				res = true
				continue
			}
			if prev != nil && *prev != k {
				e := [2]ref.NodeKey{*prev, k}
				if !seen[e] {
					seen[e] = true
					if out[e] == nil {
						out[e] = &struct {
							w   int64
							res bool
						}{}
					}
					out[e].w += ks.W
					if res {
						out[e].res = true
					}
				}
			}
			kk := k
			prev, res = &kk, false
		}
	}
	return out
}

func runCase(c *harness.Ctx) harness.Result {
	r := c.Rng
	var p *profile.Profile
	var o c04.Opt
	var w *world
	for tries := 0; ; tries++ {
		p = c04.GenReportProfile(r)
		if !usableNames(p) {
			continue
		}
		o = c04.Opt{Gran: []string{"functions", "functions", "lines", "files", "filefunctions"}[r.Intn(5)], NoInlines: r.Intn(4) == 0, Index: r.Intn(len(p.SampleType))}
		w = newWorld(p, o)
		if w.uniqueNames() || tries > 20 {
			break
		}
	}
	res := harness.Result{NonTrivial: w.nShown >= 2, Sig: gen.Shape(p)}
	if !w.uniqueNames() {
		return harness.Result{Verdict: harness.Held}
	}
	var tried []string
	for k := 0; k < 4; k++ {
		t := trimOpt{cum: r.Intn(2) == 0}
		n := w.nShown
		t.nodecount = []int{0, 1, 2, 3, 5, n - 1, n, n + 1}[r.Intn(8)]
		if t.nodecount < 0 {
			t.nodecount = 0
		}
		// nodefraction just below / above an actual |cum|/sum(flat) ratio
		if w.sumFlat != 0 && r.Intn(3) > 0 && n > 0 {
			var cums []int64
			for _, es := range w.byName {
				cums = append(cums, abs(es[0].Cum))
			}
			cv := cums[r.Intn(len(cums))]
			t.nodefraction = (float64(cv) + []float64{-0.5, 0, 0.5, 1}[r.Intn(4)]) / float64(abs(w.sumFlat))
			if t.nodefraction < 0 {
				t.nodefraction = 0
			}
		} else {
			t.nodefraction = []float64{0, 0.005, 0.3, 1, 2}[r.Intn(5)]
		}
		if r.Intn(3) == 0 && w.sumFlat != 0 && len(w.rep.Edges) > 0 {
			for _, ew := range w.rep.Edges {
				t.edgefraction = (float64(abs(ew.W)) + []float64{-0.5, 0.5}[r.Intn(2)]) / float64(abs(w.sumFlat))
				break
			}
			if t.edgefraction < 0 {
				t.edgefraction = 0
			}
		}
		tried = append(tried, fmt.Sprintf("%+v", t))
		c.Stat("trim_points", 1)
		if msg := checkTrim(c, p, o, w, t); msg != "" {
			res.Verdict = harness.Violated
			res.Detail = fmt.Sprintf("options %s trim %+v (untrimmed: %d entries, sum flat %d)\n%s\nprofile:\n%s", o, t, w.nShown, w.sumFlat, harness.Trunc(msg, 3500), harness.Trunc(p.String(), 2500))
			break
		}
	}
	res.Sample = map[string]any{"profile": gen.Describe(p), "options": o.String(), "trim_points": tried}
	return res
}

func checkTrim(c *harness.Ctx, p *profile.Profile, o c04.Opt, w *world, t trimOpt) string {
	profs := map[string]*profile.Profile{"p": p}
	b, s := o.Flags(p)
	delete(b, "trim")
	if t.cum {
		b["cum"] = true
	} else {
		b["flat"] = true
	}
	ints := map[string]int{"nodecount": t.nodecount}
	floats := map[string]float64{"nodefraction": t.nodefraction, "edgefraction": t.edgefraction}
	run := func(format string, callTree bool) (string, string) {
		bb := map[string]bool{format: true, "call_tree": callTree}
		for k, v := range b {
			if k != "call_tree" {
				bb[k] = v
			}
		}
		out, ui, res := drv.Report(profs, []string{"p"}, bb, s, ints, floats, nil)
		if res.Panic != "" {
			return "", "panic: " + res.Panic
		}
		if res.Err != nil {
			return "", fmt.Sprintf("error: %v (ui %v)", res.Err, ui.Errs)
		}
		c.Stat("reports."+format, 1)
		return out, ""
	}
	nodeCutoff := abs(int64(float64(w.sumFlat) * t.nodefraction))
	edgeCutoff := abs(int64(float64(w.sumFlat) * t.edgefraction))
	elig := map[string]*ref.Entry{}
	for name, es := range w.byName {
		if abs(es[0].Cum) >= nodeCutoff {
			elig[name] = es[0]
		}
	}
	wantN := len(elig)
	if t.nodecount > 0 && t.nodecount < wantN {
		wantN = t.nodecount
	}
	prim := func(e *ref.Entry) int64 {
		if t.cum {
			return abs(e.Cum)
		}
		return abs(e.Flat)
	}
	// shared verification of a set of shown rows
	checkRows := func(what string, rows []ref.Row, exact bool) (map[ref.NodeKey]bool, string) {
		shown := map[ref.NodeKey]bool{}
		names := map[string]bool{}
		for _, row := range rows {
			es := w.byName[row.Name]
			if len(es) == 0 {
				return nil, fmt.Sprintf("%s shows entry %q which is not an entry of the untrimmed report", what, row.Name)
			}
			e := es[0]
			if row.Flat != e.FlatV() || row.Cum != e.CumV() {
				return nil, fmt.Sprintf("%s shows %q with flat=%d cum=%d, untrimmed values are flat=%d cum=%d", what, row.Name, row.Flat, row.Cum, e.FlatV(), e.CumV())
			}
			if names[row.Name] {
				return nil, fmt.Sprintf("%s shows %q twice", what, row.Name)
			}
			names[row.Name] = true
			shown[e.Key] = true
		}
		if exact {
			if len(rows) != wantN {
				return nil, fmt.Sprintf("%s shows %d entries; %d are at or above the node cutoff %d and nodecount=%d, so %d expected", what, len(rows), len(elig), nodeCutoff, t.nodecount, wantN)
			}
			for _, row := range rows {
				if elig[row.Name] == nil {
					return nil, fmt.Sprintf("%s shows %q whose |cum|=%d is below the node cutoff %d", what, row.Name, abs(w.byName[row.Name][0].Cum), nodeCutoff)
				}
			}
			for name, h := range elig {
				if names[name] {
					continue
				}
				for _, row := range rows {
					if prim(h) > prim(w.byName[row.Name][0]) {
						return nil, fmt.Sprintf("%s hides %q (sort magnitude %d) but shows %q (sort magnitude %d)", what, name, prim(h), row.Name, prim(w.byName[row.Name][0]))
					}
				}
			}
		}
		return shown, ""
	}
	checkLegend := func(what string, h parse.Header, rows []ref.Row) string {
		var sum int64
		for _, row := range rows {
			sum += row.Flat
		}
		if !h.Found {
			return what + ": legend line 'Showing nodes accounting for' missing"
		}
		if h.Accounting != sum {
			return fmt.Sprintf("%s legend says 'accounting for %d', flat values shown sum to %d", what, h.Accounting, sum)
		}
		if h.Total != w.rep.Total {
			return fmt.Sprintf("%s legend total %d, reference %d", what, h.Total, w.rep.Total)
		}
		return ""
	}
	// ---------- top
	// text reports do not know call trees: the option, set at every third trim point, changes nothing
	textCT := c.Rng.Intn(3) == 0
	out, e := run("top", textCT)
	if e != "" {
		return "-top failed: " + e
	}
	h, trows, err := parse.Top(out)
	if err != nil {
		return fmt.Sprintf("-top unparseable: %v\n%s", err, out)
	}
	var rows []ref.Row
	for _, x := range trows {
		rows = append(rows, ref.Row{Name: x.Name, Flat: x.Flat, Cum: x.Cum})
	}
	if _, msg := checkRows("-top", rows, true); msg != "" {
		return msg + "\n" + out
	}
	if msg := checkLegend("-top", h, rows); msg != "" {
		return msg + "\n" + out
	}
	if w.rep.Total != 0 {
		dropped := w.nShown - len(elig)
		if dropped > 0 && h.DroppedNodes != dropped || dropped == 0 && h.DroppedNodes > 0 {
			return fmt.Sprintf("-top legend 'Dropped %d nodes', but %d entries are below the cutoff %d\n%s", h.DroppedNodes, dropped, nodeCutoff, out)
		}
		if t.nodecount > 0 && t.nodecount < len(elig) {
			if h.TopN != len(rows) || h.OutOf != len(elig) {
				return fmt.Sprintf("-top legend 'top %d of %d', shown %d of %d eligible\n%s", h.TopN, h.OutOf, len(rows), len(elig), out)
			}
		} else if h.TopN != -1 {
			return fmt.Sprintf("-top legend claims 'top %d of %d' although nothing was cut by nodecount\n%s", h.TopN, h.OutOf, out)
		}
	}
	// order of rows follows the sort magnitude
	for i := 1; i < len(rows); i++ {
		a, bb := w.byName[rows[i-1].Name][0], w.byName[rows[i].Name][0]
		if prim(a) < prim(bb) {
			return fmt.Sprintf("-top rows out of order: %q (%d) before %q (%d)\n%s", rows[i-1].Name, prim(a), rows[i].Name, prim(bb), out)
		}
	}
	// ---------- tree
	out, e = run("tree", textCT)
	if e != "" {
		return "-tree failed: " + e
	}
	h, tn, err := parse.Tree(out)
	if err != nil {
		return fmt.Sprintf("-tree unparseable: %v\n%s", err, out)
	}
	rows = nil
	for _, n := range tn {
		rows = append(rows, ref.Row{Name: n.Row.Name, Flat: n.Row.Flat, Cum: n.Row.Cum})
	}
	// -tree defaults nodecount to 80 when -1; we always pass it explicitly (0 = unlimited)
	shown, msg := checkRows("-tree", rows, true)
	if msg != "" {
		return msg + "\n" + out
	}
	if msg := checkLegend("-tree", h, rows); msg != "" {
		return msg + "\n" + out
	}
	proj := w.projected(shown)
	keyOf := func(name string) ref.NodeKey { return w.byName[name][0].Key }
	var got []ref.EdgeRow
	for _, n := range tn {
		for _, ce := range n.Callees {
			got = append(got, ref.EdgeRow{Src: n.Row.Name, Dst: ce.Name, W: ce.W})
		}
	}
	var gotIn []ref.EdgeRow
	for _, n := range tn {
		for _, ce := range n.Callers {
			gotIn = append(gotIn, ref.EdgeRow{Src: ce.Name, Dst: n.Row.Name, W: ce.W})
		}
	}
	ref.SortEdgeRows(got)
	ref.SortEdgeRows(gotIn)
	if fmt.Sprint(got) != fmt.Sprint(gotIn) {
		return fmt.Sprintf("-tree caller lines and callee lines disagree:\n callees %v\n callers %v\n%s", got, gotIn, out)
	}
	seenEdge := map[[2]ref.NodeKey]bool{}
	for _, ge := range got {
		if len(w.byName[ge.Src]) == 0 || len(w.byName[ge.Dst]) == 0 || !shown[keyOf(ge.Src)] || !shown[keyOf(ge.Dst)] {
			return fmt.Sprintf("-tree edge %s -> %s refers to an entry that is not shown\n%s", ge.Src, ge.Dst, out)
		}
		ek := [2]ref.NodeKey{keyOf(ge.Src), keyOf(ge.Dst)}
		seenEdge[ek] = true
		pe := proj[ek]
		var direct int64
		if d := w.rep.Edges[ek]; d != nil {
			direct = d.V()
		}
		// text output does not show the residual flag: the weight must be the direct adjacency, or
		// the adjacency over the shown entries when some contributing sample bypassed removed entries
		if ge.W == direct && w.rep.Edges[ek] != nil {
			continue
		}
		if pe != nil && pe.res && ge.W == pe.w {
			c.Stat("residual_edges_seen", 1)
			continue
		}
		return fmt.Sprintf("-tree edge %s -> %s has weight %d; untrimmed direct adjacency weight is %d, adjacency over the shown entries is %+v\n%s", ge.Src, ge.Dst, ge.W, direct, pe, out)
	}
	// completeness: every direct adjacency between shown entries reaching the edge cutoff appears
	for ek, d := range w.rep.Edges {
		if shown[ek[0]] && shown[ek[1]] && abs(d.W) >= edgeCutoff && !seenEdge[ek] {
			if pe := proj[ek]; pe != nil && abs(pe.w) < edgeCutoff {
				continue // folded into a residual edge that itself fell below the edge cutoff
			}
			return fmt.Sprintf("-tree lacks edge %s -> %s (untrimmed weight %d, edge cutoff %d) although both entries are shown\n%s", ek[0].Printable(), ek[1].Printable(), d.W, edgeCutoff, out)
		}
	}
	// ---------- dot (graph)
	out, e = run("dot", false)
	if e != "" {
		return "-dot failed: " + e
	}
	g, err := parse.ParseDOT(out)
	if err != nil {
		return fmt.Sprintf("-dot output invalid: %v\n%s", err, out)
	}
	dn, de, err := parse.DotReport(g)
	if err != nil {
		return fmt.Sprintf("-dot numbers unreadable: %v\n%s", err, out)
	}
	rows = nil
	for _, n := range dn {
		rows = append(rows, ref.Row{Name: n.Name, Flat: n.Flat, Cum: n.Cum})
	}
	shown, msg = checkRows("-dot", rows, false)
	if msg != "" {
		return msg + "\n" + out
	}
	for _, row := range rows {
		if elig[row.Name] == nil {
			return fmt.Sprintf("-dot shows %q whose |cum| is below the node cutoff %d\n%s", row.Name, nodeCutoff, out)
		}
	}
	if t.nodecount > 0 && len(rows) > t.nodecount {
		return fmt.Sprintf("-dot shows %d entries with nodecount=%d\n%s", len(rows), t.nodecount, out)
	}
	// legend inside the DOT label
	for _, v := range g.AllValues {
		if i := strings.Index(v, "Showing nodes accounting for "); i >= 0 {
			var acc int64
			fmt.Sscanf(v[i:], "Showing nodes accounting for %d,", &acc)
			var sum int64
			for _, row := range rows {
				sum += row.Flat
			}
			if acc != sum {
				return fmt.Sprintf("-dot legend says 'accounting for %d', flat values shown sum to %d\n%s", acc, sum, out)
			}
		}
	}
	proj = w.projected(shown)
	for _, x := range de {
		ek := [2]ref.NodeKey{keyOf(x.Src), keyOf(x.Dst)}
		if !x.Residual {
			d := w.rep.Edges[ek]
			if d == nil || d.V() != x.W {
				return fmt.Sprintf("-dot solid edge %s -> %s has weight %d; untrimmed direct adjacency is %+v\n%s", x.Src, x.Dst, x.W, d, out)
			}
			continue
		}
		c.Stat("residual_edges_seen", 1)
		pe := proj[ek]
		if pe == nil || !pe.res || pe.w != x.W {
			return fmt.Sprintf("-dot dotted (residual) edge %s -> %s has weight %d; adjacency over the shown entries is %+v (res = some sample bypassed removed entries)\n%s", x.Src, x.Dst, x.W, pe, out)
		}
	}
	// an edge that bypasses removed entries must be marked residual
	for _, x := range de {
		ek := [2]ref.NodeKey{keyOf(x.Src), keyOf(x.Dst)}
		if pe := proj[ek]; pe != nil && !x.Residual && pe.res && pe.w == x.W && (w.rep.Edges[ek] == nil || w.rep.Edges[ek].V() != x.W) {
			return fmt.Sprintf("-dot edge %s -> %s bypasses removed entries but is not marked residual\n%s", x.Src, x.Dst, out)
		}
	}
	// ---------- dot call tree
	out, e = run("dot", true)
	if e != "" {
		return "-dot -call_tree failed: " + e
	}
	g, err = parse.ParseDOT(out)
	if err != nil {
		return fmt.Sprintf("-dot -call_tree output invalid: %v\n%s", err, out)
	}
	dn, de, err = parse.DotReport(g)
	if err != nil {
		return fmt.Sprintf("-dot -call_tree numbers unreadable: %v\n%s", err, out)
	}
	tree := ref.Tree(p, o.RefOpts())
	avail := map[string]int{}
	for _, n := range tree {
		if n.Flat != 0 || n.Cum != 0 {
			avail[fmt.Sprintf("%s|%d|%d", n.Key.Printable(), n.Flat, n.Cum)]++
		}
	}
	cumOf := map[string]int64{}
	for _, n := range dn {
		k := fmt.Sprintf("%s|%d|%d", n.Name, n.Flat, n.Cum)
		if avail[k] == 0 {
			return fmt.Sprintf("-dot -call_tree shows node %q flat=%d cum=%d which matches no (remaining) node of the untrimmed call tree\n%s", n.Name, n.Flat, n.Cum, out)
		}
		avail[k]--
		cumOf[n.ID] = n.Cum
		if abs(n.Cum) < nodeCutoff {
			return fmt.Sprintf("-dot -call_tree shows %q with |cum| %d below the node cutoff %d\n%s", n.Name, n.Cum, nodeCutoff, out)
		}
	}
	indeg := map[string]int{}
	for _, x := range de {
		indeg[x.DstID]++
		if indeg[x.DstID] > 1 {
			return fmt.Sprintf("-dot -call_tree: node %s has more than one parent\n%s", x.DstID, out)
		}
		if x.W != cumOf[x.DstID] {
			return fmt.Sprintf("-dot -call_tree: edge into %s (%s) has weight %d but the node's cum is %d\n%s", x.DstID, x.Dst, x.W, cumOf[x.DstID], out)
		}
	}
	return ""
}

// interactive "top N" / "top N -cum": the node count given on the command line trims exactly like
// -nodecount=N on the command line (whose numbers part trim checks against the reference)
func runInteractive(c *harness.Ctx) harness.Result {
	r := c.Rng
	var p *profile.Profile
	for {
		p = c04.GenReportProfile(r)
		if usableNames(p) {
			break
		}
	}
	n := 1 + r.Intn(6)
	idx := p.SampleType[r.Intn(len(p.SampleType))].Type
	lines := []string{"nodefraction=0", "sample_index=" + idx, fmt.Sprintf("top %d", n), fmt.Sprintf("top %d -cum", n), "top"}
	res := harness.Result{NonTrivial: len(p.Sample) >= 2, Sig: gen.Shape(p) + fmt.Sprint(n, idx), Sample: map[string]any{"lines": lines}}
	var buf bytes.Buffer
	if err := p.WriteUncompressed(&buf); err != nil {
		return harness.Result{Verdict: harness.Inconclusive, Detail: err.Error()}
	}
	sr, err := sess.Run(sess.Spec{Profile: buf.Bytes(), Mode: "interactive", Lines: lines, Dir: c.Tmp + "/s"}, 2*time.Minute)
	if err != nil {
		return harness.Result{Verdict: harness.Inconclusive, Detail: "session: " + err.Error()}
	}
	if len(sr.Segments) < len(lines) {
		return harness.Result{Verdict: harness.Inconclusive, Detail: fmt.Sprintf("session produced %d segments", len(sr.Segments))}
	}
	c.Stat("interactive_sessions", 1)
	cli := func(nodecount int, cum bool) (string, string) {
		b := map[string]bool{"top": true, "functions": true}
		if cum {
			b["cum"] = true
		} else {
			b["flat"] = true
		}
		out, ui, rr := drv.Report(map[string]*profile.Profile{"p": p}, []string{"p"}, b, map[string]string{"sample_index": idx}, map[string]int{"nodecount": nodecount}, map[string]float64{"nodefraction": 0}, nil)
		if rr.Panic != "" || rr.Err != nil {
			return "", fmt.Sprintf("%v %v %v", rr.Err, rr.Panic, ui.Errs)
		}
		return out, ""
	}
	body := func(s string) string { // the table from the legend on (the lines above name the source)
		if i := strings.Index(s, "Showing nodes accounting for"); i >= 0 {
			return strings.TrimSpace(s[i:])
		}
		return strings.TrimSpace(s)
	}
	text := func(seg sess.Segment) string {
		if strings.TrimSpace(seg.Stdout) != "" {
			return seg.Stdout
		}
		return strings.Join(seg.UIOut, "\n")
	}
	for k, spec := range []struct {
		n   int
		cum bool
	}{{n, false}, {n, true}, {10, false}} {
		want, e := cli(spec.n, spec.cum)
		if e != "" {
			return harness.Violation("pprof -top -nodecount=%d failed: %s", spec.n, e)
		}
		got := text(sr.Segments[2+k])
		if body(got) != body(want) {
			res.Verdict = harness.Violated
			res.Detail = fmt.Sprintf("interactive %q differs from pprof -top -nodecount=%d cum=%v\n--- interactive\n%s\n--- command line\n%s\nprofile:\n%s", lines[2+k], spec.n, spec.cum, harness.Trunc(body(got), 1500), harness.Trunc(body(want), 1500), harness.Trunc(p.String(), 2000))
			return res
		}
		c.Stat("interactive_tops_compared", 1)
	}
	return res
}

// legend self-consistency under the options that make entry values exceed the report total
// (-mean: every entry shows its own mean; -diff_base: the total covers the base only): whatever is
// trimmed, "accounting for" is the sum of the flat values shown
func runLegend(c *harness.Ctx) harness.Result {
	r := c.Rng
	var p *profile.Profile
	for {
		p = c04.GenReportProfile(r)
		if usableNames(p) {
			break
		}
	}
	profs := map[string]*profile.Profile{"p": p}
	var lists map[string][]string
	mode := []string{"mean", "diff_base", "base", "plain"}[r.Intn(4)]
	b := map[string]bool{"functions": true}
	if mode == "mean" {
		b["mean"] = true
	}
	if mode == "diff_base" || mode == "base" {
		// the base is the same profile with some samples removed and some values changed
		q := p.Copy()
		var keep []*profile.Sample
		for _, s := range q.Sample {
			if r.Intn(3) == 0 {
				continue
			}
			if r.Intn(2) == 0 {
				for i := range s.Value {
					s.Value[i] /= 2
				}
			}
			keep = append(keep, s)
		}
		q.Sample = keep
		profs["q"] = q
		lists = map[string][]string{mode: {"q"}}
	}
	idx := p.SampleType[r.Intn(len(p.SampleType))].Type
	ints := map[string]int{"nodecount": []int{-1, 0, 1, 2, 3, 5}[r.Intn(6)]}
	floats := map[string]float64{"nodefraction": []float64{0, 0, 0.005, 0.1, 0.4}[r.Intn(5)]}
	if r.Intn(2) == 0 {
		b["cum"] = true
	} else {
		b["flat"] = true
	}
	desc := fmt.Sprintf("%s sample_index=%s %v %v cum=%v", mode, idx, ints, floats, b["cum"])
	res := harness.Result{NonTrivial: len(p.Sample) >= 2, Sig: gen.Shape(p) + desc, Sample: map[string]any{"run": desc}}
	for _, format := range []string{"top", "tree"} {
		bb := map[string]bool{format: true}
		for k, v := range b {
			bb[k] = v
		}
		out, ui, rr := drv.Report(profs, []string{"p"}, bb, map[string]string{"sample_index": idx}, ints, floats, lists)
		if rr.Panic != "" {
			return harness.Violation("%s -%s: panic %s", desc, format, rr.Panic)
		}
		if rr.Err != nil {
			c.Stat("legend_errors", 1)
			_ = ui
			continue
		}
		var h parse.Header
		var flats []int64
		if format == "top" {
			hh, rows, err := parse.Top(out)
			if err != nil {
				return harness.Violation("%s -top unparseable: %v\n%s", desc, err, out)
			}
			h = hh
			for _, x := range rows {
				flats = append(flats, x.Flat)
			}
		} else {
			hh, nodes, err := parse.Tree(out)
			if err != nil {
				return harness.Violation("%s -tree unparseable: %v\n%s", desc, err, out)
			}
			h = hh
			for _, n := range nodes {
				flats = append(flats, n.Row.Flat)
			}
		}
		c.Stat("legends_checked", 1)
		var sum int64
		for _, f := range flats {
			sum += f
		}
		if h.Found && h.Accounting != sum {
			res.Verdict = harness.Violated
			res.Detail = fmt.Sprintf("%s -%s: the legend says 'accounting for %d', the %d flat values shown sum to %d\n%s", desc, format, h.Accounting, len(flats), sum, harness.Trunc(out, 2500))
			return res
		}
	}
	return res
}

// part paths: file names rewritten by trim_path / source_path are part of an entry's identity at
// the file-bearing granularities; the rows of a trimmed report must still be rows of the untrimmed
// report of the same options, and as many as the cutoffs allow (pprof is its own reference here).
func runPaths(c *harness.Ctx) harness.Result {
	r := c.Rng
	p := c04.GenReportProfile(r)
	prefixes := []string{"/home/runner/work/app/app/", "/home/runner/work/app/app/app/", "app/app/", "/src/app/", "/proc/self/cwd/app/", "/work/", ""}
	for _, f := range p.Function {
		if f.Filename != "" {
			f.Filename = prefixes[r.Intn(len(prefixes))] + strings.TrimLeft(f.Filename, "/")
		}
	}
	strs := map[string]string{"sample_index": p.SampleType[r.Intn(len(p.SampleType))].Type}
	switch r.Intn(3) {
	case 0:
		strs["source_path"] = []string{"/home/dev/src/app", "/x/app:/y/work", "/nonexistent/app/app", "/home/dev/cwd"}[r.Intn(4)]
	case 1:
		strs["trim_path"] = []string{"/home/runner", "/home/runner/work/app", "/home/runner/work/app:/src", "app"}[r.Intn(4)]
	default:
		strs["source_path"], strs["trim_path"] = "/home/dev/src/app", "/home/runner/work"
	}
	b := map[string]bool{[]string{"files", "lines", "filefunctions", "addresses", "functions"}[r.Intn(5)]: true}
	if r.Intn(2) == 0 {
		b["cum"] = true
	} else {
		b["flat"] = true
	}
	desc := fmt.Sprintf("%v %v", strs, b)
	res := harness.Result{Sig: gen.Shape(p) + desc, Sample: map[string]any{"run": desc}}
	type row struct {
		name      string
		flat, cum int64
	}
	var lastOut string
	render := func(format string, n int, f float64) ([]row, parse.Header, string) {
		bb := map[string]bool{format: true}
		for k, v := range b {
			bb[k] = v
		}
		out, _, rr := drv.Report(map[string]*profile.Profile{"p": p}, []string{"p"}, bb, strs, map[string]int{"nodecount": n}, map[string]float64{"nodefraction": f, "edgefraction": 0}, nil)
		if rr.Panic != "" {
			return nil, parse.Header{}, "panic: " + rr.Panic
		}
		if rr.Err != nil {
			return nil, parse.Header{}, "error: " + rr.Err.Error()
		}
		var rows []row
		var h parse.Header
		lastOut = out
		if format == "top" {
			hh, tr, err := parse.Top(out)
			if err != nil {
				return nil, h, "unparseable: " + err.Error() + "\n" + out
			}
			h = hh
			for _, x := range tr {
				rows = append(rows, row{x.Name, x.Flat, x.Cum})
			}
		} else {
			hh, tn, err := parse.Tree(out)
			if err != nil {
				return nil, h, "unparseable: " + err.Error() + "\n" + out
			}
			h = hh
			for _, x := range tn {
				rows = append(rows, row{x.Row.Name, x.Row.Flat, x.Row.Cum})
			}
		}
		return rows, h, ""
	}
	for _, format := range []string{"top", "tree"} {
		full, h, e := render(format, 0, 0)
		if e != "" {
			if strings.HasPrefix(e, "panic") {
				return harness.Violation("%s -%s untrimmed: %s", desc, format, e)
			}
			c.Stat("paths.errors", 1)
			return res
		}
		if len(full) >= 2 {
			res.NonTrivial = true
		}
		var sumFlat int64
		for _, x := range full {
			sumFlat += x.flat
		}
		_ = h
		for k := 0; k < 3; k++ {
			n := []int{0, 1, 2, 3, len(full) - 1}[r.Intn(5)]
			if n < 0 {
				n = 0
			}
			f := []float64{0, 0, 0.01, 0.1, 0.3}[r.Intn(5)]
			if len(full) > 0 && sumFlat != 0 && r.Intn(2) == 0 {
				f = (float64(abs(full[r.Intn(len(full))].cum)) + 0.5) / float64(abs(sumFlat))
			}
			cut := abs(int64(float64(sumFlat) * f))
			elig := 0
			avail := map[row]int{}
			for _, x := range full {
				avail[x]++
				if abs(x.cum) >= cut {
					elig++
				}
			}
			want := elig
			if n > 0 && n < want {
				want = n
			}
			got, _, e := render(format, n, f)
			if e != "" {
				return harness.Violation("%s -%s nodecount=%d nodefraction=%v: %s (the untrimmed report worked)", desc, format, n, f, e)
			}
			c.Stat("paths.trim_points", 1)
			for _, x := range got {
				if avail[x] == 0 {
					res.Verdict = harness.Violated
					res.Detail = fmt.Sprintf("%s -%s nodecount=%d nodefraction=%v shows the row %q flat=%d cum=%d, which is not a (remaining) row of the untrimmed report of the same options\nuntrimmed rows: %v\ntrimmed rows: %v", desc, format, n, f, x.name, x.flat, x.cum, full, got)
					return res
				}
				avail[x]--
			}
			if len(got) != want {
				res.Verdict = harness.Violated
				res.Detail = fmt.Sprintf("%s -%s nodecount=%d nodefraction=%v shows %d rows; %d untrimmed rows reach the cutoff %d, so %d expected\nuntrimmed rows: %v\ntrimmed rows: %v\n%s", desc, format, n, f, len(got), elig, cut, want, full, got, harness.Trunc(lastOut, 1500))
				return res
			}
		}
	}
	return res
}

// part bigtext: text reports of 520-700 entries (more than any built-in row limit of the views):
// with nodecount 0 every entry is shown, with nodecount N exactly N, and the legend accounts for
// the rows that are shown.
func runBigText(c *harness.Ctx) harness.Result {
	r := c.Rng
	n := 520 + r.Intn(181)
	p := &profile.Profile{SampleType: []*profile.ValueType{{Type: "samples", Unit: "count"}}, PeriodType: &profile.ValueType{Type: "cpu", Unit: "ns"}, Period: 1}
	root := &profile.Function{ID: 1, Name: "main", SystemName: "main", Filename: "m.go"}
	rootLoc := &profile.Location{ID: 1, Address: 0x1000, Line: []profile.Line{{Function: root, Line: 1}}}
	p.Function, p.Location = []*profile.Function{root}, []*profile.Location{rootLoc}
	var sumFlat int64
	for i := 0; i < n-1; i++ {
		f := &profile.Function{ID: uint64(i + 2), Name: fmt.Sprintf("fn%04d", i), SystemName: fmt.Sprintf("fn%04d", i), Filename: "x.go"}
		l := &profile.Location{ID: uint64(i + 2), Address: 0x2000 + uint64(i)*16, Line: []profile.Line{{Function: f, Line: 1}}}
		p.Function, p.Location = append(p.Function, f), append(p.Location, l)
		v := int64(1000 + i)
		sumFlat += v
		p.Sample = append(p.Sample, &profile.Sample{Value: []int64{v}, Location: []*profile.Location{l, rootLoc}})
	}
	res := harness.Result{NonTrivial: true, Sig: fmt.Sprint("bigtext", n), Sample: map[string]any{"entries": n}}
	for _, nc := range []int{0, n - 10, 501, 80} {
		want := n
		if nc > 0 && nc < n {
			want = nc
		}
		out, ui, rr := drv.Report(map[string]*profile.Profile{"p": p}, []string{"p"}, map[string]bool{"top": true, "flat": true}, nil, map[string]int{"nodecount": nc}, map[string]float64{"nodefraction": 0, "edgefraction": 0}, nil)
		if rr.Panic != "" || rr.Err != nil {
			return harness.Violation("-top -nodecount=%d over %d entries failed: %v %s %v", nc, n, rr.Err, rr.Panic, ui.Errs)
		}
		h, rows, err := parse.Top(out)
		if err != nil {
			return harness.Violation("-top unparseable: %v", err)
		}
		c.Stat("bigtext_reports", 1)
		var sum int64
		for _, x := range rows {
			sum += x.Flat
		}
		if len(rows) != want || h.Accounting != sum {
			res.Verdict = harness.Violated
			res.Detail = fmt.Sprintf("-top -nodecount=%d over %d entries (none below a cutoff): %d rows shown, %d expected; the legend accounts for %d, the rows shown sum to %d\n%s", nc, n, len(rows), want, h.Accounting, sum, harness.Trunc(out, 600))
			return res
		}
	}
	return res
}

func init() {
	harness.Register(&harness.Check{
		ID:    "C05",
		Level: "exploration",
		Rule: "report-class profiles (as C04) x granularity x noinlines x sample_index x 4 trim points: nodecount in {0,1,2,3,5,n-1,n,n+1}, nodefraction placed just below/at/above an actual |cum|/sum(flat) ratio (or 0, .005, .3, 1, 2), edgefraction around an actual edge ratio, flat/cum sort; rendered as -top, -tree, -dot and -dot -call_tree through the real driver; part legend: -top and -tree under -mean, -base and -diff_base (where entry values can exceed the report total) with random nodecount/nodefraction: 'accounting for' must equal the sum of the flat values shown. part paths: file names given prefixes that trim_path / source_path rewrite (including a directory name repeated in a row), file-bearing granularities, -top and -tree at 3 trim points: every trimmed row is a row of pprof's own untrimmed report of the same options and exactly min(N, #{|cum|>=cutoff}) rows are shown; text reports are also run with call_tree set, which must change nothing. part interactive: 'top N', 'top N -cum' and 'top' typed into a fresh interactive session must print the table pprof -top -nodecount=N prints (10 for the bare command). " +
			"oracle: shown entries carry their untrimmed flat/cum; text reports show exactly min(N, #{|cum|>=cutoff}) entries, none below the cutoff, no hidden eligible entry outranking a shown one, rows ordered by the sort magnitude; legends (accounting for, Dropped K nodes, top N of M) match; every edge joins shown entries; solid edges carry the untrimmed direct adjacency weight, dotted edges the adjacency over the shown entries with at least one bypassing sample; -tree completeness at the edge cutoff; call trees: <=1 parent, edge weight = child's cum, every node matches a distinct untrimmed tree node. part bigtext: profiles of 520-700 functions, none below a cutoff; -top with nodecount 0, n-10, 501 and 80: exactly min(nodecount, n) rows are printed (all n for 0) and the legend accounts for the sum of the rows shown. non-trivial = at least 2 untrimmed entries; distinct = profile shape",
		Assumptions:   []string{"node cutoff = |trunc(sum of untrimmed flat x nodefraction)|, edge cutoff likewise (documented rule)", "cases in which two untrimmed entries share a printable name are skipped (entries are identified by name in the output)", "graphical reports pick survivors heuristically: only invariance, cutoff and nodecount bound are checked for -dot"},
		Parts:         []harness.Part{{Name: "trim", Quick: 8000, Thor: 200000, Run: runCase}, {Name: "interactive", Quick: 150, Thor: 4000, Run: runInteractive}, {Name: "legend", Quick: 1500, Thor: 60000, Run: runLegend}, {Name: "paths", Quick: 1200, Thor: 40000, Run: runPaths}, {Name: "bigtext", Quick: 12, Thor: 300, Run: runBigText}},
		MinNonTrivial: func(string) int { return 300 },
		Finish: func(tier string, st map[string]int64) string {
			if st["residual_edges_seen"] == 0 {
				return "no residual edge was ever observed"
			}
			return ""
		},
	})
}

var _ = rand.Int
