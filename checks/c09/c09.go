// Package c09 monitors robustness: no structurally valid profile, option value, interactive line
// or URL query crashes pprof; sessions stay usable after hostile input.
package c09

import (
	"bytes"
	"fmt"
	"github.com/google/pprof/internal/symbolizer"
	"io"
	"math"
	"math/rand"
	"net/http"
	"net/url"
	"os"
	"os/exec"
	"path/filepath"
	"strings"
	"time"

	"github.com/google/pprof/internal/binutils"
	"github.com/google/pprof/profile"
	"github.com/google/pprof/verif/internal/drv"
	"github.com/google/pprof/verif/internal/harness"
	"github.com/google/pprof/verif/internal/mon"
	"github.com/google/pprof/verif/internal/sess"
)

var oddStrings = []string{"", "a", "cpu/wall", "../up", "/proc/self/cwd", "/proc/self/cwd/.", "/", ".", strings.Repeat("L", 3000), "\xff\xfe", `q"r\`, "new\nline", "<b>&amp;", "(", "[", "*", "a.b(c)", "ünï", "%s%d", "\x00", " ", "::", "f\tg", "{{.}}", "</script>", "ns::Ptr::operator->", "ns::Less::operator>", "x<int>::at) const", "a::b(c))", "v<<w>"}

// OddProfile generates a structurally valid profile with odd content.
func OddProfile(r *rand.Rand) *profile.Profile {
	os := func() string { return oddStrings[r.Intn(len(oddStrings))] }
	p := &profile.Profile{DropFrames: []string{"", "", "(", "a.*", "[", ".*"}[r.Intn(6)], KeepFrames: []string{"", "(", "b"}[r.Intn(3)], TimeNanos: []int64{0, 1, math.MaxInt64, math.MinInt64}[r.Intn(4)], DurationNanos: []int64{0, -5, math.MaxInt64}[r.Intn(3)], Period: []int64{0, 1, -1, math.MaxInt64}[r.Intn(4)], DefaultSampleType: []string{"", "nosuch", "t0"}[r.Intn(3)], DocURL: []string{"", "javascript:alert(1)", "http://x/<y>"}[r.Intn(3)]}
	if r.Intn(4) > 0 {
		p.PeriodType = &profile.ValueType{Type: os(), Unit: os()}
	}
	for i, n := 0, r.Intn(3); i < n; i++ {
		p.Comments = append(p.Comments, os())
	}
	nst := []int{1, 1, 2, 3, 12}[r.Intn(5)]
	units := []string{"count", "", "bytes", "ms", "frobs", "KB", "hours", "µs", "GCU", oddStrings[r.Intn(len(oddStrings))]}
	for i := 0; i < nst; i++ {
		p.SampleType = append(p.SampleType, &profile.ValueType{Type: fmt.Sprintf("t%d", i), Unit: units[r.Intn(len(units))]})
	}
	if r.Intn(6) == 0 {
		p.SampleType[0].Type = os()
	}
	hugeIDs := r.Intn(5) == 0
	id := func(i int) uint64 {
		if hugeIDs {
			return math.MaxUint64 - uint64(i)
		}
		return uint64(i + 1)
	}
	nm := r.Intn(4)
	for i := 0; i < nm; i++ {
		m := &profile.Mapping{ID: id(i), File: []string{"", "/bin/x", "[vdso]", "http://h/p", "//anon", oddStrings[r.Intn(len(oddStrings))]}[r.Intn(6)], BuildID: []string{"", "a", "ab", "abc", "0123456789abcdef", oddStrings[r.Intn(len(oddStrings))]}[r.Intn(6)]}
		switch r.Intn(5) {
		case 0: // inverted
			m.Start, m.Limit = 0x2000, 0x1000
		case 1: // zero
		case 2: // whole address space
			m.Start, m.Limit = 0, math.MaxUint64
		case 3: // overlapping
			m.Start, m.Limit = 0x1000, 0x5000
		default:
			m.Start, m.Limit, m.Offset = uint64(0x1000*(i+1)), uint64(0x1000*(i+2)), uint64(r.Intn(3))*0x800
		}
		m.HasFunctions = r.Intn(2) == 0
		p.Mapping = append(p.Mapping, m)
	}
	nf := r.Intn(5)
	for i := 0; i < nf; i++ {
		p.Function = append(p.Function, &profile.Function{ID: id(i), Name: os(), SystemName: os(), Filename: os(), StartLine: []int64{0, 1, -1, math.MaxInt64, 10}[r.Intn(5)]})
	}
	nl := r.Intn(6)
	for i := 0; i < nl; i++ {
		l := &profile.Location{ID: id(i), Address: []uint64{0, 1, 0x1000, 0x1fff, math.MaxUint64, 1 << 63}[r.Intn(6)], IsFolded: r.Intn(4) == 0}
		if nm > 0 && r.Intn(3) > 0 {
			l.Mapping = p.Mapping[r.Intn(nm)]
		}
		if nf > 0 {
			for j, k := 0, r.Intn(4); j < k; j++ {
				l.Line = append(l.Line, profile.Line{Function: p.Function[r.Intn(nf)], Line: []int64{0, 1, -7, math.MaxInt64, math.MinInt64, 1 << 40, 1 << 33, 100000}[r.Intn(8)], Column: []int64{0, 3, -1}[r.Intn(3)]})
			}
		}
		p.Location = append(p.Location, l)
	}
	ns := []int{0, 1, 3, 6}[r.Intn(4)]
	for i := 0; i < ns; i++ {
		s := &profile.Sample{}
		for j := 0; j < nst; j++ {
			s.Value = append(s.Value, []int64{0, 1, -1, 7, math.MaxInt64, math.MinInt64, 1 << 40}[r.Intn(7)])
		}
		if nl > 0 {
			for j, d := 0, r.Intn(6); j < d; j++ {
				s.Location = append(s.Location, p.Location[r.Intn(nl)])
			}
		}
		if r.Intn(2) == 0 {
			s.Label = map[string][]string{os(): {os(), os()}, "k": {os()}}
		}
		if r.Intn(2) == 0 {
			s.NumLabel = map[string][]int64{"bytes": {[]int64{0, 1, math.MinInt64, math.MaxInt64}[r.Intn(4)]}, os(): {5, -5}}
			if r.Intn(2) == 0 {
				s.NumUnit = map[string][]string{"bytes": {units[r.Intn(len(units))]}}
			}
			if r.Intn(3) == 0 {
				// multi-valued with partial units: a value with a unit followed by values without
				s.NumLabel["request"] = []int64{4, 16, 0, 9}[:2+r.Intn(3)]
				s.NumUnit = map[string][]string{"request": [][]string{{"kilobytes", "", "", ""}, {"", "bytes", "", ""}, {"kb", "kb", "", "b"}}[r.Intn(3)][:len(s.NumLabel["request"])]}
			}
		}
		p.Sample = append(p.Sample, s)
	}
	return p
}

var boolFields = []string{"call_tree", "relative_percentages", "compact_labels", "intel_syntax", "mean", "normalize", "drop_negative", "trim", "noinlines", "showcolumns"}
var strFields = []string{"buildid", "unit", "source_path", "trim_path", "sample_index", "tagroot", "tagleaf", "focus", "ignore", "prune_from", "hide", "show", "show_from", "tagfocus", "tagignore", "tagshow", "taghide"}
var numFields = []string{"nodecount", "nodefraction", "edgefraction", "divide_by"}
var hostileVals = []string{strings.Repeat("主函数", 10), "main|" + strings.Repeat("é", 42), strings.Repeat("😀", 24), strings.Repeat("a", 79), strings.Repeat("a", 81), strings.Repeat("ü", 40) + "x", "", "(", "[", "1e400", "NaN", "-1", "0", "99999999999999999999", "ünï", "frobs", "a,b", "k=1kb:2kb", "1:2", ":", "x99999999999999999999", "-5mb:", "t0", "9", ".*", "\\", "a|", "k=", "=", "1kb:1gb", "+5", "5x:6y", "\x00"}
var formats = []string{"comments", "disasm", "dot", "list", "peek", "raw", "tags", "text", "top", "traces", "tree", "callgrind", "proto", "topproto", "svg", "png", "gif", "pdf", "ps"}

func runCLI(c *harness.Ctx) harness.Result {
	r := c.Rng
	drv.IsolateEnv(c.Tmp)
	p := OddProfile(r)
	if err := mon.Valid(p); err != nil {
		return harness.Result{Verdict: harness.Inconclusive, Detail: "generator: " + err.Error()}
	}
	res := harness.Result{NonTrivial: true, Sig: fmt.Sprintf("cli st%d s%d l%d f%d m%d %d", len(p.SampleType), len(p.Sample), len(p.Location), len(p.Function), len(p.Mapping), c.Index)}
	var tried []string
	for k := 0; k < 10; k++ {
		f := formats[r.Intn(len(formats))]
		b := map[string]bool{f: true}
		s := map[string]string{}
		ints := map[string]int{}
		floats := map[string]float64{}
		switch f {
		case "disasm", "list", "peek":
			delete(b, f)
			s[f] = hostileVals[r.Intn(len(hostileVals))]
			if s[f] == "" {
				s[f] = "."
			}
		}
		for i, n := 0, r.Intn(4); i < n; i++ {
			switch r.Intn(4) {
			case 0:
				b[boolFields[r.Intn(len(boolFields))]] = r.Intn(2) == 0
			case 1:
				s[strFields[r.Intn(len(strFields))]] = hostileVals[r.Intn(len(hostileVals))]
			case 2:
				ints["nodecount"] = []int{-1, 0, 1, math.MaxInt32, math.MinInt32, 3}[r.Intn(6)]
			case 3:
				floats[numFields[1+r.Intn(3)]] = []float64{0, -1, 1, math.Inf(1), math.NaN(), 1e308, 1e-300, 0.5}[r.Intn(8)]
			}
		}
		b[[]string{"functions", "filefunctions", "files", "lines", "addresses"}[r.Intn(5)]] = true
		s["symbolize"] = []string{"none", "", "local", "fastlocal", "remote", "force", "demangle=full", "bogus:local", "local:demangle=none", "demangle=default", "local:demangle=default", "fastlocal:Demangle=Templates", "remote:demangle=default:force", "demangle=", "none:demangle=default"}[r.Intn(15)]
		srcs := []string{"p"}
		lists := map[string][]string{}
		if r.Intn(5) == 0 {
			srcs = append(srcs, "p")
		}
		if r.Intn(6) == 0 {
			lists[[]string{"base", "diff_base"}[r.Intn(2)]] = []string{"p"}
		}
		// a second, different profile among the sources / as base: fewer columns, or the same
		// sample type name listed twice by one of the two
		profs := map[string]*profile.Profile{"p": p}
		if r.Intn(4) == 0 && len(p.SampleType) >= 2 {
			q := p.Copy()
			k := 1 + r.Intn(len(q.SampleType)-1)
			q.SampleType = q.SampleType[:k]
			for _, sm := range q.Sample {
				sm.Value = append([]int64(nil), sm.Value[:k]...)
			}
			first := p
			if r.Intn(2) == 0 {
				first = p.Copy()
				first.SampleType[1].Type = first.SampleType[0].Type
				first.SampleType[1].Unit = first.SampleType[0].Unit
			}
			profs["p"], profs["q"] = first, q
			switch r.Intn(3) {
			case 0:
				srcs = []string{"p", "q"}
			case 1:
				srcs = []string{"q", "p"}
			default:
				lists[[]string{"base", "diff_base"}[r.Intn(2)]] = []string{"q"}
			}
			c.Stat("cli_mixed_sources", 1)
		}
		if len(profs) == 1 && r.Intn(40) == 0 {
			// more sources than pprof fetches in one batch, the last few of them unreadable
			srcs = nil
			for len(srcs) < 128 {
				srcs = append(srcs, "p")
			}
			for k, n := 0, 1+r.Intn(3); k < n; k++ {
				srcs = append(srcs, "missing")
			}
			c.Stat("cli_many_sources_failing_tail", 1)
		}
		desc := fmt.Sprintf("%s %v %v %v %v srcs=%v %v", f, b, s, ints, floats, harness.Trunc(fmt.Sprint(srcs), 80), lists)
		tried = append(tried, harness.Trunc(desc, 200))
		c.Stat("cli_invocations", 1)
		st := map[string]string{"output": "out"}
		for k, v := range s {
			st[k] = v
		}
		var obj interface{} = nil
		sesn := &drv.Session{Flags: &drv.Flags{Bools: b, Strs: st, Ints: ints, Floats: floats, Lists: lists, Args: srcs}, Fetch: &drv.MapFetcher{Profiles: profs}}
		if len(profs) == 1 && r.Intn(4) == 0 {
			// the same profile fetched over HTTP by pprof's own fetcher (which also saves a local
			// copy named after the profile's binary and sample types)
			var buf bytes.Buffer
			if err := p.Write(&buf); err == nil {
				for i := range srcs {
					srcs[i] = "http://host.test/pprof/profile"
				}
				for k, v := range lists {
					for i := range v {
						lists[k][i] = "http://host.test/pprof/profile"
					}
				}
				sesn.Flags.Args = srcs
				sesn.Fetch = nil
				sesn.RoundTr = staticTransport(buf.Bytes())
				c.Stat("cli_remote_fetches", 1)
			}
		}
		if r.Intn(4) == 0 {
			sesn.Obj = &binutils.Binutils{}
			// ... and pprof's own symbolizer behind it (its -symbolize option parser, demangler and
			// symbol-service client; the service is unreachable)
			sesn.UI = &drv.UI{}
			sesn.Sym = &symbolizer.Symbolizer{Obj: sesn.Obj, UI: sesn.UI, Transport: noNetwork{}}
			c.Stat("cli_with_real_symbolizer", 1)
			if exe := filepath.Join(os.Getenv("VERIF_BIN"), "pprof"); r.Intn(3) == 0 && !strings.HasPrefix(srcs[0], "http") {
				if _, err := os.Stat(exe); err == nil {
					// "pprof <binary> <profile>": an executable named before the profile
					sesn.Flags.Args = append([]string{exe}, sesn.Flags.Args...)
					c.Stat("cli_with_executable", 1)
				}
			}
		}
		_ = obj
		rr := sesn.Run()
		if rr.Panic != "" {
			res.Verdict = harness.Violated
			res.Detail = fmt.Sprintf("pprof panicked: %s\ninvocation: %s\nprofile:\n%s", harness.Trunc(rr.Panic, 2500), desc, harness.Trunc(p.String(), 2500))
			res.Sample = tried
			return res
		}
		// an expression that is no regular expression at all is an error for every option that takes
		// one, whatever the report: pprof must say so rather than go on without the filter
		badRx := ""
		for _, k := range []string{"focus", "ignore", "prune_from", "hide", "show", "show_from", "tagshow", "taghide"} {
			if v, ok := s[k]; ok && (v == "(" || v == "[") {
				badRx = k + "=" + v
			}
		}
		if badRx != "" && rr.Err == nil {
			res.Verdict = harness.Violated
			res.Detail = fmt.Sprintf("pprof produced a report although %s is not a regular expression (no error reported)\ninvocation: %s", badRx, desc)
			return res
		}
		if rr.Err != nil {
			c.Stat("cli_errors_reported", 1)
		} else if sesn.Writer.Files["out"] == nil {
			res.Verdict = harness.Violated
			res.Detail = fmt.Sprintf("pprof neither produced output nor reported an error\ninvocation: %s", desc)
			return res
		} else {
			c.Stat("cli_outputs", 1)
		}
	}
	res.Sample = map[string]any{"profile": harness.Trunc(p.String(), 300), "invocations": tried[:3]}
	return res
}

type staticTransport []byte

func (t staticTransport) RoundTrip(req *http.Request) (*http.Response, error) {
	return &http.Response{StatusCode: 200, Status: "200 OK", Header: http.Header{}, Body: io.NopCloser(bytes.NewReader(t)), Request: req}, nil
}

var commands = []string{"top", "top10", "top 3 -cum", "text", "tree", "peek .", "peek", "list .", "list", "disasm .", "traces", "tags", "tags k", "raw", "comments", "dot", "callgrind", "proto", "topproto", "svg", "web", "weblist .", "kcachegrind", "gv", "png >out.png", "top >", "top > f.txt", "top 5 foo -bar", "top -", "top10 -", "o", "options", "help", "help top", "help x", "help nodecount", ":", "", " ", "//comment", "top //:c", "q x"}
var definitelyRejected = []string{"nosuchcommand", "nodecount=abc", "sample_index=99", "sample_index=nosuch", "nodefraction=x", "granularity=bogus", "sort=sideways", "trim=maybe", "top 5 (", "peek (", "top [", "unit", "focus", "divide_by=zero"}

func randLine(r *rand.Rand) string {
	switch r.Intn(6) {
	case 0, 1:
		return commands[r.Intn(len(commands))]
	case 2:
		return strFields[r.Intn(len(strFields))] + "=" + hostileVals[r.Intn(len(hostileVals))]
	case 3:
		return numFields[r.Intn(len(numFields))] + "=" + hostileVals[r.Intn(len(hostileVals))]
	case 4:
		return boolFields[r.Intn(len(boolFields))] + []string{"", "=true", "=0", "=maybe", "=", "=t"}[r.Intn(6)]
	default:
		return []string{"functions", "lines", "files", "addresses", "cum", "flat", "granularity=lines", "sort=cum", strings.Repeat("x", 5000), "top " + strings.Repeat("a ", 500), "\x00", "=", "==", "a=b=c", "top\t5", "TOP", "nodecount=5 //:comment"}[r.Intn(17)]
	}
}

func runInteractive(c *harness.Ctx) harness.Result {
	r := c.Rng
	p := OddProfile(r)
	for len(p.Sample) == 0 && r.Intn(3) > 0 {
		p = OddProfile(r)
	}
	var buf bytes.Buffer
	p.WriteUncompressed(&buf)
	var lines []string
	type probe struct{ before, after int }
	var probes []probe
	const probeCmd = "top 4"
	for i, n := 0, 4+r.Intn(10); i < n; i++ {
		if r.Intn(4) == 0 {
			// a line that is certainly rejected must not change anything: probe before and after
			lines = append(lines, probeCmd)
			b := len(lines) - 1
			lines = append(lines, definitelyRejected[r.Intn(len(definitelyRejected))], probeCmd)
			probes = append(probes, probe{b, len(lines) - 1})
			continue
		}
		lines = append(lines, randLine(r))
	}
	// never quit early
	for i, l := range lines {
		f := strings.Fields(l)
		if len(f) > 0 && (f[0] == "q" || f[0] == "quit" || f[0] == "exit") {
			lines[i] = "top"
		}
	}
	res := harness.Result{NonTrivial: true, Sig: fmt.Sprintf("inter %d %d", len(lines), c.Index), Sample: map[string]any{"lines": truncAll(lines, 60)}}
	// a third of the sessions were started with odd values given on the command line, which pprof
	// only looks at when a command needs them; "o" lists the options then
	flags := map[string]string{}
	if r.Intn(3) == 0 {
		flags[[]string{"sample_index", "sample_index", "nodecount", "unit", "focus", "tagfocus", "granularity"}[r.Intn(7)]] = []string{"7", "-1", "2", "99999999999", "nosuch", "(", ""}[r.Intn(7)]
		lines = append(lines, []string{"o", "options", "top", "o"}[r.Intn(4)])
	}
	out, err, hang := runSession(sess.Spec{Profile: buf.Bytes(), Mode: "interactive", Lines: lines, Dir: c.Tmp, Strs: flags})
	c.Stat("interactive_sessions", 1)
	c.Stat("interactive_lines", int64(len(lines)))
	if err != nil {
		if hang {
			res.Verdict, res.Detail = harness.Violated, fmt.Sprintf("interactive session hangs (3 of 3 runs exceeded the %v watchdog)\nlines: %q\n%s\nprofile:\n%s", sessTimeout(), truncAll(lines, 120), harness.Trunc(err.Error(), 6000), harness.Trunc(p.String(), 2000))
			return res
		}
		if strings.HasPrefix(err.Error(), "TIMEOUT") {
			return harness.Result{Verdict: harness.Inconclusive, Detail: "session watchdog (not reproducible 3/3): " + harness.Trunc(err.Error(), 3000) + "\nlines: " + fmt.Sprint(truncAll(lines, 80))}
		}
		res.Verdict, res.Detail = harness.Violated, fmt.Sprintf("interactive session process died: %v\nlines: %q", err, truncAll(lines, 200))
		return res
	}
	if out.Panic != "" {
		res.Verdict, res.Detail = harness.Violated, fmt.Sprintf("interactive session panicked: %s\nlines: %q\nprofile:\n%s", harness.Trunc(out.Panic, 2500), truncAll(lines, 200), harness.Trunc(p.String(), 2000))
		return res
	}
	if out.Err != "" && out.Reads == 0 {
		// the profile could not even be loaded: an error report is an acceptable outcome
		c.Stat("interactive_load_errors", 1)
		return res
	}
	if out.Reads != len(lines)+1 {
		res.Verdict, res.Detail = harness.Violated, fmt.Sprintf("interactive loop stopped early: %d of %d lines read (err=%q)\nlines: %q", out.Reads, len(lines), out.Err, truncAll(lines, 200))
		return res
	}
	// every non-empty command line produced output or an error message
	for _, pr := range probes {
		if pr.after >= len(out.Segments) {
			continue
		}
		a, b := out.Segments[pr.before], out.Segments[pr.after]
		c.Stat("probes", 1)
		if a.Stdout != b.Stdout || fmt.Sprint(a.UIErr) != fmt.Sprint(b.UIErr) {
			res.Verdict = harness.Violated
			res.Detail = fmt.Sprintf("the rejected line %q changed the session: probe %q before:\n%s\nafter:\n%s\nui errors of the line: %v", lines[pr.before+1], probeCmd, harness.Trunc(a.Stdout, 800), harness.Trunc(b.Stdout, 800), out.Segments[pr.before+1].UIErr)
			return res
		}
		if rej := out.Segments[pr.before+1]; len(rej.UIErr) == 0 && rej.Stdout == "" && len(rej.UIOut) == 0 {
			res.Verdict, res.Detail = harness.Violated, fmt.Sprintf("the invalid line %q was silently ignored (no output, no error)", lines[pr.before+1])
			return res
		}
	}
	return res
}

func sessTimeout() time.Duration {
	if v := os.Getenv("VERIF_SESS_TIMEOUT"); v != "" {
		if d, err := time.ParseDuration(v); err == nil {
			return d
		}
	}
	return 30 * time.Second
}

// runSession applies the hang rule: a session that does not finish within the watchdog (>= 1000x
// the median session time of ~20 ms) is re-run twice; three timeouts in a row are reported as a
// hang, anything less is inconclusive.
func runSession(spec sess.Spec) (*sess.Result, error, bool) {
	var out *sess.Result
	var err error
	for try := 0; try < 3; try++ {
		out, err = sess.Run(spec, sessTimeout())
		if err == nil || !strings.HasPrefix(err.Error(), "TIMEOUT") {
			return out, err, false
		}
		os.RemoveAll(filepath.Join(spec.Dir, "seg"))
	}
	return out, err, true
}

func truncAll(ls []string, n int) []string {
	var out []string
	for _, l := range ls {
		out = append(out, harness.Trunc(l, n))
	}
	return out
}

var endpoints = []string{"/", "/top", "/disasm", "/source", "/peek", "/flamegraph", "/flamegraph2", "/saveconfig", "/deleteconfig", "/download", "/nosuch"}
var urlKeys = []string{"f", "g", "si", "sort", "n", "nodefraction", "edgefraction", "trim", "focus", "i", "h", "s", "sf", "tf", "ti", "ts", "th", "tagroot", "tagleaf", "calltree", "mean", "rel", "noinlines", "showcolumns", "config", "p", "prunefrom", "dropneg", "unit", "compact", "unknownkey", "normalize", "divide_by", "output"}

func randQuery(r *rand.Rand) string {
	var parts []string
	for i, n := 0, r.Intn(5); i < n; i++ {
		k := urlKeys[r.Intn(len(urlKeys))]
		v := hostileVals[r.Intn(len(hostileVals))]
		switch r.Intn(6) {
		case 0:
			parts = append(parts, k) // no value
		case 1:
			parts = append(parts, k+"="+v+"&"+k+"="+url.QueryEscape(hostileVals[r.Intn(len(hostileVals))])) // repeat
		case 2:
			parts = append(parts, k+"=%zz") // bad escape
		default:
			parts = append(parts, k+"="+url.QueryEscape(v))
		}
	}
	if len(parts) == 0 {
		return ""
	}
	return "?" + strings.Join(parts, "&")
}

func runWeb(c *harness.Ctx) harness.Result {
	r := c.Rng
	p := OddProfile(r)
	for len(p.Sample) == 0 && r.Intn(3) > 0 {
		p = OddProfile(r)
	}
	var buf bytes.Buffer
	p.WriteUncompressed(&buf)
	const probeURL = "/top?n=3"
	reqs := []string{probeURL}
	for i, n := 0, 6+r.Intn(10); i < n; i++ {
		reqs = append(reqs, endpoints[r.Intn(len(endpoints))]+randQuery(r))
		if r.Intn(3) == 0 {
			reqs = append(reqs, probeURL)
		}
	}
	reqs = append(reqs, probeURL)
	res := harness.Result{NonTrivial: true, Sig: fmt.Sprintf("web %d %d", len(reqs), c.Index), Sample: map[string]any{"requests": truncAll(reqs, 80)}}
	out, err, hang := runSession(sess.Spec{Profile: buf.Bytes(), Mode: "web", Requests: reqs, Dir: c.Tmp})
	c.Stat("web_sessions", 1)
	c.Stat("web_requests", int64(len(reqs)))
	if err != nil {
		if hang {
			res.Verdict, res.Detail = harness.Violated, fmt.Sprintf("web session hangs (3 of 3 runs exceeded the %v watchdog)\nrequests: %q\n%s\nprofile:\n%s", sessTimeout(), truncAll(reqs, 120), harness.Trunc(err.Error(), 6000), harness.Trunc(p.String(), 2000))
			return res
		}
		if strings.HasPrefix(err.Error(), "TIMEOUT") {
			return harness.Result{Verdict: harness.Inconclusive, Detail: "session watchdog (not reproducible 3/3): " + harness.Trunc(err.Error(), 3000)}
		}
		res.Verdict, res.Detail = harness.Violated, fmt.Sprintf("web session process died: %v\nrequests: %q", err, reqs)
		return res
	}
	if out.Err != "" {
		c.Stat("web_start_errors", 1)
		return res // the profile could not be loaded / served: reported as an error
	}
	var firstProbe string
	menuChanged := false // a successful /saveconfig or /deleteconfig legitimately changes the Config menu of every page
	for i, s := range out.Segments {
		if (strings.HasPrefix(s.Input, "/saveconfig") || strings.HasPrefix(s.Input, "/deleteconfig")) && s.Code < 300 {
			menuChanged = true
		}
		if s.Panic != "" {
			res.Verdict, res.Detail = harness.Violated, fmt.Sprintf("handler panicked on GET %s: %s\nprofile:\n%s", s.Input, harness.Trunc(s.Panic, 2500), harness.Trunc(p.String(), 2000))
			return res
		}
		if s.Code == 0 || (s.Code >= 400 && strings.TrimSpace(s.Body) == "") {
			res.Verdict, res.Detail = harness.Violated, fmt.Sprintf("GET %s -> status %d with empty body (neither output nor an error report)", s.Input, s.Code)
			return res
		}
		c.Stat(fmt.Sprintf("web_status_%dxx", s.Code/100), 1)
		if s.Input == probeURL {
			if i == 0 {
				firstProbe = s.Body
			} else if s.Body != firstProbe && !menuChanged {
				res.Verdict, res.Detail = harness.Violated, fmt.Sprintf("after request %q the probe GET %s no longer answers as in the pristine session", out.Segments[i-1].Input, probeURL)
				return res
			}
		}
	}
	return res
}

// sampled subset against the real executable
func runExe(c *harness.Ctx) harness.Result {
	r := c.Rng
	bin := filepath.Join(os.Getenv("VERIF_BIN"), "pprof")
	if _, err := os.Stat(bin); err != nil {
		return harness.Result{Verdict: harness.Inconclusive, Detail: "bin/pprof not built: " + err.Error()}
	}
	p := OddProfile(r)
	path := filepath.Join(c.Tmp, "p.pb.gz")
	f, _ := os.Create(path)
	p.Write(f)
	f.Close()
	res := harness.Result{NonTrivial: true, Sig: fmt.Sprintf("exe %d", c.Index)}
	for k := 0; k < 4; k++ {
		args := []string{"-" + formats[r.Intn(14)]}
		if a := args[0]; a == "-disasm" || a == "-list" || a == "-peek" {
			args[0] = a + "=" + hostileVals[1+r.Intn(len(hostileVals)-1)]
		}
		for i, n := 0, r.Intn(3); i < n; i++ {
			args = append(args, "-"+strFields[r.Intn(len(strFields))]+"="+hostileVals[r.Intn(len(hostileVals))])
		}
		args = append(args, "-symbolize=none", path)
		for i, a := range args {
			args[i] = strings.ReplaceAll(a, "\x00", "")
		}
		cmd := exec.Command(bin, args...)
		cmd.Env = []string{"HOME=" + c.Tmp, "XDG_CONFIG_HOME=" + c.Tmp + "/config", "PPROF_TMPDIR=" + c.Tmp + "/tmp", "TZ=UTC", "PATH=/usr/bin:/bin"}
		cmd.Dir = c.Tmp
		var so, se bytes.Buffer
		cmd.Stdout, cmd.Stderr = &so, &se
		cmd.Stdin = strings.NewReader("")
		done := make(chan error, 1)
		if err := cmd.Start(); err != nil {
			return harness.Result{Verdict: harness.Inconclusive, Detail: err.Error()}
		}
		go func() { done <- cmd.Wait() }()
		select {
		case <-done:
		case <-time.After(60 * time.Second):
			cmd.Process.Kill()
			return harness.Result{Verdict: harness.Inconclusive, Detail: fmt.Sprintf("watchdog: pprof %q did not finish in 60s", args)}
		}
		c.Stat("exe_runs", 1)
		code := cmd.ProcessState.ExitCode()
		errs := se.String()
		if strings.Contains(errs, "panic:") || strings.Contains(errs, "fatal error:") || strings.Contains(errs, "goroutine 1 [running]") || (code != 0 && code != 1 && code != 2) {
			res.Verdict = harness.Violated
			res.Detail = fmt.Sprintf("pprof %q exited abnormally (status %d):\n%s\nprofile:\n%s", args, code, harness.Trunc(errs, 2500), harness.Trunc(p.String(), 2000))
			return res
		}
		if code != 0 && strings.TrimSpace(errs) == "" {
			res.Verdict, res.Detail = harness.Violated, fmt.Sprintf("pprof %q exited with status %d without any error message", args, code)
			return res
		}
	}
	res.Sample = "real executable on an odd profile"
	return res
}

func init() {
	harness.Register(&harness.Check{
		ID:               "C09",
		Level:            "exploration",
		CrashIsViolation: true,
		CaseTimeout:      4 * time.Minute,
		HangTries:        3,
		Rule:             "a case that does not finish within 4 min in 3 of 3 fresh worker processes is a hang (violation); sessions have their own 3-of-3 rule at 30 s. odd-profile class (empty / 3000-byte / non-UTF8 / metacharacter strings, 1-2 character build ids, ids near 2^64, addresses 0 and max, inverted / zero / overlapping / whole-address-space mappings, MinInt64/MaxInt64 values and labels, line numbers 0 / negative / 2^33 / 2^40 / extreme next to start lines 0..10, unknown/empty units, 12 sample types, no samples, invalid drop_frames). part cli: 10 invocations per profile through the real driver: 19 report formats x hostile values for every option field (33 value classes incl. unbalanced regexps, 1e400, NaN, huge digit strings, unknown units, 79/81-byte and 80-120-byte non-ASCII strings) x granularity x symbolize modes x duplicate sources / base, or a second profile with fewer columns next to one that lists a sample type name twice. part interactive: sessions of 4-40 lines (command grammar + noise + hostile assignments) in a fresh child process with per-line transcripts; the loop must consume every line; around lines that are certainly rejected a probe command must give identical answers and the rejection must be reported. part web: 7-25 handler invocations per fresh session over 11 endpoints x parameter soups (34 keys, hostile values, repeats, bad escapes, missing values); no handler panic, every response is output or an error report, a probe request keeps answering as in the pristine session. part exe: the real bin/pprof executable on odd profiles (exit status 0/1/2, no panic text on stderr). non-trivial = every case; distinct = case",
		Assumptions:      []string{"graphviz is not installed: formats needing dot legitimately end in an error", "'never hangs' is restated as a 30 s per-session watchdog (>= 1000x the median session time); a session that exceeds it in 3 of 3 runs is reported as a hang, otherwise inconclusive", "handlers are invoked directly so that a handler panic reaches the monitor instead of net/http's recover"},
		Parts: []harness.Part{
			{Name: "cli", Quick: 2500, Thor: 100000, Run: runCLI},
			{Name: "interactive", Quick: 500, Thor: 20000, Run: runInteractive},
			{Name: "web", Quick: 500, Thor: 20000, Run: runWeb},
			{Name: "exe", Quick: 60, Thor: 3000, Run: runExe},
		},
		MinNonTrivial: func(string) int { return 500 },
	})
}

type noNetwork struct{}

func (noNetwork) RoundTrip(req *http.Request) (*http.Response, error) {
	return nil, fmt.Errorf("no route to %s", req.URL.Host)
}
