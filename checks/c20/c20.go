// Package c20 runs concurrent workloads of the operations pprof itself performs or permits under
// the Go race detector, and compares every concurrent result with its sequential twin.
package c20

import (
	"bytes"
	"fmt"
	"github.com/google/pprof/verif/internal/parse"
	"io"
	"log"
	"math/rand"
	"net/http"
	"net/http/httptest"
	"os"
	"os/exec"
	"path/filepath"
	"regexp"
	"runtime"
	"sort"
	"strconv"
	"strings"
	"sync"
	"sync/atomic"
	"time"

	"github.com/google/pprof/internal/binutils"
	"github.com/google/pprof/internal/driver"
	"github.com/google/pprof/profile"
	"github.com/google/pprof/verif/checks/c10"
	"github.com/google/pprof/verif/checks/c16"
	"github.com/google/pprof/verif/internal/drv"
	"github.com/google/pprof/verif/internal/harness"
)

type stamps struct {
	mu    sync.Mutex
	clock int64
	spans [][2]int64
}

func (s *stamps) do(f func()) {
	s.mu.Lock()
	s.clock++
	a := s.clock
	s.mu.Unlock()
	f()
	s.mu.Lock()
	s.clock++
	s.spans = append(s.spans, [2]int64{a, s.clock})
	s.mu.Unlock()
}

func (s *stamps) overlaps() int {
	n := 0
	for i := range s.spans {
		for j := i + 1; j < len(s.spans); j++ {
			if s.spans[i][0] < s.spans[j][1] && s.spans[j][0] < s.spans[i][1] {
				n++
			}
		}
	}
	return n
}

// 1. serialization and copying of shared profiles
func runCodec(c *harness.Ctx) harness.Result {
	r := c.Rng
	p := c10.GenProfile(r)
	q, err := profile.Merge([]*profile.Profile{p, p})
	if err != nil {
		return harness.Result{Verdict: harness.Inconclusive, Detail: err.Error()}
	}
	cq := q.Compact()
	var seq [3][]byte
	for i, x := range []*profile.Profile{p, q, cq} {
		var b bytes.Buffer
		x.WriteUncompressed(&b)
		seq[i] = b.Bytes()
	}
	seqStr := p.String()
	res := harness.Result{NonTrivial: true, Sig: fmt.Sprint("codec", c.Index)}
	n := 8 + r.Intn(25)
	var st stamps
	var wg sync.WaitGroup
	var bad atomic.Value
	for g := 0; g < n; g++ {
		wg.Add(1)
		go func(g int) {
			defer wg.Done()
			for k := 0; k < 4; k++ {
				st.do(func() {
					switch (g + k) % 5 {
					case 0:
						var b bytes.Buffer
						p.WriteUncompressed(&b)
						if !bytes.Equal(b.Bytes(), seq[0]) {
							bad.Store("concurrent WriteUncompressed of one profile differs from the sequential bytes")
						}
					case 1:
						var b bytes.Buffer
						p.Write(&b)
						pp, err := profile.Parse(&b)
						if err != nil || pp.String() != seqStr {
							bad.Store(fmt.Sprintf("concurrent Write produced bytes that do not parse back to the same profile (err=%v)", err))
						}
					case 2:
						if cp := p.Copy(); cp.String() != seqStr {
							bad.Store("concurrent Copy differs from the original")
						}
					case 3:
						if p.String() != seqStr {
							bad.Store("concurrent String differs")
						}
					case 4: // related profiles (merge output and its compaction) serialized at the same time
						x, want := q, seq[1]
						if g%2 == 0 {
							x, want = cq, seq[2]
						}
						var b bytes.Buffer
						x.WriteUncompressed(&b)
						if !bytes.Equal(b.Bytes(), want) {
							bad.Store("concurrent serialization of a merged profile and its compaction interfered")
						}
					}
				})
			}
		}(g)
	}
	wg.Wait()
	c.Stat("codec_ops", int64(len(st.spans)))
	c.Stat("codec_overlaps", int64(st.overlaps()))
	if v := bad.Load(); v != nil {
		res.Verdict, res.Detail = harness.Violated, v.(string)
	}
	res.Sample = map[string]any{"goroutines": n, "overlapping_pairs": st.overlaps()}
	return res
}

// 2 + 4. mixed web requests against one server while options are being set
func runWeb(c *harness.Ctx) harness.Result {
	r := c.Rng
	drv.IsolateEnv(c.Tmp)
	p := c10.GenProfile(r)
	// every other server starts with a settings file that is a symbolic link and already holds 60
	// saved configurations, which every page lists in its menu whatever else is going on
	kept := 0
	if c.Index%2 == 1 {
		real := filepath.Join(c.Tmp, "dotfiles")
		os.MkdirAll(real, 0o755)
		os.MkdirAll(filepath.Join(c.Tmp, "config", "pprof"), 0o755)
		var sb strings.Builder
		sb.WriteString(`{"configs":[`)
		for i := 0; i < 60; i++ {
			if i > 0 {
				sb.WriteString(",")
			}
			fmt.Fprintf(&sb, `{"name":"keep%02d","focus":"%s","nodecount":%d}`, i, strings.Repeat("f", 200), i+1)
		}
		sb.WriteString(`]}`)
		os.WriteFile(filepath.Join(real, "settings.json"), []byte(sb.String()), 0o644)
		os.Symlink(filepath.Join(real, "settings.json"), filepath.Join(c.Tmp, "config", "pprof", "settings.json"))
		kept = 60
		c.Stat("web_servers_with_symlinked_settings", 1)
	}
	web, err := drv.StartWeb(&drv.MapFetcher{Profiles: map[string]*profile.Profile{"p": p}}, []string{"p"}, nil, nil, nil)
	if err != nil {
		return harness.Result{Verdict: harness.Inconclusive, Detail: err.Error()}
	}
	defer web.Close()
	defer driver.SetVariableDefault("nodecount", "-1")
	urls := []string{"/top", "/top?g=lines", "/peek?f=main", "/flamegraph", "/source?f=a", "/download", "/top?f=main&sort=cum", "/", "/flamegraph?g=files", "/disasm?f=a", "/top?f=zzznomatch", "/?i=zzznomatch&h=qqq", "/peek?f=zzznomatch"}
	// sequential twins, for each of the two option values that writers will set
	expect := map[string]map[string]bool{}
	for _, nc := range []string{"-1", "3"} {
		driver.SetVariableDefault("nodecount", nc)
		for _, u := range urls {
			_, body, _ := web.Get(u)
			if expect[u] == nil {
				expect[u] = map[string]bool{}
			}
			expect[u][body] = true
		}
	}
	res := harness.Result{NonTrivial: true, Sig: fmt.Sprint("web", c.Index)}
	var st stamps
	var wg sync.WaitGroup
	var bad atomic.Value
	stop := make(chan struct{})
	// writers: option updates through the exported SetVariableDefault (the configure path)
	for wtr := 0; wtr < 2; wtr++ {
		wg.Add(1)
		go func(wtr int) {
			defer wg.Done()
			for i := 0; ; i++ {
				select {
				case <-stop:
					return
				default:
				}
				driver.SetVariableDefault("nodecount", []string{"-1", "3"}[(i+wtr)%2])
				runtime.Gosched()
			}
		}(wtr)
	}
	var rg sync.WaitGroup
	n := 4 + r.Intn(8)
	for g := 0; g < n; g++ {
		rg.Add(1)
		seed := r.Int63()
		go func(g int, seed int64) {
			defer rg.Done()
			rr := rand.New(rand.NewSource(seed))
			for k := 0; k < 6; k++ {
				st.do(func() {
					switch rr.Intn(8) {
					case 0:
						code, body, pn := web.Get(fmt.Sprintf("/saveconfig?config=g%d&f=v%d", g, k))
						if pn != "" || code != 200 {
							bad.Store(fmt.Sprintf("concurrent /saveconfig failed: %d %s %s", code, body, pn))
						}
					case 1:
						_, _, pn := web.Get(fmt.Sprintf("/deleteconfig?config=g%d", rr.Intn(n)))
						if pn != "" {
							bad.Store("concurrent /deleteconfig panicked: " + pn)
						}
					default:
						u := urls[rr.Intn(len(urls))]
						_, body, pn := web.Get(u)
						if pn != "" {
							bad.Store("GET " + u + " panicked: " + pn)
						} else if kept > 0 && strings.Contains(body, "keep00") != strings.Contains(body, "keep59") || kept > 0 && strings.Contains(body, "id=\"config") && !strings.Contains(body, "keep59") {
							bad.Store("concurrent GET " + u + ": the page's configuration menu does not list the 60 configurations that were saved before the server started")
						} else if !expect[u][stripMenu(body)] && !expect[u][body] && !matchesModuloMenu(expect[u], body) {
							bad.Store("concurrent GET " + u + " returned a response that equals none of the sequential responses (for either option value written)")
						}
					}
				})
			}
		}(g, seed)
	}
	rg.Wait()
	// concurrent saves equal sequential ones: every configuration saved under a name of its own,
	// all at the same moment, is there afterwards (nobody deletes these names)
	if bad.Load() == nil {
		var sg sync.WaitGroup
		gate := make(chan struct{})
		for g := 0; g < n; g++ {
			sg.Add(1)
			go func(g int) {
				defer sg.Done()
				<-gate
				if code, body, pn := web.Get(fmt.Sprintf("/saveconfig?config=own%02d&f=o%d", g, g)); pn != "" || code != 200 {
					bad.Store(fmt.Sprintf("concurrent /saveconfig failed: %d %s %s", code, body, pn))
				}
			}(g)
		}
		close(gate)
		sg.Wait()
		c.Stat("web_simultaneous_saves", int64(n))
		if _, page, _ := web.Get("/top"); bad.Load() == nil {
			for g := 0; g < n; g++ {
				if name := fmt.Sprintf("own%02d", g); !strings.Contains(page, name) {
					bad.Store(fmt.Sprintf("%d configurations were saved at the same moment under names of their own and every save was acknowledged with status 200; afterwards %s is not among the configurations the page lists (a sequential run keeps all of them)", n, name))
					break
				}
			}
		}
	}
	close(stop)
	wg.Wait()
	c.Stat("web_ops", int64(len(st.spans)))
	c.Stat("web_overlaps", int64(st.overlaps()))
	if v := bad.Load(); v != nil {
		res.Verdict, res.Detail = harness.Violated, v.(string)
	}
	res.Sample = map[string]any{"clients": n, "overlapping_pairs": st.overlaps()}
	return res
}

// the Config menu legitimately changes while configurations are saved/deleted concurrently
func stripMenu(body string) string {
	i := strings.Index(body, `<div id="config" class="menu-item">`)
	j := strings.Index(body, `<div id="download" class="menu-item">`)
	if i < 0 || j < i {
		return body
	}
	k := strings.Index(body, `<datalist id="config-list">`)
	l := strings.Index(body, `</datalist>`)
	out := body[:i] + body[j:]
	if k > 0 && l > k {
		out = strings.Replace(out, body[k:l], "", 1)
	}
	return out
}

func matchesModuloMenu(exp map[string]bool, body string) bool {
	sb := stripMenu(body)
	for e := range exp {
		if stripMenu(e) == sb {
			return true
		}
	}
	return false
}

// 3. parallel fetch with a shared object tool
func runFetch(c *harness.Ctx) harness.Result {
	r := c.Rng
	drv.IsolateEnv(c.Tmp)
	n := []int{2, 5, 40, 129, 300, 100, 127}[r.Intn(7)]
	// ... and, for the two middle sizes, as many base profiles fetched at the same time
	nbase := map[int]int{100: 100, 127: 3}[n]
	if n == 300 && r.Intn(2) == 0 {
		// both lists longer than one batch: their batches start and end next to each other several times
		nbase = 300
	}
	var srcs []string
	profs := map[string]*profile.Profile{}
	for i := 0; i < n; i++ {
		name := fmt.Sprintf("src%03d", i)
		p := c10.GenProfile(rand.New(rand.NewSource(int64(i % 7))))
		for k := int64(1); p.SampleType[0].Type != "samples"; k++ { // all sources share their sample types
			p = c10.GenProfile(rand.New(rand.NewSource(int64(i%7) + 100*k)))
		}
		for _, m := range p.Mapping {
			m.BuildID = "ab" + fmt.Sprint(i%3)
		}
		profs[name] = p
		srcs = append(srcs, name)
	}
	var bases []string
	lists := map[string][]string{}
	for i := 0; i < nbase; i++ {
		name := fmt.Sprintf("base%03d", i)
		profs[name] = profs[srcs[i%len(srcs)]]
		bases = append(bases, name)
	}
	if nbase > 0 {
		lists["base"] = bases
		c.Stat("fetches_with_bases", 1)
	}
	run := func(seed int64) (string, error) {
		g := c16.NewGate(append(append([]string{}, srcs...), bases...))
		g.Profiles, g.Kind = profs, map[string]string{}
		g.Drive([][]string{srcs, bases}, seed)
		s := &drv.Session{Flags: &drv.Flags{Bools: map[string]bool{"top": true, "functions": true, "flat": true}, Strs: map[string]string{"output": "out", "symbolize": "none"}, Lists: lists, Args: srcs}, Fetch: g, Obj: &binutils.Binutils{}}
		res := s.Run()
		g.Stop()
		if res.Panic != "" {
			return "", fmt.Errorf("panic: %s", res.Panic)
		}
		out := ""
		if bf := s.Writer.Files["out"]; bf != nil {
			out = bf.String()
		}
		return out, res.Err
	}
	a, err := run(1)
	if err != nil {
		return harness.Violation("parallel fetch of %d sources failed: %v", n, err)
	}
	// the same profiles served over HTTP to pprof's own fetcher, nothing gated: up to 128 fetches
	// really run at the same time, each with its own seconds= parameter (and therefore timeout)
	if nbase == 0 {
		var urls []string
		bodies := map[string][]byte{}
		for i, name := range srcs {
			var buf bytes.Buffer
			profs[name].Write(&buf)
			host := fmt.Sprintf("%s.test", name)
			bodies[host] = buf.Bytes()
			urls = append(urls, fmt.Sprintf("http://%s/pprof/heap?seconds=%d", host, 1+i%7))
		}
		// the merged remote profile is also saved locally, under a name of a numbered sequence; other creators of
		// files of that sequence (a second pprof run fetching from the same service) are busy in the
		// same directory meanwhile
		savedRx := regexp.MustCompile(`^Saved profile in (.*)$`)
		prefix := ""
		{
			w := &drv.Session{Flags: &drv.Flags{Bools: map[string]bool{"top": true}, Strs: map[string]string{"output": "out", "symbolize": "none"}, Args: urls[:1]}, RoundTr: hostTransport(bodies), Obj: &binutils.Binutils{}}
			w.Run()
			for _, e := range w.UI.Errs {
				if m := savedRx.FindStringSubmatch(e); m != nil {
					if pm := regexp.MustCompile(`^(.*\.)[0-9]{3,}\.pb\.gz$`).FindStringSubmatch(filepath.Base(m[1])); pm != nil {
						prefix = pm[1]
					}
				}
			}
		}
		stop := make(chan struct{})
		var cwg sync.WaitGroup
		var overwritten atomic.Value
		if prefix != "" {
			for g := 0; g < 6; g++ {
				cwg.Add(1)
				go func(g int) {
					defer cwg.Done()
					for k := 0; ; k++ {
						select {
						case <-stop:
							return
						default:
						}
						f, err := driver.VerifNewTempFile(filepath.Join(c.Tmp, "tmp"), prefix, ".pb.gz")
						if err != nil {
							continue
						}
						token := fmt.Sprintf("creator %d file %d", g, k)
						f.WriteString(token)
						f.Close()
						runtime.Gosched()
						if b, err := os.ReadFile(f.Name()); err != nil || string(b) != token {
							overwritten.Store(fmt.Sprintf("%s was created exclusively by another creator and holds %d other bytes now (err=%v): a concurrent save replaced it", f.Name(), len(b), err))
						}
						os.Remove(f.Name())
					}
				}(g)
			}
		}
		s := &drv.Session{Flags: &drv.Flags{Bools: map[string]bool{"top": true, "functions": true, "flat": true}, Strs: map[string]string{"output": "out", "symbolize": "none"}, Args: urls}, RoundTr: hostTransport(bodies), Obj: &binutils.Binutils{}}
		rr := s.Run()
		close(stop)
		cwg.Wait()
		c.Stat("free_running_http_fetches", int64(n))
		if rr.Panic != "" || rr.Err != nil {
			return harness.Violation("parallel HTTP fetch of %d sources failed: %v %s %v", n, rr.Err, rr.Panic, s.UI.Errs)
		}
		if v := overwritten.Load(); v != nil {
			return harness.Violation("while %d remote profiles were being saved: %s", n, v.(string))
		}
		savedNames := map[string]bool{}
		for _, e := range s.UI.Errs {
			if m := savedRx.FindStringSubmatch(e); m != nil {
				if savedNames[m[1]] {
					return harness.Violation("two of %d remote profiles were reported as saved in the same file %s", n, m[1])
				}
				savedNames[m[1]] = true
				b, err := os.ReadFile(m[1])
				if err != nil {
					return harness.Violation("%s is reported as a saved profile but cannot be read: %v", m[1], err)
				}
				if _, err := profile.ParseData(b); err != nil {
					return harness.Violation("%s is reported as a saved profile but does not hold one: %v", m[1], err)
				}
			}
		}
		if len(savedNames) != 1 {
			return harness.Violation("%d remote profiles fetched and merged, %d copies reported as saved locally (one expected)", n, len(savedNames))
		}
		c.Stat("saved_remote_profiles", 1)
		out := ""
		if bf := s.Writer.Files["out"]; bf != nil {
			out = bf.String()
		}
		if out != a {
			return harness.Violation("%d sources fetched over HTTP in parallel give another report than the same profiles fetched in a forced order\n--- parallel\n%s\n--- forced order\n%s", n, harness.Trunc(out, 1200), harness.Trunc(a, 1200))
		}
	}
	b, err := run(c.Rng.Int63())
	c.Stat("fetch_sessions", 2)
	c.Stat("fetches", int64(2*n))
	res := harness.Result{NonTrivial: true, Sig: fmt.Sprint("fetch", n, c.Index), Sample: map[string]any{"sources": n}}
	if err != nil || a != b {
		res.Verdict, res.Detail = harness.Violated, fmt.Sprintf("parallel fetch of %d sources: results differ between two completion orders (err=%v)", n, err)
	}
	return res
}

type hostTransport map[string][]byte

func (t hostTransport) RoundTrip(req *http.Request) (*http.Response, error) {
	b, ok := t[req.URL.Host]
	if !ok {
		return nil, fmt.Errorf("no route to %s", req.URL)
	}
	runtime.Gosched()
	return &http.Response{StatusCode: 200, Status: "200 OK", Header: http.Header{}, Body: io.NopCloser(bytes.NewReader(b)), Request: req}, nil
}

// 5. temporary files: many goroutines and several processes create files in one directory
func runTemp(c *harness.Ctx) harness.Result {
	dir := filepath.Join(c.Tmp, "out")
	os.MkdirAll(dir, 0o755)
	res := harness.Result{NonTrivial: true, Sig: fmt.Sprint("temp", c.Index)}
	// what earlier runs left behind in the directory: files of the same naming sequence, empty or
	// not, fresh or old (a pprof killed between creating and filling its file leaves an empty one)
	leftovers := map[string]string{}
	if c.Index%2 == 1 {
		for k, n := 0, 1+c.Rng.Intn(5); k < n; k++ {
			name := filepath.Join(dir, fmt.Sprintf("profile%03d.pb.gz", 1+c.Rng.Intn(40)))
			content := ""
			if c.Rng.Intn(2) == 0 {
				content = fmt.Sprintf("kept from an earlier run %d", k)
			}
			os.WriteFile(name, []byte(content), 0o644)
			if c.Rng.Intn(3) > 0 {
				old := time.Now().Add(-time.Duration(1+c.Rng.Intn(72)) * time.Hour)
				os.Chtimes(name, old, old)
			}
			leftovers[name] = content
		}
		c.Stat("temp_dirs_with_leftovers", 1)
	}
	var wg sync.WaitGroup
	var mu sync.Mutex
	names := map[string]string{}
	var bad atomic.Value
	var st stamps
	for g := 0; g < 32; g++ {
		wg.Add(1)
		go func(g int) {
			defer wg.Done()
			for k := 0; k < 4; k++ {
				st.do(func() {
					f, err := driver.VerifNewTempFile(dir, "profile", ".pb.gz")
					if err != nil {
						bad.Store("newTempFile failed: " + err.Error())
						return
					}
					content := fmt.Sprintf("goroutine %d file %d", g, k)
					if (g+k)%3 == 0 {
						time.Sleep(time.Millisecond) // the creator produces its data (a converter runs, a graph is laid out)
					}
					f.WriteString(content)
					f.Close()
					mu.Lock()
					if old, dup := names[f.Name()]; dup {
						bad.Store(fmt.Sprintf("temporary file name %s handed out twice (to %q and %q)", f.Name(), old, content))
					}
					names[f.Name()] = content
					mu.Unlock()
				})
			}
		}(g)
	}
	// several processes at once
	nproc := 6
	outs := make([]string, nproc)
	for pi := 0; pi < nproc; pi++ {
		wg.Add(1)
		go func(pi int) {
			defer wg.Done()
			cmd := exec.Command(harness.Self(), "child", "c20temp", dir, fmt.Sprint(pi))
			b, _ := cmd.Output()
			outs[pi] = string(b)
		}(pi)
	}
	wg.Wait()
	for pi, o := range outs {
		for _, l := range strings.Split(strings.TrimSpace(o), "\n") {
			if l == "" {
				continue
			}
			parts := strings.SplitN(l, "\t", 2)
			if len(parts) != 2 {
				continue
			}
			if old, dup := names[parts[0]]; dup {
				bad.Store(fmt.Sprintf("temporary file name %s handed out twice (to %q and process %d)", parts[0], old, pi))
			}
			names[parts[0]] = parts[1]
		}
	}
	c.Stat("temp_files", int64(len(names)))
	c.Stat("temp_overlaps", int64(st.overlaps()))
	for name, content := range names {
		b, err := os.ReadFile(name)
		if err != nil || string(b) != content {
			bad.Store(fmt.Sprintf("file %s holds %q, its creator wrote %q (overwritten or lost; err=%v)", name, b, content, err))
		}
	}
	for name, content := range leftovers {
		if who, taken := names[name]; taken {
			bad.Store(fmt.Sprintf("%s existed before (%d bytes) and was handed out as a new file to %q", name, len(content), who))
		} else if b, err := os.ReadFile(name); err != nil || string(b) != content {
			bad.Store(fmt.Sprintf("%s, which existed before with content %q, now holds %q (err=%v)", name, content, b, err))
		}
	}
	if v := bad.Load(); v != nil {
		res.Verdict, res.Detail = harness.Violated, v.(string)
	}
	res.Sample = map[string]any{"files": len(names)}
	return res
}

func tempChild(args []string) int {
	dir := args[0]
	for k := 0; k < 12; k++ {
		f, err := driver.VerifNewTempFile(dir, "profile", ".pb.gz")
		if err != nil {
			fmt.Fprintln(os.Stderr, err)
			return 1
		}
		content := fmt.Sprintf("process %s file %d", args[1], k)
		f.WriteString(content)
		f.Close()
		fmt.Printf("%s\t%s\n", f.Name(), content)
	}
	return 0
}

// 6. symbolizer tool access
func runTools(c *harness.Ctx) harness.Result {
	r := c.Rng
	tools := filepath.Join(c.Tmp, "tools")
	os.MkdirAll(tools, 0o755)
	// an interposed, slow symbolizer that echoes the address it is sent
	script := "#!/bin/sh\nwhile read t f a; do\n  printf '{\"Address\":\"%s\",\"ModuleName\":\"m\",\"Symbol\":[{\"Line\":1,\"Column\":0,\"FunctionName\":\"got_%s\",\"FileName\":\"f.c\",\"StartLine\":1}]}\\n' \"$a\" \"$a\"\ndone\n"
	os.WriteFile(filepath.Join(tools, "llvm-symbolizer"), []byte(script), 0o755)
	// a tiny ET_EXEC image: one executable PT_LOAD at 0x400000
	path := filepath.Join(c.Tmp, "img")
	if err := writeTinyELF(path); err != nil {
		return harness.Result{Verdict: harness.Inconclusive, Detail: err.Error()}
	}
	bu := &binutils.Binutils{}
	bu.SetTools("llvm-symbolizer:" + tools + ",addr2line:/nonexistent,nm:/nonexistent,objdump:/nonexistent")
	f, err := bu.Open(path, 0x400000, 0x403000, 0, "")
	if err != nil {
		return harness.Violation("Open: %v", err)
	}
	defer f.Close()
	res := harness.Result{NonTrivial: true, Sig: fmt.Sprint("tools", c.Index)}
	var wg sync.WaitGroup
	var bad atomic.Value
	var st stamps
	n := 6 + r.Intn(6)
	for g := 0; g < n; g++ {
		wg.Add(1)
		go func(g int) {
			defer wg.Done()
			for k := 0; k < 8; k++ {
				addr := uint64(0x400000 + g*0x100 + k*8)
				st.do(func() {
					fr, err := f.SourceLine(addr)
					want := fmt.Sprintf("got_0x%x", addr)
					if err != nil || len(fr) != 1 || fr[0].Func != want {
						bad.Store(fmt.Sprintf("concurrent SourceLine(%#x) returned %v (err=%v): the answer does not pair with the question (%s)", addr, fr, err, want))
					}
				})
			}
		}(g)
	}
	// tool configuration racing with Open
	for g := 0; g < 3; g++ {
		wg.Add(1)
		go func(g int) {
			defer wg.Done()
			for k := 0; k < 10; k++ {
				switch (g + k) % 3 {
				case 0:
					bu.SetFastSymbolization(k%2 == 0)
				case 1:
					bu.SetTools("llvm-symbolizer:" + tools + ",addr2line:/nonexistent,nm:/nonexistent,objdump:/nonexistent")
				default:
					if ff, err := bu.Open(path, 0x400000, 0x403000, 0, ""); err == nil {
						ff.ObjAddr(0x400010)
						ff.Close()
					}
				}
			}
		}(g)
	}
	wg.Wait()
	c.Stat("tool_requests", int64(len(st.spans)))
	c.Stat("tool_overlaps", int64(st.overlaps()))
	if v := bad.Load(); v != nil {
		res.Verdict, res.Detail = harness.Violated, v.(string)
	}
	res.Sample = map[string]any{"goroutines": n}
	return res
}

// 7. the very first requests of a fresh process arrive at the same time (lazily built state such
// as templates is initialised under contention)
func runFirstWeb(c *harness.Ctx) harness.Result {
	res := harness.Result{NonTrivial: true, Sig: fmt.Sprint("firstweb", c.Index)}
	cmd := exec.Command(harness.Self(), "child", "c20first", c.Tmp, fmt.Sprint(c.Rng.Int63()))
	var out, errb strings.Builder
	cmd.Stdout, cmd.Stderr = &out, &errb
	err := cmd.Run()
	c.Stat("fresh_processes", 1)
	for _, l := range strings.Split(out.String(), "\n") {
		if strings.HasPrefix(l, "requests ") {
			var n, ov int
			fmt.Sscanf(l, "requests %d overlaps %d", &n, &ov)
			c.Stat("first_requests", int64(n))
			c.Stat("first_request_overlaps", int64(ov))
		}
		if strings.HasPrefix(l, "BAD ") {
			res.Verdict, res.Detail = harness.Violated, "first requests of a fresh process, sent concurrently: "+strings.TrimPrefix(l, "BAD ")
		}
	}
	if err != nil && res.Verdict != harness.Violated {
		tail := errb.String()
		if strings.Contains(tail, "panic:") || strings.Contains(tail, "fatal error:") {
			res.Verdict, res.Detail = harness.Violated, "fresh process serving concurrent first requests died:\n"+harness.Trunc(tail, 3000)
		} else if !strings.Contains(tail, "DATA RACE") { // race reports are collected from the log files
			res.Verdict, res.Detail = harness.Inconclusive, fmt.Sprintf("child failed: %v\n%s", err, harness.Trunc(tail, 1500))
		}
	}
	return res
}

func firstWebChild(args []string) int {
	seed, _ := strconv.ParseInt(args[1], 10, 64)
	r := rand.New(rand.NewSource(seed))
	drv.IsolateEnv(args[0])
	p := c10.GenProfile(r)
	web, err := drv.StartWeb(&drv.MapFetcher{Profiles: map[string]*profile.Profile{"p": p}}, []string{"p"}, nil, nil, nil)
	if err != nil {
		fmt.Println("requests 0 overlaps 0")
		return 0
	}
	defer web.Close()
	urls := []string{"/top", "/flamegraph", "/source?f=a", "/", "/peek?f=main", "/top?g=lines", "/disasm?f=a", "/flamegraph?g=files"}
	n := 4 + r.Intn(8)
	type resp struct {
		u, body string
		code    int
		pn      string
	}
	got := make([]resp, n)
	var st stamps
	var wg sync.WaitGroup
	gate := make(chan struct{})
	for g := 0; g < n; g++ {
		wg.Add(1)
		u := urls[r.Intn(len(urls))]
		go func(g int, u string) {
			defer wg.Done()
			<-gate
			st.do(func() {
				code, body, pn := web.Get(u)
				got[g] = resp{u, body, code, pn}
			})
		}(g, u)
	}
	close(gate)
	wg.Wait()
	fmt.Printf("requests %d overlaps %d\n", n, st.overlaps())
	// the same requests one at a time afterwards
	for _, x := range got {
		code, body, pn := web.Get(x.u)
		switch {
		case x.pn != "" || pn != "":
			fmt.Printf("BAD GET %s panicked: %s %s\n", x.u, x.pn, pn)
		case code != x.code || body != x.body:
			fmt.Printf("BAD GET %s answered %d (%d bytes) when it was among the first concurrent requests and %d (%d bytes) when repeated alone: %q\n", x.u, x.code, len(x.body), code, len(body), harness.Trunc(x.body, 200))
		}
	}
	return 0
}

// 8. GNU addr2line backend: one shared addr2line process whose answer to some addresses is a
// diagnostic line; every lookup must return (answer, nothing, or error) and later lookups must
// not block
func runToolsA2L(c *harness.Ctx) harness.Result {
	r := c.Rng
	tools := filepath.Join(c.Tmp, "tools")
	os.MkdirAll(tools, 0o755)
	script := "#!/bin/sh\nwhile read a; do\n  case \"$a\" in\n    ffffffffffffffff) printf '0x%s\\n??\\n??:0\\n' \"$a\" ;;\n    *8) printf 'addr2line: DWARF error: could not find variable specification\\n' ;;\n    *) printf '0x%s\\ng_%s\\nf.c:1\\n' \"$a\" \"$a\" ;;\n  esac\ndone\n"
	os.WriteFile(filepath.Join(tools, "addr2line"), []byte(script), 0o755)
	path := filepath.Join(c.Tmp, "img")
	if err := writeTinyELF(path); err != nil {
		return harness.Result{Verdict: harness.Inconclusive, Detail: err.Error()}
	}
	// pprof falls back to an llvm-symbolizer found on PATH: keep the interposed tool the only one
	oldPath := os.Getenv("PATH")
	os.Setenv("PATH", tools)
	defer os.Setenv("PATH", oldPath)
	bu := &binutils.Binutils{}
	bu.SetTools("llvm-symbolizer:/nonexistent,addr2line:" + tools + ",nm:/nonexistent,objdump:/nonexistent")
	f, err := bu.Open(path, 0x400000, 0x403000, 0, "")
	if err != nil {
		return harness.Violation("Open: %v", err)
	}
	defer f.Close()
	res := harness.Result{NonTrivial: true, Sig: fmt.Sprint("tools-a2l", c.Index)}
	var wg sync.WaitGroup
	var bad atomic.Value
	var st stamps
	var answered, empty, failed atomic.Int64
	n := 4 + r.Intn(6)
	// exactly one lookup of the case is answered with a diagnostic (pprof's reader of the tool's
	// output is not expected to resynchronise after a second one)
	diagG, diagK := r.Intn(n), r.Intn(8)
	for g := 0; g < n; g++ {
		wg.Add(1)
		go func(g int) {
			defer wg.Done()
			for k := 0; k < 8; k++ {
				addr := uint64(0x400000 + g*0x100 + k*16 + 1)
				if g == diagG && k == diagK {
					addr = uint64(0x400000 + g*0x100 + k*16 + 8) // answered with a diagnostic
				}
				st.do(func() {
					fr, err := f.SourceLine(addr)
					want := fmt.Sprintf("g_%x", addr)
					switch {
					case err != nil:
						failed.Add(1)
					case len(fr) == 0:
						empty.Add(1)
					case len(fr) == 1 && fr[0].Func == want:
						answered.Add(1)
					default:
						bad.Store(fmt.Sprintf("concurrent SourceLine(%#x) through addr2line returned %v: the answer does not pair with the question (%s)", addr, fr, want))
					}
				})
			}
		}(g)
	}
	wg.Wait() // a lookup that never returns is reported by the harness (hang rule) with the goroutine dump
	c.Stat("a2l_requests", int64(len(st.spans)))
	c.Stat("a2l_overlaps", int64(st.overlaps()))
	c.Stat("a2l_answered", answered.Load())
	c.Stat("a2l_empty", empty.Load())
	c.Stat("a2l_errors", failed.Load())
	if v := bad.Load(); v != nil {
		res.Verdict, res.Detail = harness.Violated, v.(string)
	}
	res.Sample = map[string]any{"goroutines": n, "backend": "interposed addr2line with diagnostic answers"}
	return res
}

// 9. option setters of the shared object tool: SetFastSymbolization issued while SetTools is still
// probing a (slow) objdump; both settings must be in effect afterwards, as in either serial order
func runSetters(c *harness.Ctx) harness.Result {
	tools := filepath.Join(c.Tmp, "tools")
	os.MkdirAll(tools, 0o755)
	started := filepath.Join(c.Tmp, "objdump-started")
	script := "#!/bin/sh\n: > " + started + "\n/bin/sleep 0.2\necho 'GNU objdump (GNU Binutils) 2.40'\n"
	for _, n := range []string{"llvm-objdump", "objdump"} {
		os.WriteFile(filepath.Join(tools, n), []byte(script), 0o755)
	}
	cfg := "objdump:" + tools + ",llvm-symbolizer:/nonexistent,addr2line:/nonexistent,nm:/nonexistent"
	fast := c.Index%2 == 0
	serial := &binutils.Binutils{}
	serial.SetFastSymbolization(!fast)
	serial.SetTools(cfg)
	serial.SetFastSymbolization(fast)
	want := serial.String()
	os.Remove(started)
	res := harness.Result{NonTrivial: true, Sig: fmt.Sprint("setters", c.Index), Sample: map[string]any{"serial_result": want}}
	bu := &binutils.Binutils{}
	bu.SetFastSymbolization(!fast)
	done := make(chan struct{})
	var st stamps
	go func() {
		st.do(func() { bu.SetTools(cfg) })
		close(done)
	}()
	for i := 0; i < 5000; i++ { // wait (logically: until the probe runs) for SetTools to be in progress
		if _, err := os.Stat(started); err == nil {
			break
		}
		time.Sleep(time.Millisecond)
	}
	st.do(func() { bu.SetFastSymbolization(fast) })
	<-done
	c.Stat("setter_pairs", 1)
	c.Stat("setter_overlaps", int64(st.overlaps()))
	if got := bu.String(); got != want {
		res.Verdict = harness.Violated
		res.Detail = fmt.Sprintf("SetFastSymbolization(%v) issued while SetTools was probing objdump: final state %s; either serial order gives %s", fast, got, want)
	}
	return res
}

// 10. option assignments from several goroutines at once, each to a different option: afterwards
// every assignment must be in effect, as it is when they are made one after the other
func runOptions(c *harness.Ctx) harness.Result {
	r := c.Rng
	sets := [][2]string{{"focus", "aaa"}, {"ignore", "bbb"}, {"hide", "ccc"}, {"show", "ddd"}, {"nodecount", "7"}, {"unit", "ms"}, {"sort", "cum"}, {"granularity", "lines"}, {"tagfocus", "eee"}, {"noinlines", "true"}}
	defaults := [][2]string{{"focus", ""}, {"ignore", ""}, {"hide", ""}, {"show", ""}, {"nodecount", "-1"}, {"unit", "minimum"}, {"sort", "flat"}, {"granularity", "functions"}, {"tagfocus", ""}, {"noinlines", "false"}}
	reset := func() {
		for _, d := range defaults {
			driver.SetVariableDefault(d[0], d[1])
		}
	}
	reset()
	defer reset()
	r.Shuffle(len(sets), func(i, j int) { sets[i], sets[j] = sets[j], sets[i] })
	k := 3 + r.Intn(len(sets)-2)
	chosen := sets[:k]
	for _, s := range chosen {
		driver.SetVariableDefault(s[0], s[1])
	}
	want := driver.VerifCurrentConfig()
	res := harness.Result{NonTrivial: true, Sig: fmt.Sprint("options", c.Index), Sample: map[string]any{"assignments": fmt.Sprint(chosen), "serial_result": want}}
	for trial := 0; trial < 40; trial++ {
		reset()
		var wg sync.WaitGroup
		var st stamps
		gate := make(chan struct{})
		for _, s := range chosen {
			wg.Add(1)
			go func(s [2]string) {
				defer wg.Done()
				<-gate
				st.do(func() { driver.SetVariableDefault(s[0], s[1]) })
			}(s)
		}
		// readers at the same time
		stop := make(chan struct{})
		var rg sync.WaitGroup
		rg.Add(1)
		go func() {
			defer rg.Done()
			for {
				select {
				case <-stop:
					return
				default:
					_ = driver.VerifCurrentConfig()
				}
			}
		}()
		close(gate)
		wg.Wait()
		close(stop)
		rg.Wait()
		c.Stat("option_assignments", int64(k))
		c.Stat("option_overlaps", int64(st.overlaps()))
		if got := driver.VerifCurrentConfig(); got != want {
			res.Verdict = harness.Violated
			res.Detail = fmt.Sprintf("%d assignments to different options made concurrently (%v): options in effect afterwards %q, made one after the other %q (an assignment was lost)", k, chosen, got, want)
			return res
		}
	}
	return res
}

// symbolizer tool access through the nm-backed symbol table (fast symbolization): many goroutines
// look up addresses of different symbols in one object file at once
func runToolsNM(c *harness.Ctx) harness.Result {
	r := c.Rng
	tools := filepath.Join(c.Tmp, "tools")
	os.MkdirAll(tools, 0o755)
	nsym := 20 + r.Intn(40)
	var tb strings.Builder
	for i := 0; i < nsym; i++ {
		fmt.Fprintf(&tb, "fn%d T %016x %016x\n", i, 0x400000+i*0x40, 0x40)
	}
	table := filepath.Join(c.Tmp, "table.txt")
	os.WriteFile(table, []byte(tb.String()), 0o644)
	os.WriteFile(filepath.Join(tools, "nm"), []byte("#!/bin/sh\ncat "+table+"\n"), 0o755)
	path := filepath.Join(c.Tmp, "img")
	if err := writeTinyELF(path); err != nil {
		return harness.Result{Verdict: harness.Inconclusive, Detail: err.Error()}
	}
	bu := &binutils.Binutils{}
	bu.SetTools("nm:" + tools + ",llvm-symbolizer:/nonexistent,addr2line:/nonexistent,objdump:/nonexistent")
	bu.SetFastSymbolization(true)
	f, err := bu.Open(path, 0x400000, 0x403000, 0, "")
	if err != nil {
		return harness.Violation("Open: %v", err)
	}
	defer f.Close()
	res := harness.Result{NonTrivial: true, Sig: fmt.Sprint("tools-nm", c.Index), Sample: map[string]any{"symbols": nsym}}
	var wg sync.WaitGroup
	var bad atomic.Value
	var st stamps
	for g := 0; g < 8; g++ {
		wg.Add(1)
		seed := r.Int63()
		go func(g int, seed int64) {
			defer wg.Done()
			rr := rand.New(rand.NewSource(seed))
			for k := 0; k < 300; k++ {
				i := rr.Intn(nsym)
				addr := uint64(0x400000 + i*0x40 + rr.Intn(0x40))
				lookup := func() {
					fr, err := f.SourceLine(addr)
					want := fmt.Sprintf("fn%d", i)
					if err != nil || len(fr) != 1 || fr[0].Func != want {
						bad.Store(fmt.Sprintf("concurrent SourceLine(%#x) through the nm table returned %v (err=%v); the address lies in %s", addr, fr, err, want))
					}
				}
				if k%50 == 0 {
					st.do(lookup)
				} else {
					lookup()
				}
			}
		}(g, seed)
	}
	wg.Wait()
	c.Stat("nm_lookups", 8*300)
	if v := bad.Load(); v != nil {
		res.Verdict, res.Detail = harness.Violated, v.(string)
	}
	return res
}

// saved copies of remote profiles: forty invocations in a row, each fetching two URL sources and
// saving the merged profile under the next free name of the numbered sequence, while six other
// creators keep creating, checking and removing files of the same sequence in the same directory
func runSaves(c *harness.Ctx) harness.Result {
	r := c.Rng
	drv.IsolateEnv(c.Tmp)
	bodies := map[string][]byte{}
	var urls []string
	for i := 0; i < 2; i++ {
		p := c10.GenProfile(rand.New(rand.NewSource(int64(r.Intn(7)))))
		for k := int64(1); p.SampleType[0].Type != "samples"; k++ {
			p = c10.GenProfile(rand.New(rand.NewSource(100 * k)))
		}
		var buf bytes.Buffer
		p.Write(&buf)
		host := fmt.Sprintf("h%d.test", i)
		bodies[host] = buf.Bytes()
		urls = append(urls, "http://"+host+"/pprof/heap")
	}
	savedRx := regexp.MustCompile(`^Saved profile in (.*)$`)
	res := harness.Result{NonTrivial: true, Sig: fmt.Sprint("saves", c.Index)}
	invoke := func() (string, string) {
		s := &drv.Session{Flags: &drv.Flags{Bools: map[string]bool{"top": true}, Strs: map[string]string{"output": "out", "symbolize": "none"}, Args: urls}, RoundTr: hostTransport(bodies), Obj: &binutils.Binutils{}}
		rr := s.Run()
		if rr.Panic != "" || rr.Err != nil {
			return "", fmt.Sprintf("fetch failed: %v %s %v", rr.Err, rr.Panic, s.UI.Errs)
		}
		for _, e := range s.UI.Errs {
			if m := savedRx.FindStringSubmatch(e); m != nil {
				return m[1], ""
			}
		}
		return "", fmt.Sprintf("no 'Saved profile in' message: %v", s.UI.Errs)
	}
	first, e := invoke()
	if e != "" {
		return harness.Violation("%s", e)
	}
	pm := regexp.MustCompile(`^(.*\.)[0-9]{3,}\.pb\.gz$`).FindStringSubmatch(filepath.Base(first))
	if pm == nil {
		return harness.Result{Verdict: harness.Inconclusive, Detail: "unexpected saved name " + first}
	}
	dir, prefix := filepath.Dir(first), pm[1]
	stop := make(chan struct{})
	var wg sync.WaitGroup
	var bad atomic.Value
	var created int64
	for g := 0; g < 6; g++ {
		wg.Add(1)
		go func(g int) {
			defer wg.Done()
			for k := 0; ; k++ {
				select {
				case <-stop:
					return
				default:
				}
				f, err := driver.VerifNewTempFile(dir, prefix, ".pb.gz")
				if err != nil {
					continue
				}
				token := fmt.Sprintf("creator %d file %d", g, k)
				f.WriteString(token)
				f.Close()
				atomic.AddInt64(&created, 1)
				runtime.Gosched()
				if b, err := os.ReadFile(f.Name()); err != nil || string(b) != token {
					bad.Store(fmt.Sprintf("%s was created exclusively by another creator, which wrote %q into it; it now holds %d other bytes (err=%v): a concurrent save replaced it", f.Name(), token, len(b), err))
				}
				os.Remove(f.Name())
			}
		}(g)
	}
	names := map[string]bool{first: true}
	msg := ""
	for it := 0; it < 40 && msg == "" && bad.Load() == nil; it++ {
		name, e := invoke()
		switch {
		case e != "":
			msg = e
		case names[name]:
			msg = fmt.Sprintf("two invocations report their profile as saved in the same file %s", name)
		default:
			names[name] = true
			if b, err := os.ReadFile(name); err != nil {
				msg = fmt.Sprintf("%s is reported as a saved profile but cannot be read: %v", name, err)
			} else if _, err := profile.ParseData(b); err != nil {
				msg = fmt.Sprintf("%s is reported as a saved profile but does not hold one (%d bytes: %q): %v", name, len(b), harness.Trunc(string(b), 60), err)
			}
		}
		c.Stat("saves.invocations", 1)
	}
	close(stop)
	wg.Wait()
	c.Stat("saves.files_of_other_creators", atomic.LoadInt64(&created))
	if v := bad.Load(); v != nil && msg == "" {
		msg = v.(string)
	}
	if msg != "" {
		res.Verdict, res.Detail = harness.Violated, msg
	}
	return res
}

// what pprof prints for the user while it fetches many sources at once: the real executable with
// its own terminal UI (messages go to standard error), 100-128 URL sources served by a loopback
// server. Every message arrives as a line of its own.
func runStderr(c *harness.Ctx) harness.Result {
	r := c.Rng
	exe := filepath.Join(os.Getenv("VERIF_BIN"), "pprof")
	if _, err := os.Stat(exe); err != nil {
		return harness.Result{Verdict: harness.Inconclusive, Detail: "pprof executable not built: " + err.Error()}
	}
	p := c10.GenProfile(rand.New(rand.NewSource(3)))
	var buf bytes.Buffer
	p.Write(&buf)
	body := buf.Bytes()
	srv := httptest.NewUnstartedServer(http.HandlerFunc(func(w http.ResponseWriter, _ *http.Request) { w.Write(body) }))
	srv.Config.ErrorLog = log.New(io.Discard, "", 0)
	func() {
		defer func() { recover() }()
		srv.Start()
	}()
	if srv.URL == "" {
		return harness.Result{Verdict: harness.Inconclusive, Detail: "cannot listen on the loopback interface"}
	}
	defer srv.Close()
	n := 100 + r.Intn(29)
	var urls []string
	for i := 0; i < n; i++ {
		urls = append(urls, fmt.Sprintf("%s/pprof/heap?src=%03d", srv.URL, i))
	}
	// What pprof prints is compared with what the same executable prints when it is given the same
	// command line a second time (own home directory, so that saved files get the same names): the
	// messages may come in another order, but as whole lines they are the same multiset. A message
	// torn by another thread's output gives lines that the other run does not have.
	saved := regexp.MustCompile(`\.[0-9]{3,}\.pb\.gz`)
	runOnce := func(tag string, traced bool) ([]string, string, error) {
		home := filepath.Join(c.Tmp, "home"+tag)
		os.MkdirAll(home, 0o755)
		argv := append([]string{exe, "-top", "-symbolize=none", "-output", filepath.Join(c.Tmp, "out.txt")}, urls...)
		if st, err := exec.LookPath("strace"); err == nil && traced {
			// under strace each write call is stopped and resumed, which spreads the threads' writes
			// in time the way a slow terminal does
			argv = append([]string{st, "-f", "-qq", "-o", "/dev/null", "-e", "trace=write"}, argv...)
			c.Stat("stderr_runs_under_strace", 1)
		}
		cmd := exec.Command(argv[0], argv[1:]...)
		cmd.Env = []string{"HOME=" + home, "XDG_CONFIG_HOME=" + home + "/config", "PPROF_TMPDIR=" + home + "/tmp", "PATH=/nonexistent"}
		var errb bytes.Buffer
		cmd.Stderr = &errb
		err := cmd.Run()
		text := strings.ReplaceAll(errb.String(), home, "<HOME>")
		text = drv.NormalizeTmpNames(saved.ReplaceAllString(text, ".NNN.pb.gz"))
		lines := strings.Split(strings.TrimSuffix(text, "\n"), "\n")
		sort.Strings(lines)
		return lines, errb.String(), err
	}
	a, rawA, err := runOnce("A", c.Index%2 == 0)
	if err != nil {
		return harness.Violation("pprof -top over %d URL sources failed: %v\n%s", n, err, harness.Trunc(rawA, 1500))
	}
	b, rawB, err := runOnce("B", false)
	if err != nil {
		return harness.Violation("pprof -top over %d URL sources failed: %v\n%s", n, err, harness.Trunc(rawB, 1500))
	}
	res := harness.Result{NonTrivial: true, Sig: fmt.Sprint("stderr", c.Index, n), Sample: map[string]any{"sources": n}}
	c.Stat("stderr_runs", 2)
	c.Stat("stderr_message_lines", int64(len(a)))
	inB := map[string]int{}
	for _, l := range b {
		inB[l]++
	}
	for _, l := range a {
		if inB[l] == 0 {
			res.Verdict = harness.Violated
			res.Detail = fmt.Sprintf("a line of what pprof printed while fetching %d sources is not one whole message (the same command line run again prints no such line): %q\nfirst run:\n%s", n, harness.Trunc(l, 300), harness.Trunc(rawA, 1200))
			return res
		}
		inB[l]--
	}
	if len(a) != len(b) {
		res.Verdict, res.Detail = harness.Violated, fmt.Sprintf("pprof printed %d lines while fetching %d sources and %d lines when given the same command line again\nfirst run:\n%s", len(a), n, len(b), harness.Trunc(rawA, 1200))
		return res
	}
	return res
}

// the terminal UI itself (what pprof uses when no UI plug-in is given), printing from eight
// goroutines at once the way parallel fetches and web handlers do: every message is a line of its
// own in what arrives on standard error. Runs in a child process whose standard error is a file.
func runStdUI(c *harness.Ctx) harness.Result {
	out := filepath.Join(c.Tmp, "stderr.txt")
	f, err := os.Create(out)
	if err != nil {
		return harness.Result{Verdict: harness.Inconclusive, Detail: err.Error()}
	}
	cmd := exec.Command(harness.Self(), "child", "c20stdui", fmt.Sprint(c.Rng.Int63()))
	cmd.Stderr = f
	err = cmd.Run()
	f.Close()
	if err != nil {
		return harness.Result{Verdict: harness.Inconclusive, Detail: "child: " + err.Error()}
	}
	b, _ := os.ReadFile(out)
	res := harness.Result{NonTrivial: true, Sig: fmt.Sprint("stdui", c.Index)}
	rx := regexp.MustCompile(`^(fetching|error) [0-7] [0-9]+ http://host[0-7]\.test/debug/pprof/profile\?seconds=[0-9]+$`)
	n := 0
	for i, l := range strings.Split(strings.TrimSuffix(string(b), "\n"), "\n") {
		if !rx.MatchString(l) {
			res.Verdict = harness.Violated
			res.Detail = fmt.Sprintf("line %d of what eight goroutines printed through pprof's terminal UI is not one whole message: %q", i+1, harness.Trunc(l, 300))
			return res
		}
		n++
	}
	c.Stat("stdui_lines", int64(n))
	if n != 8*1500 {
		res.Verdict, res.Detail = harness.Violated, fmt.Sprintf("%d lines arrived for %d messages", n, 8*1500)
	}
	return res
}

func stdUIChild(args []string) int {
	ui := driver.VerifStdUI()
	var wg sync.WaitGroup
	for g := 0; g < 8; g++ {
		wg.Add(1)
		go func(g int) {
			defer wg.Done()
			for k := 0; k < 1500; k++ {
				msg := fmt.Sprintf("%d %d http://host%d.test/debug/pprof/profile?seconds=%d", g, k, g, k%30)
				if k%2 == 0 {
					ui.Print("fetching ", msg)
				} else {
					ui.PrintErr("error ", msg)
				}
			}
		}(g)
	}
	wg.Wait()
	return 0
}

// perf.data sources: pprof converts each of them with the external perf_to_profile tool into a
// temporary file of the numbered sequence, several at a time. A stand-in converter (a shell script
// that takes its time) writes a profile that names its input; every source must be in the merged
// report exactly once.
func runPerf(c *harness.Ctx) harness.Result {
	r := c.Rng
	drv.IsolateEnv(c.Tmp)
	tools := filepath.Join(c.Tmp, "perftools")
	os.MkdirAll(tools, 0o755)
	script := "#!/bin/sh\nwhile [ $# -gt 0 ]; do case \"$1\" in -i) in=$2; shift;; -o) out=$2; shift;; esac; shift; done\nsrc=$(tail -c +9 \"$in\")\nsleep 0.0$(( $$ % 7 ))\ncat \"$src\" > \"$out\"\n"
	os.WriteFile(filepath.Join(tools, "perf_to_profile"), []byte(script), 0o755)
	oldPath := os.Getenv("PATH")
	os.Setenv("PATH", tools+":/usr/bin:/bin")
	defer os.Setenv("PATH", oldPath)
	n := 4 + r.Intn(9)
	var srcs []string
	want := map[string]int64{}
	for i := 0; i < n; i++ {
		name := fmt.Sprintf("perfsrc%02d", i)
		fn := &profile.Function{ID: 1, Name: name, SystemName: name, Filename: "x.c"}
		loc := &profile.Location{ID: 1, Address: 0x1000 + uint64(i)*16, Line: []profile.Line{{Function: fn, Line: 1}}}
		p := &profile.Profile{SampleType: []*profile.ValueType{{Type: "samples", Unit: "count"}}, PeriodType: &profile.ValueType{Type: "cpu", Unit: "ns"}, Period: 1,
			Function: []*profile.Function{fn}, Location: []*profile.Location{loc}, Sample: []*profile.Sample{{Value: []int64{int64(i + 1)}, Location: []*profile.Location{loc}}}}
		pb := filepath.Join(c.Tmp, name+".pb.gz")
		f, err := os.Create(pb)
		if err != nil {
			return harness.Result{Verdict: harness.Inconclusive, Detail: err.Error()}
		}
		p.Write(f)
		f.Close()
		perf := filepath.Join(c.Tmp, name+".perf.data")
		os.WriteFile(perf, []byte("PERFILE2"+pb), 0o644)
		srcs = append(srcs, perf)
		want[name] = int64(i + 1)
	}
	res := harness.Result{NonTrivial: true, Sig: fmt.Sprint("perf", n, c.Index), Sample: map[string]any{"perf_sources": n}}
	s := &drv.Session{Flags: &drv.Flags{Bools: map[string]bool{"top": true, "functions": true, "flat": true, "trim": false}, Ints: map[string]int{"nodecount": 0}, Strs: map[string]string{"output": "out", "symbolize": "none"}, Args: srcs}}
	rr := s.Run()
	c.Stat("perf_conversions", int64(n))
	if rr.Panic != "" {
		return harness.Violation("pprof over %d perf.data sources panicked: %s", n, rr.Panic)
	}
	out := ""
	if bf := s.Writer.Files["out"]; bf != nil {
		out = bf.String()
	}
	_, rows, err := parse.Top(out)
	got := map[string]int64{}
	if err == nil {
		for _, x := range rows {
			got[x.Name] += x.Flat
		}
	}
	if rr.Err != nil || fmt.Sprint(got) != fmt.Sprint(want) {
		res.Verdict = harness.Violated
		res.Detail = fmt.Sprintf("%d perf.data sources, each converted to a profile that names it: the merged report has %v, expected %v (error: %v; messages: %v)", n, got, want, rr.Err, s.UI.Errs)
	}
	return res
}

func writeTinyELF(path string) error {
	// ELF64 header + one PT_LOAD (R+X) at 0x400000, little endian
	h := make([]byte, 64+56)
	copy(h, []byte{0x7f, 'E', 'L', 'F', 2, 1, 1})
	put16 := func(o int, v uint16) { h[o], h[o+1] = byte(v), byte(v>>8) }
	put32 := func(o int, v uint32) {
		for i := 0; i < 4; i++ {
			h[o+i] = byte(v >> (8 * uint(i)))
		}
	}
	put64 := func(o int, v uint64) {
		for i := 0; i < 8; i++ {
			h[o+i] = byte(v >> (8 * uint(i)))
		}
	}
	put16(16, 2)  // ET_EXEC
	put16(18, 62) // EM_X86_64
	put32(20, 1)
	put64(32, 64) // phoff
	put16(52, 64) // ehsize
	put16(54, 56) // phentsize
	put16(56, 1)  // phnum
	put16(58, 64) // shentsize
	ph := 64
	put32(ph, 1)   // PT_LOAD
	put32(ph+4, 5) // R+X
	put64(ph+8, 0)
	put64(ph+16, 0x400000)
	put64(ph+24, 0x400000)
	put64(ph+32, 0x3000)
	put64(ph+40, 0x3000)
	put64(ph+48, 0x1000)
	return os.WriteFile(path, h, 0o644)
}

var _ = io.Discard
var _ = sort.Strings
var _ = time.Now

func init() {
	harness.Children["c20temp"] = tempChild
	harness.Children["c20first"] = firstWebChild
	harness.Children["c20stdui"] = stdUIChild
	harness.Register(&harness.Check{
		ID:          "C20",
		Level:       "exploration",
		Race:        true,
		Rule:        "all workers are built with -race (GORACE halt_on_error=0, reports collected from the log files and de-duplicated by the functions on top of both stacks; any report is a violation). Workloads, each compared with its sequential twin: codec (8-32 goroutines x Write / WriteUncompressed / Copy / String on one profile, plus a merged profile and its compaction serialized at the same time; bytes must equal the sequential ones), web (4-11 clients mixing /top /peek /flamegraph /source /disasm /download / with /saveconfig and /deleteconfig against one server while 2 writers flip an option through SetVariableDefault; every response must equal a sequential response for one of the option values written, Config menu excluded), fetch (2-300 sources fetched in parallel through the gated fetcher with a shared Binutils object tool; two completion orders must agree, and the same profiles served over HTTP to pprof's own fetcher, ungated, with per-source seconds= parameters must give the same report), temp (32 goroutines x 4 and 6 processes x 12 temporary files in one directory: names distinct, contents intact), tools (6-11 goroutines x 8 SourceLine calls on one object file behind an interposed symbolizer that echoes its question, while SetTools / SetFastSymbolization / Open race), firstweb (a fresh child process whose first 4-11 web requests are released together by a barrier, each compared with the same request repeated alone), tools-addr2line (4-9 goroutines x 8 SourceLine calls through one interposed GNU-addr2line process that answers one of the lookups with a diagnostic line: every call returns an answer that pairs with its question, nothing, or an error). options (3-10 assignments to different options made at the same moment by as many goroutines, 40 trials, while a reader polls the configuration: every assignment must be in effect afterwards), setters (SetFastSymbolization issued while SetTools probes an interposed slow objdump: the final state must be the one of either serial order). A case that does not finish within 2 min in 3 of 3 fresh worker processes is a deadlock (violation, goroutine dump attached). Every workload records call/return stamps from one clock and reports the number of really overlapping operation pairs. Further parts: tls (parallel https fetches through pprof's own transport, unsequenced), tools-nm (nm-backed symbol lookups on one object file from several goroutines), saves (remote profiles saved while other creators make files of the same numbered sequence: nothing overwritten), stderr (the real executable with many URL sources: every message line intact), stdui (pprof's terminal UI printing from eight goroutines: lines never interleave), perf (2-6 perf.data sources converted by a stand-in perf_to_profile at the same time: each source ends up with its own conversion), fetch with base lists next to the sources (up to 300 + 300). non-trivial = every case; distinct = case",
		Assumptions: []string{"the race detector only sees accesses that happen in these runs", "several goroutines symbolizing through one nm-backed object file is exercised by part tools-nm (pprof itself does not do it; the object file interface is otherwise safe for it)"},
		Parts: []harness.Part{
			{Name: "codec", Quick: 60, Thor: 3000, Run: runCodec},
			{Name: "web", Quick: 40, Thor: 2000, Run: runWeb},
			{Name: "fetch", Quick: 20, Thor: 600, Run: runFetch},
			{Name: "temp", Quick: 10, Thor: 300, Run: runTemp},
			{Name: "tools", Quick: 20, Thor: 600, Run: runTools},
			{Name: "firstweb", Quick: 16, Thor: 400, Run: runFirstWeb},
			{Name: "tools-addr2line", Quick: 16, Thor: 400, Run: runToolsA2L},
			{Name: "setters", Quick: 8, Thor: 100, Run: runSetters},
			{Name: "options", Quick: 16, Thor: 400, Run: runOptions},
			{Name: "tls", Quick: 16, Thor: 400, Run: c16.RunTLSFree},
			{Name: "tools-nm", Quick: 12, Thor: 300, Run: runToolsNM},
			{Name: "saves", Quick: 12, Thor: 300, Run: runSaves},
			{Name: "stderr", Quick: 6, Thor: 100, Run: runStderr},
			{Name: "stdui", Quick: 6, Thor: 200, Run: runStdUI},
			{Name: "perf", Quick: 10, Thor: 300, Run: runPerf},
		},
		CaseTimeout:   2 * time.Minute,
		HangTries:     3,
		Workers:       8,
		MinNonTrivial: func(string) int { return 100 },
		Finish: func(tier string, st map[string]int64) string {
			for _, k := range []string{"codec_overlaps", "web_overlaps", "temp_overlaps", "tool_overlaps"} {
				if st[k] == 0 {
					return "no overlapping operations observed for " + k
				}
			}
			return ""
		},
	})
}
