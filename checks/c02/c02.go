// Package c02 monitors totality of parsing: for any bytes, an error or a valid profile,
// no panic, bounded allocation, and every downstream operation works on what was returned.
package c02

import (
	"bytes"
	"compress/gzip"
	"encoding/binary"
	"fmt"
	"io"
	"math/rand"
	"os"
	"os/exec"
	"path/filepath"
	"regexp"
	"runtime"
	"sort"
	"strings"
	"sync"
	"time"

	"github.com/google/pprof/internal/report"
	"github.com/google/pprof/profile"
	"github.com/google/pprof/verif/checks/c01"
	"github.com/google/pprof/verif/internal/harness"
	"github.com/google/pprof/verif/internal/legacy"
	"github.com/google/pprof/verif/internal/mon"
	"github.com/google/pprof/verif/internal/wire"
)

// Allocation bound (bytes) for ParseData: c1*(len(input)+len(gunzipped)) + c0.
// Calibrated on the unchanged tree (max observed ratio ~190 B/B on inputs made of 2-byte
// empty sub-messages) with ~8x head-room; this is a deterministic proxy for "terminates
// promptly", not a wall-clock measure.
const (
	allocC1 = 1024
	allocC0 = 3 << 20
)

var formats = []int{report.Text, report.Tree, report.Dot, report.Traces, report.Tags, report.Callgrind, report.TopProto, report.Raw, report.Comments}

// Exercise applies the oracle to one input. It returns a violation message or "".
func Exercise(data []byte, c *harness.Ctx) (msg string) {
	defer func() {
		if r := recover(); r != nil {
			buf := make([]byte, 4096)
			buf = buf[:runtime.Stack(buf, false)]
			msg = fmt.Sprintf("PANIC: %v\n%s", r, buf)
		}
	}()
	gz := 0
	if len(data) > 2 && data[0] == 0x1f && data[1] == 0x8b {
		if zr, err := gzip.NewReader(bytes.NewReader(data)); err == nil {
			n, _ := io.Copy(io.Discard, io.LimitReader(zr, 64<<20))
			gz = int(n)
		}
	}
	var m0, m1 runtime.MemStats
	runtime.ReadMemStats(&m0)
	p, perr := profile.ParseData(data)
	runtime.ReadMemStats(&m1)
	alloc := m1.TotalAlloc - m0.TotalAlloc
	if lim := uint64(allocC1*(len(data)+gz) + allocC0); alloc > lim {
		return fmt.Sprintf("ParseData allocated %d bytes for an input of %d bytes (%d after gunzip); bound %d", alloc, len(data), gz, lim)
	}
	if c != nil {
		c.Max("parse_alloc_bytes", int64(alloc))
		if len(data)+gz >= 2000 {
			c.Max("parse_alloc_per_input_byte_for_inputs_over_2000B", int64(alloc)/int64(len(data)+gz))
		}
	}
	if perr != nil {
		if p != nil {
			return "ParseData returned both a profile and an error: " + perr.Error()
		}
		if c != nil {
			c.Stat("rejected", 1)
		}
		return ""
	}
	if p == nil {
		return "ParseData returned neither profile nor error"
	}
	if c != nil {
		c.Stat("accepted", 1)
	}
	if err := mon.Valid(p); err != nil {
		return "ParseData returned an invalid profile: " + err.Error()
	}
	var b bytes.Buffer
	if err := p.Write(&b); err != nil {
		return "Write of a parsed profile failed: " + err.Error()
	}
	b.Reset()
	if err := p.WriteUncompressed(&b); err != nil {
		return "WriteUncompressed of a parsed profile failed: " + err.Error()
	}
	_ = p.String()
	cp := p.Copy()
	cc := cp.Compact()
	if err := mon.Valid(cc); err != nil {
		return "Compact of a parsed profile is invalid: " + err.Error()
	}
	// what Compact and Merge hand back is written and copied like any other profile
	b.Reset()
	if err := cc.WriteUncompressed(&b); err != nil {
		return "WriteUncompressed of the compacted copy failed: " + err.Error()
	}
	if _, err := profile.ParseData(b.Bytes()); err != nil {
		return "the compacted copy does not parse back: " + err.Error()
	}
	_ = cc.Copy()
	if mg, err := profile.Merge([]*profile.Profile{p, cp}); err == nil {
		b.Reset()
		if err := mg.WriteUncompressed(&b); err != nil {
			return "WriteUncompressed of Merge(p, copy of p) failed: " + err.Error()
		}
		_ = mg.Copy()
	} else {
		return "Merge of a parsed profile with its own copy failed: " + err.Error()
	}
	// anything the parser returns survives write-then-parse unchanged (C01 part 4)
	if msg, ok := c01.RoundTrip(p, "accepted input"); !ok {
		return msg
	}
	if len(p.SampleType) > 0 {
		for _, fm := range formats {
			for _, variant := range []int{0, 1, 2} {
				o := report.Options{OutputFormat: fm, SampleValue: func(v []int64) int64 { return v[0] }, SampleUnit: p.SampleType[0].Unit}
				if variant == 1 {
					o.NodeFraction, o.EdgeFraction, o.NodeCount, o.CumSort = 0.01, 0.01, 3, true
				}
				if variant == 2 {
					// -mean on the last sample type: the first column is the divisor (zeros included)
					last := len(p.SampleType) - 1
					o.SampleValue = func(v []int64) int64 { return v[last] }
					o.SampleMeanDivisor = func(v []int64) int64 { return v[0] }
					o.SampleUnit = p.SampleType[last].Unit
				}
				q := p.Copy()
				if variant == 1 {
					q.Aggregate(true, true, true, true, true, true)
				} else {
					q.Aggregate(true, true, false, false, false, false)
				}
				rpt := report.New(q, &o)
				if err := report.Generate(io.Discard, rpt, nil); err != nil && c != nil {
					c.Stat("report.errors", 1)
				}
				if c != nil {
					c.Stat("reports", 1)
				}
			}
		}
		o := report.Options{OutputFormat: report.Tree, Symbol: regexp.MustCompile("."), SampleValue: func(v []int64) int64 { return v[0] }}
		report.Generate(io.Discard, report.New(p.Copy(), &o), nil)
	}
	return ""
}

// ---- input sources -------------------------------------------------------------------

var corpusOnce sync.Once
var legacyCorpus [][]byte
var protoCorpus [][]byte

func repoDir() string {
	if d := os.Getenv("VERIF_REPO"); d != "" {
		return d
	}
	return "/repo"
}

func loadCorpus() {
	corpusOnce.Do(func() {
		var files []string
		for _, dir := range []string{"profile/testdata", "internal/driver/testdata", "fuzz/testdata"} {
			filepath.Walk(filepath.Join(repoDir(), dir), func(path string, info os.FileInfo, err error) error {
				if err == nil && !info.IsDir() && info.Size() < 64<<10 && !strings.HasSuffix(path, ".string") {
					files = append(files, path)
				}
				return nil
			})
		}
		sort.Strings(files)
		for _, f := range files {
			b, err := os.ReadFile(f)
			if err != nil || len(b) == 0 {
				continue
			}
			if len(b) > 2 && b[0] == 0x1f && b[1] == 0x8b {
				protoCorpus = append(protoCorpus, b)
			} else {
				legacyCorpus = append(legacyCorpus, b)
			}
		}
	})
}

func smallCodec(r *rand.Rand) []byte {
	for {
		if b := smallCodec1(r); len(b) <= 1<<16 {
			return b // base inputs stay small: C01 owns the size classes
		}
	}
}

func smallCodec1(r *rand.Rand) []byte {
	p := c01.GenCodec(r)
	for _, s := range p.Sample {
		for i := range s.Value {
			if r.Intn(3) > 0 {
				s.Value[i] %= 1000
			}
		}
	}
	var b bytes.Buffer
	p.WriteUncompressed(&b)
	return b.Bytes()
}

// structural mutation on the wire tree
func mutateTree(r *rand.Rand, b []byte, depth int) []byte {
	fs, err := wire.Decode(b)
	if err != nil || len(fs) == 0 {
		return b
	}
	i := r.Intn(len(fs))
	f := &fs[i]
	switch r.Intn(10) {
	case 0: // descend
		if f.WT == 2 && depth < 3 {
			f.Data = mutateTree(r, f.Data, depth+1)
		} else {
			f.V ^= 1 << uint(r.Intn(64))
		}
	case 1: // varint value games
		if f.WT == 0 {
			f.V = []uint64{0, 1, ^uint64(0), 1 << 63, 1 << 32, uint64(r.Intn(64)), f.V + 1, f.V - 1}[r.Intn(8)]
		} else {
			f.Data = append([]byte(nil), f.Data...)
			if len(f.Data) > 0 {
				f.Data[r.Intn(len(f.Data))] ^= byte(1 << uint(r.Intn(8)))
			}
		}
	case 2: // wire type swap
		f.WT = []int{0, 1, 2, 5}[r.Intn(4)]
	case 3: // field number swap
		f.Num = 1 + r.Intn(16)
	case 4: // duplicate
		fs = append(fs, *f)
	case 5: // delete
		fs = append(fs[:i], fs[i+1:]...)
	case 6: // drop the whole string table
		var out []wire.Field
		for _, g := range fs {
			if g.Num != 6 {
				out = append(out, g)
			}
		}
		fs = out
	case 7: // swap order
		j := r.Intn(len(fs))
		fs[i], fs[j] = fs[j], fs[i]
	case 8: // nested damage: replace payload by soup
		if f.WT == 2 {
			f.Data = soup(r, r.Intn(12))
		}
	case 9: // id zero / huge inside sub message
		if f.WT == 2 {
			sub, err := wire.Decode(f.Data)
			if err == nil && len(sub) > 0 {
				k := r.Intn(len(sub))
				if sub[k].WT == 0 {
					sub[k].V = []uint64{0, ^uint64(0), 1 << 40, 999}[r.Intn(4)]
				}
				f.Data = wire.Encode(sub)
			}
		}
	}
	return wire.Encode(fs)
}

// random field soup over profile.proto's field numbers
func soup(r *rand.Rand, n int) []byte {
	var fs []wire.Field
	for i := 0; i < n; i++ {
		f := wire.Field{Num: 1 + r.Intn(16), WT: []int{0, 0, 2, 2, 2, 1, 5}[r.Intn(7)]}
		switch f.WT {
		case 0:
			f.V = []uint64{0, 1, 2, 3, uint64(r.Intn(10)), ^uint64(0), 1 << 62}[r.Intn(7)]
		case 2:
			switch r.Intn(4) {
			case 0:
				f.Data = soup(r, r.Intn(5))
			case 1:
				f.Data = []byte(gen(r))
			case 2:
				var d []byte
				for j, m := 0, r.Intn(6); j < m; j++ {
					d = wire.PutUvarint(d, uint64(r.Intn(8)))
				}
				f.Data = d
			}
		default:
			f.V = r.Uint64()
		}
		fs = append(fs, f)
	}
	return wire.Encode(fs)
}

func gen(r *rand.Rand) string {
	return []string{"", "a", "main", "\xff\xfe", "bytes", "x\x00"}[r.Intn(6)]
}

func byteMutate(r *rand.Rand, base []byte) []byte {
	d := append([]byte{}, base...)
	if len(d) == 0 {
		return d
	}
	switch r.Intn(8) {
	case 0:
		d = d[:r.Intn(len(d))]
	case 1:
		d[r.Intn(len(d))] ^= byte(1 << uint(r.Intn(8)))
	case 2:
		d[r.Intn(len(d))] = byte(r.Intn(256))
	case 3:
		i := r.Intn(len(d))
		d = append(d[:i], append([]byte{0xff, 0xff, 0xff, 0xff, 0x0f}, d[i:]...)...)
	case 4:
		i, j := r.Intn(len(d)), r.Intn(len(d))
		if i > j {
			i, j = j, i
		}
		d = append(d[:i], d[j:]...)
	case 5:
		d = append(d, base[:r.Intn(len(base)+1)]...)
	case 6: // length prefix +-1 somewhere: find a byte equal to a plausible length and nudge it
		i := r.Intn(len(d))
		d[i] += byte(r.Intn(3)) - 1
	case 7:
		i := r.Intn(len(d))
		d = append(d[:i], append([]byte{0x80, 0x80, 0x80, 0x80, 0x80, 0x80, 0x80, 0x80, 0x80, 0x80, 0x01}, d[i:]...)...)
	}
	return d
}

var mapLineRx = regexp.MustCompile(`^\s*[0-9a-f]+-[0-9a-f]+[: ]`)
var numRx = regexp.MustCompile(`-?\b(0x[0-9a-fA-F]+|\d+)\b`)

// token-level mutation of legacy text
func textMutate(r *rand.Rand, doc []byte) []byte {
	lines := strings.Split(string(doc), "\n")
	for k, n := 0, 1+r.Intn(3); k < n; k++ {
		if len(lines) == 0 {
			break
		}
		i := r.Intn(len(lines))
		switch r.Intn(13) {
		case 12: // the memory map holds nothing but one to three adjacent huge-page pieces
			for j, l := range lines {
				if strings.Contains(l, "MAPPED_LIBRARIES:") || strings.Contains(l, "Memory map:") {
					lines = lines[:j]
					break
				}
			}
			lines = append(lines, "MAPPED_LIBRARIES:")
			at := uint64(0x400000)
			for k, n := 0, 1+r.Intn(3); k < n; k++ {
				sz := uint64(1+r.Intn(4)) << 21
				perm := "r-xp"
				if k > 0 && r.Intn(4) == 0 {
					perm = "rw-p"
				}
				lines = append(lines, fmt.Sprintf("%08x-%08x %s 00000000 00:00 0 /anon_hugepage%s", at, at+sz, perm, []string{"", " (deleted)"}[r.Intn(2)]))
				at += sz
			}
		case 11: // the first record of the document refers to a previous one / is empty
			for j, l := range lines {
				if strings.Contains(l, "stack: ---") || strings.HasPrefix(l, "--- Thread") {
					k := j + 1
					for k < len(lines) && !strings.HasPrefix(lines[k], "---") {
						k++
					}
					repl := []string{"  [same as previous thread]"}
					if r.Intn(2) == 0 {
						repl = nil
					}
					lines = append(append(append([]string{}, lines[:j+1]...), repl...), lines[k:]...)
					break
				}
			}
		case 10: // blank or whitespace-only line near the top (headers and their continuation lines)
			j := r.Intn(min(len(lines), 6) + 1)
			ws := []string{"", " ", "\t", "\r", "  \t "}[r.Intn(5)]
			lines = append(lines[:j], append([]string{ws}, lines[j:]...)...)
		case 9: // memory-map entry with an odd object name
			names := []string{"(deleted)", " (deleted)", "", "[vdso]", "/anon_hugepage (deleted)", "/anon_hugepage", "[heap]", "//anon", "a b c", "/x/y (deleted)", "(", "\x00"}
			if mapLineRx.MatchString(lines[i]) {
				f := strings.Fields(lines[i])
				lines[i] = strings.Join(f[:len(f)-1], " ") + " " + names[r.Intn(len(names))]
			} else {
				lines = append(lines, "MAPPED_LIBRARIES:", "00400000-00500000 r-xp 00000000 00:00 0 "+names[r.Intn(len(names))], "00600000-00700000 r-xp 00000000 00:00 0 /bin/x")
			}
		case 0: // number games
			locs := numRx.FindAllStringIndex(lines[i], -1)
			if len(locs) > 0 {
				l := locs[r.Intn(len(locs))]
				repl := []string{"0", "-1", "99999999999999999999999", "18446744073709551615", "9223372036854775807", "-9223372036854775808", "abc", "0x", "0xffffffffffffffff", "1e9", ""}[r.Intn(11)]
				lines[i] = lines[i][:l[0]] + repl + lines[i][l[1]:]
			}
		case 1: // delete line
			lines = append(lines[:i], lines[i+1:]...)
		case 2: // duplicate line
			lines = append(lines[:i], append([]string{lines[i]}, lines[i:]...)...)
		case 3: // swap lines
			j := r.Intn(len(lines))
			lines[i], lines[j] = lines[j], lines[i]
		case 4: // CRLF
			lines[i] += "\r"
		case 5: // truncate line
			if len(lines[i]) > 0 {
				lines[i] = lines[i][:r.Intn(len(lines[i]))]
			}
		case 6: // remove sentinel words
			for _, w := range []string{"MAPPED_LIBRARIES:", "heap profile:", "--- ", "@", "cycles/second", "sampling period"} {
				if strings.Contains(lines[i], w) {
					lines[i] = strings.Replace(lines[i], w, "", 1)
					break
				}
			}
		case 7: // insert junk line
			junk := []string{"", "#", "---", "@ 0x1", "1: 2 [3: 4] @", "MAPPED_LIBRARIES:", "00400000-00401000 r-xp 00000000 00:00 0 /bin/x", "--- threadz 1 ---", "heap profile: 1: 2 [3: 4] @ heap_v2/0"}[r.Intn(9)]
			lines = append(lines[:i], append([]string{junk}, lines[i:]...)...)
		case 8: // truncate document
			lines = lines[:i]
		}
	}
	return []byte(strings.Join(lines, "\n"))
}

// binary CPU profile with hostile counts
func cpuBinary(r *rand.Rand) []byte {
	var order binary.ByteOrder = binary.LittleEndian
	if r.Intn(2) == 0 {
		order = binary.BigEndian
	}
	ws := 8
	if r.Intn(2) == 0 {
		ws = 4
	}
	var b bytes.Buffer
	put := func(v uint64) {
		if ws == 8 {
			var x [8]byte
			order.PutUint64(x[:], v)
			b.Write(x[:])
		} else {
			var x [4]byte
			order.PutUint32(x[:], uint32(v))
			b.Write(x[:])
		}
	}
	hdr := []uint64{0, 3, 0, uint64(1 + r.Intn(10000)), 0}
	if r.Intn(6) == 0 {
		hdr[r.Intn(5)] = uint64(r.Intn(5))
	}
	for _, v := range hdr {
		put(v)
	}
	for i, n := 0, r.Intn(6); i < n; i++ {
		cnt := uint64(1 + r.Intn(5))
		depth := uint64(1 + r.Intn(5))
		hostile := r.Intn(8)
		switch hostile {
		case 0:
			depth = []uint64{0, 1 << 20, 1 << 31, ^uint64(0), 1 << 40}[r.Intn(5)]
		case 1:
			cnt = []uint64{0, ^uint64(0), 1 << 63}[r.Intn(3)]
		}
		put(cnt)
		put(depth)
		real := depth
		if real > 6 {
			real = uint64(r.Intn(6))
		}
		for j := uint64(0); j < real; j++ {
			put(uint64(0x400000 + r.Intn(4)*0x10))
		}
	}
	if r.Intn(3) > 0 {
		put(0)
		put(1)
		put(0)
	}
	if r.Intn(2) == 0 {
		b.WriteString("00400000-00500000 r-xp 00000000 00:00 0 /bin/prog\n")
	}
	return b.Bytes()
}

func gz(b []byte) []byte {
	var z bytes.Buffer
	w := gzip.NewWriter(&z)
	w.Write(b)
	w.Close()
	return z.Bytes()
}

func gunzip(b []byte) []byte {
	zr, err := gzip.NewReader(bytes.NewReader(b))
	if err != nil {
		return nil
	}
	out, _ := io.ReadAll(zr)
	return out
}

func gzipWrap(r *rand.Rand, b []byte) []byte {
	switch r.Intn(6) {
	case 0:
		return gz(b)
	case 1:
		z := gz(b)
		return z[:r.Intn(len(z))]
	case 2:
		z := gz(b)
		if len(z) > 12 {
			z[10+r.Intn(len(z)-10)] ^= 0x55
		}
		return z
	case 3:
		return gz(gz(b))
	case 4:
		return gz(b)[:10]
	default:
		return append(gz(b), b...)
	}
}

func buildInputs(kind string, r *rand.Rand) (inputs [][]byte, what []string) {
	loadCorpus()
	add := func(b []byte, w string) { inputs = append(inputs, b); what = append(what, w) }
	switch kind {
	case "wire":
		base := smallCodec(r)
		if len(protoCorpus) > 0 && r.Intn(6) == 0 {
			if g := gunzip(protoCorpus[r.Intn(len(protoCorpus))]); len(g) > 0 && len(g) < 20000 {
				base = g
			}
		}
		add(base, "valid encoding")
		if r.Intn(8) == 0 {
			// hand-encoded: one sample whose stack alone is a message of about 16 KiB (the length
			// prefix of an embedded message grows from two to three bytes at 16384)
			depth := []int{16300, 16381, 16384, 16390, 20000}[r.Intn(5)]
			ids := make([]byte, depth)
			for i := range ids {
				ids[i] = 1
			}
			sample := wire.Encode([]wire.Field{{Num: 1, WT: 2, Data: ids}, {Num: 2, WT: 2, Data: []byte{5}}})
			msg := wire.Encode([]wire.Field{
				{Num: 1, WT: 2, Data: wire.Encode([]wire.Field{{Num: 1, WT: 0, V: 1}, {Num: 2, WT: 0, V: 2}})},
				{Num: 2, WT: 2, Data: sample},
				{Num: 4, WT: 2, Data: wire.Encode([]wire.Field{{Num: 1, WT: 0, V: 1}, {Num: 3, WT: 0, V: 0x1000}})},
				{Num: 6, WT: 2, Data: nil}, {Num: 6, WT: 2, Data: []byte("samples")}, {Num: 6, WT: 2, Data: []byte("count")},
			})
			add(msg, fmt.Sprintf("valid encoding with a stack of %d frames", depth))
		}
		for k := 0; k < 24; k++ {
			m := base
			for j, n := 0, 1+r.Intn(3); j < n; j++ {
				m = mutateTree(r, m, 0)
			}
			add(m, "tree mutant")
		}
		for k := 0; k < 12; k++ {
			add(byteMutate(r, base), "byte mutant")
		}
		if len(base) <= 300 {
			for i := 0; i < len(base); i++ {
				add(base[:i], "truncation")
			}
		}
	case "soup":
		for k := 0; k < 30; k++ {
			add(soup(r, r.Intn(14)), "field soup")
		}
	case "legacy":
		var doc []byte
		if len(legacyCorpus) > 0 && r.Intn(3) == 0 {
			doc = legacyCorpus[r.Intn(len(legacyCorpus))]
		} else {
			doc, _ = legacy.RandomDoc(r)
		}
		add(doc, "legacy document")
		for k := 0; k < 20; k++ {
			add(textMutate(r, doc), "legacy text mutant")
		}
		for k := 0; k < 6; k++ {
			add(byteMutate(r, doc), "legacy byte mutant")
		}
	case "cpubin":
		for k := 0; k < 20; k++ {
			b := cpuBinary(r)
			add(b, "binary cpu")
			add(byteMutate(r, b), "binary cpu mutant")
		}
	case "wrap":
		base := smallCodec(r)
		other := soup(r, 5)
		if len(legacyCorpus) > 0 {
			other = legacyCorpus[r.Intn(len(legacyCorpus))]
			if len(other) > 3000 {
				other = other[:3000]
			}
		}
		for k := 0; k < 6; k++ {
			add(gzipWrap(r, base), "gzip wrapper")
			add(gzipWrap(r, other), "gzip wrapper of other")
		}
		add(append(append([]byte{}, base...), base...), "concatenation")
		add(append(append([]byte{}, base...), other...), "concatenation with other")
		add(append(append([]byte{}, other...), base...), "concatenation other first")
		add(append(gz(base), gz(base)...), "two gzip members")
	}
	return inputs, what
}

func runInputs(kind string) func(c *harness.Ctx) harness.Result {
	return func(c *harness.Ctx) harness.Result {
		inputs, what := buildInputs(kind, c.Rng)
		res := harness.Result{NonTrivial: true, Sig: fmt.Sprintf("%s/%d/%d", kind, len(inputs), len(inputs[0]))}
		res.Sample = map[string]any{"kind": kind, "inputs": len(inputs), "first_input_hex": fmt.Sprintf("%x", trunc(inputs[0], 60))}
		for i, in := range inputs {
			if len(in) > 1<<20 {
				continue
			}
			c.Stat("inputs", 1)
			c.Stat("inputs."+kind, 1)
			if msg := Exercise(in, c); msg != "" {
				res.Verdict = harness.Violated
				res.Detail = fmt.Sprintf("%s (%s #%d): %s\ninput hex: %x", kind, what[i], i, msg, trunc(in, 2000))
				return res
			}
		}
		return res
	}
}

func trunc(b []byte, n int) []byte {
	if len(b) > n {
		return b[:n]
	}
	return b
}

// the real executable on hostile files: exit status 0..2, an error message whenever it fails, never
// a Go panic or fatal error on stderr
func runExe(c *harness.Ctx) harness.Result {
	r := c.Rng
	bin := filepath.Join(os.Getenv("VERIF_BIN"), "pprof")
	if _, err := os.Stat(bin); err != nil {
		return harness.Result{Verdict: harness.Inconclusive, Detail: "bin/pprof not built: " + err.Error()}
	}
	kind := []string{"wire", "soup", "legacy", "cpubin", "wrap"}[r.Intn(5)]
	inputs, what := buildInputs(kind, r)
	res := harness.Result{NonTrivial: true, Sig: fmt.Sprintf("exe/%s/%d", kind, c.Index), Sample: map[string]any{"kind": kind, "via": "pprof -top|-raw|-traces <file>"}}
	for k := 0; k < 6; k++ {
		i := r.Intn(len(inputs))
		if len(inputs[i]) > 1<<20 {
			continue
		}
		path := filepath.Join(c.Tmp, fmt.Sprintf("in%d", k))
		if err := os.WriteFile(path, inputs[i], 0o644); err != nil {
			return harness.Result{Verdict: harness.Inconclusive, Detail: err.Error()}
		}
		format := []string{"-top", "-raw", "-traces"}[r.Intn(3)]
		cmd := exec.Command(bin, format, "-symbolize=none", path)
		cmd.Env = []string{"HOME=" + c.Tmp, "XDG_CONFIG_HOME=" + c.Tmp + "/config", "PPROF_TMPDIR=" + c.Tmp + "/tmp", "TZ=UTC", "PATH="}
		cmd.Dir = c.Tmp
		var so, se bytes.Buffer
		cmd.Stdout, cmd.Stderr = &so, &se
		cmd.Stdin = strings.NewReader("")
		if err := cmd.Start(); err != nil {
			return harness.Result{Verdict: harness.Inconclusive, Detail: err.Error()}
		}
		done := make(chan error, 1)
		go func() { done <- cmd.Wait() }()
		select {
		case <-done:
		case <-time.After(2 * time.Minute):
			cmd.Process.Kill()
			return harness.Result{Verdict: harness.Inconclusive, Detail: fmt.Sprintf("watchdog: pprof %s on input %d did not finish in 2 min (%s)", format, i, what[i])}
		}
		c.Stat("exe_runs", 1)
		code := cmd.ProcessState.ExitCode()
		errs := se.String()
		if code == 0 {
			c.Stat("exe_accepted", 1)
		} else {
			c.Stat("exe_rejected", 1)
		}
		if strings.Contains(errs, "panic:") || strings.Contains(errs, "fatal error:") || strings.Contains(errs, "goroutine 1 [running]") || code < 0 || code > 2 {
			res.Verdict = harness.Violated
			res.Detail = fmt.Sprintf("pprof %s <file> exited abnormally (status %d) on %s/%s:\n%s\ninput hex: %x", format, code, kind, what[i], harness.Trunc(errs, 2500), trunc(inputs[i], 2000))
			return res
		}
		if code != 0 && strings.TrimSpace(errs) == "" {
			res.Verdict, res.Detail = harness.Violated, fmt.Sprintf("pprof %s <file> exited with status %d without any message on %s/%s\ninput hex: %x", format, code, kind, what[i], trunc(inputs[i], 2000))
			return res
		}
	}
	return res
}

func init() {
	harness.Register(&harness.Check{
		ID:               "C02",
		Level:            "exploration",
		CrashIsViolation: true,
		CaseTimeout:      2 * time.Minute,
		HangTries:        3,
		Rule: "each case expands into 20-300 inputs of one family: wire (valid codec-class encodings, mutated on an independently decoded wire tree: varint games, wire-type/field-number swaps, duplicated/deleted/reordered fields, missing string table, nested damage, id 0/huge; byte mutants; every truncation for encodings <=300 B), soup (random field soups over profile.proto numbers), legacy (documents from the C14 printers and repository testdata, token-level mutants: huge/negative/non-numeric numbers, deleted/duplicated/swapped lines, CRLF, missing sentinels), cpubin (binary CPU profiles, both endiannesses and word sizes, hostile counts), wrap (gzip wrappers: valid, truncated, corrupt, double, header only, trailing garbage; concatenations). " +
			"part exe: six inputs of a random family given as files to the real executable (pprof -top|-raw|-traces -symbolize=none <file>): exit status 0..2, a message on stderr whenever it fails, no Go panic/fatal error. oracle: no panic; exactly one of error/profile; returned profile passes the independent validity checker; Write/WriteUncompressed/String/Copy/Compact and 9 report formats x 3 variants (plain, trimmed + fully aggregated, -mean) complete; accepted inputs round-trip (C01 oracle); ParseData allocation <= 1024*(len+gunzipped)+3MiB; a case (<=300 inputs, typically well under a second) that does not finish within 2 min in 3 of 3 fresh worker processes is a hang (violation, with goroutine dump); a single timeout is inconclusive. non-trivial = every case; distinct = (family, input count, base length)",
		Assumptions: []string{"'promptly' is restated as an allocation bound proportional to input size plus the 3-of-3 hang rule (2 min per case of <=300 small inputs, about 1000x the typical case time)", "inputs bounded to 1 MiB"},
		Parts: []harness.Part{
			{Name: "wire", Quick: 400, Thor: 40000, Run: runInputs("wire")},
			{Name: "soup", Quick: 150, Thor: 15000, Run: runInputs("soup")},
			{Name: "legacy", Quick: 300, Thor: 30000, Run: runInputs("legacy")},
			{Name: "cpubin", Quick: 100, Thor: 10000, Run: runInputs("cpubin")},
			{Name: "wrap", Quick: 100, Thor: 10000, Run: runInputs("wrap")},
			{Name: "exe", Quick: 60, Thor: 3000, Run: runExe},
		},
		MinNonTrivial: func(string) int { return 200 },
		Finish: func(tier string, st map[string]int64) string {
			if st["accepted"] < 100 || st["rejected"] < 100 {
				return fmt.Sprintf("too few accepted (%d) or rejected (%d) inputs", st["accepted"], st["rejected"])
			}
			return ""
		},
	})
}
