module github.com/google/pprof/verif

go 1.23

require (
	github.com/anishathalye/porcupine v1.3.0
	github.com/google/pprof v0.0.0
)

require github.com/ianlancetaylor/demangle v0.0.0-20240312041847-bd984b5ce465 // indirect

replace github.com/google/pprof => /repo
