module github.com/google/pprof/verif

go 1.23

require (
	github.com/anishathalye/porcupine v1.3.0
	github.com/google/pprof v0.0.0
)

replace github.com/google/pprof => /repo
